package sym

import (
	"fmt"
	"go/types"
	"net"
	"os"
	"path/filepath"
	"strings"

	"golang.org/x/tools/go/ssa"
)

// ---- time model ----
//
// time.Time keeps its real struct layout {wall uint64; ext int64; loc *Location}
// but only ext is used: a signed 64-bit nanosecond instant on one line, with
// the zero Time at instant 0 and the Unix epoch at instant timeEpoch.

const timeEpoch = int64(1) << 60

func (ex *Exec) mkTime(ns *Term) Value {
	return &Struct{[]Value{ex.C.Const(64, 0), ns, Ptr{}}}
}

func timeNs(v Value) *Term { return v.(*Struct).F[1].(*Term) }

func (ex *Exec) now() *Term {
	t := ex.fresh("now", 64)
	lo := ex.C.Const(64, uint64(timeEpoch))
	if ex.clock != nil {
		lo = ex.clock
	}
	c := ex.C.And(ex.C.Cmp(OpSLe, lo, t), ex.C.Cmp(OpSLe, t, ex.C.Const(64, uint64(timeEpoch+(int64(1)<<60)))))
	ex.addPC(c)
	ex.clock = t
	ex.clockLog = append(ex.clockLog, t)
	return t
}

func registerTime(t map[string]intrinsic) {
	t["time.Now"] = func(ex *Exec, caller *frame, fn *ssa.Function, args []Value) (Value, *goPanic) {
		ex.realClockReads++
		return ex.mkTime(ex.now()), nil
	}
	t["time.Since"] = func(ex *Exec, caller *frame, fn *ssa.Function, args []Value) (Value, *goPanic) {
		ex.realClockReads++
		return ex.C.Bin(OpSub, ex.now(), timeNs(args[0])), nil
	}
	t["time.Until"] = func(ex *Exec, caller *frame, fn *ssa.Function, args []Value) (Value, *goPanic) {
		ex.realClockReads++
		return ex.C.Bin(OpSub, timeNs(args[0]), ex.now()), nil
	}
	t["time.Unix"] = func(ex *Exec, caller *frame, fn *ssa.Function, args []Value) (Value, *goPanic) {
		s, n := args[0].(*Term), args[1].(*Term)
		ns := ex.C.Bin(OpAdd, ex.C.Bin(OpAdd, ex.C.Bin(OpMul, s, ex.C.Const(64, 1000000000)), n), ex.C.Const(64, uint64(timeEpoch)))
		return ex.mkTime(ns), nil
	}
	t["(time.Time).Add"] = func(ex *Exec, caller *frame, fn *ssa.Function, args []Value) (Value, *goPanic) {
		return ex.mkTime(ex.C.Bin(OpAdd, timeNs(args[0]), args[1].(*Term))), nil
	}
	t["(time.Time).Sub"] = func(ex *Exec, caller *frame, fn *ssa.Function, args []Value) (Value, *goPanic) {
		return ex.C.Bin(OpSub, timeNs(args[0]), timeNs(args[1])), nil
	}
	t["(time.Time).Before"] = func(ex *Exec, caller *frame, fn *ssa.Function, args []Value) (Value, *goPanic) {
		return ex.C.Cmp(OpSLt, timeNs(args[0]), timeNs(args[1])), nil
	}
	t["(time.Time).After"] = func(ex *Exec, caller *frame, fn *ssa.Function, args []Value) (Value, *goPanic) {
		return ex.C.Cmp(OpSLt, timeNs(args[1]), timeNs(args[0])), nil
	}
	t["(time.Time).Equal"] = func(ex *Exec, caller *frame, fn *ssa.Function, args []Value) (Value, *goPanic) {
		return ex.C.Eq(timeNs(args[0]), timeNs(args[1])), nil
	}
	t["(time.Time).Compare"] = func(ex *Exec, caller *frame, fn *ssa.Function, args []Value) (Value, *goPanic) {
		a, b := timeNs(args[0]), timeNs(args[1])
		return ex.C.Ite(ex.C.Cmp(OpSLt, a, b), ex.C.Const(64, ^uint64(0)), ex.C.Ite(ex.C.Eq(a, b), ex.C.Const(64, 0), ex.C.Const(64, 1))), nil
	}
	t["(time.Time).IsZero"] = func(ex *Exec, caller *frame, fn *ssa.Function, args []Value) (Value, *goPanic) {
		return ex.C.Eq(timeNs(args[0]), ex.C.Const(64, 0)), nil
	}
	t["(time.Time).Unix"] = func(ex *Exec, caller *frame, fn *ssa.Function, args []Value) (Value, *goPanic) {
		ex.noteAssumption("time.Time.Unix modelled as truncating division (instants before 1970 outside the model)")
		d := ex.C.Bin(OpSub, timeNs(args[0]), ex.C.Const(64, uint64(timeEpoch)))
		return ex.C.Bin(OpSDiv, d, ex.C.Const(64, 1000000000)), nil
	}
	t["(time.Time).UnixNano"] = func(ex *Exec, caller *frame, fn *ssa.Function, args []Value) (Value, *goPanic) {
		return ex.C.Bin(OpSub, timeNs(args[0]), ex.C.Const(64, uint64(timeEpoch))), nil
	}
	t["(time.Time).Round"] = ident0
	t["(time.Time).UTC"] = ident0
	t["(time.Time).Local"] = ident0
	t["(time.Time).Format"] = func(ex *Exec, caller *frame, fn *ssa.Function, args []Value) (Value, *goPanic) {
		return ex.mkStr("<time>"), nil
	}
	t["(time.Time).String"] = func(ex *Exec, caller *frame, fn *ssa.Function, args []Value) (Value, *goPanic) {
		return ex.mkStr("<time>"), nil
	}
	t["(time.Duration).Seconds"] = func(ex *Exec, caller *frame, fn *ssa.Function, args []Value) (Value, *goPanic) {
		d := args[0].(*Term)
		if d.IsConst() {
			return Float{float64(d.SVal()) / 1e9}, nil
		}
		return SymFloat{Num: d, Div: 1000000000}, nil
	}
	t["(time.Duration).String"] = func(ex *Exec, caller *frame, fn *ssa.Function, args []Value) (Value, *goPanic) {
		return ex.mkStr("<duration>"), nil
	}
}

// ---- verif runtime primitives ----

var rtTable map[string]intrinsic

// EvalModel, when set, makes vLog print values under this model on the path it satisfies.
var EvalModel Model

func isRTFile(ex *Exec, fn *ssa.Function) bool {
	if fn.Synthetic != "" || !fn.Pos().IsValid() {
		return false
	}
	return strings.HasPrefix(filepath.Base(ex.Prog.Fset.Position(fn.Pos()).Filename), "zz_verif_rt")
}

func registerRT(t map[string]intrinsic) {
	rt := map[string]intrinsic{}
	rtTable = rt
	nd := func(w int) intrinsic {
		return func(ex *Exec, caller *frame, fn *ssa.Function, args []Value) (Value, *goPanic) {
			return ex.fresh(ex.mustConcreteStr(args[0], fn.Name()), w), nil
		}
	}
	rt["vBool"] = nd(0)
	rt["vU8"] = nd(8)
	rt["vU16"] = nd(16)
	rt["vU32"] = nd(32)
	rt["vU64"] = nd(64)
	rt["vI32"] = nd(32)
	rt["vI64"] = nd(64)
	rt["vInt"] = nd(64)
	rt["vBytes"] = func(ex *Exec, caller *frame, fn *ssa.Function, args []Value) (Value, *goPanic) {
		name := ex.mustConcreteStr(args[0], "vBytes")
		n := ex.concretize(args[1].(*Term), 0, 4096)
		el := make([]Value, n)
		for i := range el {
			el[i] = ex.fresh(fmt.Sprintf("%s[%d]", name, i), 8)
		}
		return ex.newSliceFrom(types.Typ[types.Uint8], el, n), nil
	}
	rt["vString"] = func(ex *Exec, caller *frame, fn *ssa.Function, args []Value) (Value, *goPanic) {
		name := ex.mustConcreteStr(args[0], "vString")
		n := ex.concretize(args[1].(*Term), 0, 4096)
		b := make([]*Term, n)
		for i := range b {
			b[i] = ex.fresh(fmt.Sprintf("%s[%d]", name, i), 8)
		}
		return Str{b}, nil
	}
	rt["vChoice"] = func(ex *Exec, caller *frame, fn *ssa.Function, args []Value) (Value, *goPanic) {
		name := ex.mustConcreteStr(args[0], "vChoice")
		n := ex.concretize(args[1].(*Term), 0, 4096)
		if n <= 0 {
			panic(pathAbort{"vChoice(0)"})
		}
		v := ex.fresh(name, 64)
		if v.IsConst() { // fixed-model run
			return v, nil
		}
		conds := make([]*Term, n)
		for i := range conds {
			conds[i] = ex.C.Eq(v, ex.C.Const(64, uint64(i)))
		}
		return ex.C.Const(64, uint64(ex.chooseFree(conds))), nil
	}
	rt["vAssume"] = func(ex *Exec, caller *frame, fn *ssa.Function, args []Value) (Value, *goPanic) {
		c := args[0].(*Term)
		ex.St.Assumes++
		if c.IsConst() {
			if c.Val == 0 {
				panic(pathAbort{"assume-false"})
			}
			return nil, nil
		}
		if !ex.feasible(c) {
			panic(pathAbort{"assume-infeasible"})
		}
		ex.addPC(c)
		return nil, nil
	}
	rt["vAssert"] = func(ex *Exec, caller *frame, fn *ssa.Function, args []Value) (Value, *goPanic) {
		id := ex.mustConcreteStr(args[0], "vAssert")
		ex.assert(id, args[1].(*Term))
		return nil, nil
	}
	rt["vReach"] = func(ex *Exec, caller *frame, fn *ssa.Function, args []Value) (Value, *goPanic) {
		id := ex.mustConcreteStr(args[0], "vReach")
		ex.reach(id)
		return nil, nil
	}
	rt["vFail"] = func(ex *Exec, caller *frame, fn *ssa.Function, args []Value) (Value, *goPanic) {
		id := ex.mustConcreteStr(args[0], "vFail")
		ex.reach(id)
		ex.St.Obligations++
		ex.reportViolation(id, "fail", "vFail reached", nil)
		panic(pathAbort{"vFail"})
	}
	rt["vCut"] = func(ex *Exec, caller *frame, fn *ssa.Function, args []Value) (Value, *goPanic) {
		why := ex.mustConcreteStr(args[0], "vCut")
		panic(pathAbort{"cut:" + why})
	}
	rt["vTier"] = func(ex *Exec, caller *frame, fn *ssa.Function, args []Value) (Value, *goPanic) {
		return ex.C.Const(64, uint64(ex.Tier)), nil
	}
	rt["vTry"] = func(ex *Exec, caller *frame, fn *ssa.Function, args []Value) (Value, *goPanic) {
		_, pan := ex.callValue(caller, args[0], nil, nil)
		if pan != nil {
			ex.lastRecovered = pan
			return ex.C.True, nil
		}
		return ex.C.False, nil
	}
	rt["vPanicIsRuntime"] = func(ex *Exec, caller *frame, fn *ssa.Function, args []Value) (Value, *goPanic) {
		return ex.C.Bool(ex.lastRecovered != nil && ex.lastRecovered.runtime), nil
	}
	rt["vNow"] = func(ex *Exec, caller *frame, fn *ssa.Function, args []Value) (Value, *goPanic) {
		return ex.mkTime(ex.now()), nil
	}
	rt["vTime"] = func(ex *Exec, caller *frame, fn *ssa.Function, args []Value) (Value, *goPanic) {
		name := ex.mustConcreteStr(args[0], "vTime")
		t := ex.fresh(name, 64)
		ex.addPC(ex.C.And(ex.C.Cmp(OpSLe, ex.C.Const(64, 0), t), ex.C.Cmp(OpSLe, t, ex.C.Const(64, uint64(timeEpoch+(int64(1)<<60))))))
		return ex.mkTime(t), nil
	}
	rt["vTimeNs"] = func(ex *Exec, caller *frame, fn *ssa.Function, args []Value) (Value, *goPanic) {
		return timeNs(args[0]), nil
	}
	rt["vTimeFromNs"] = func(ex *Exec, caller *frame, fn *ssa.Function, args []Value) (Value, *goPanic) {
		return ex.mkTime(args[0].(*Term)), nil
	}
	rt["vLocksHeld"] = func(ex *Exec, caller *frame, fn *ssa.Function, args []Value) (Value, *goPanic) {
		return ex.C.Const(64, uint64(ex.locksHeld)), nil
	}
	rt["vMaxLocks"] = func(ex *Exec, caller *frame, fn *ssa.Function, args []Value) (Value, *goPanic) {
		return ex.C.Const(64, uint64(ex.maxLocks)), nil
	}
	rt["vHashCount"] = func(ex *Exec, caller *frame, fn *ssa.Function, args []Value) (Value, *goPanic) {
		return ex.C.Const(64, uint64(len(ex.hashLog))), nil
	}
	rt["vHashPreimage"] = func(ex *Exec, caller *frame, fn *ssa.Function, args []Value) (Value, *goPanic) {
		i := ex.concretize(args[0].(*Term), 0, len(ex.hashLog))
		bs := ex.hashLog[i]
		el := make([]Value, len(bs))
		for k, b := range bs {
			el[k] = b
		}
		return ex.newSliceFrom(types.Typ[types.Uint8], el, len(el)), nil
	}
	rt["vPoolPut"] = func(ex *Exec, caller *frame, fn *ssa.Function, args []Value) (Value, *goPanic) {
		// vPoolPut(pool *sync.Pool, x any): seed a pool with a (dirty) object
		p := args[0].(Ptr)
		key := fmt.Sprintf("pool:%d", p.Obj.ID)
		lst, _ := ex.ghost[key].([]Value)
		ex.ghost[key] = append(append([]Value{}, lst...), args[1])
		return nil, nil
	}
	rt["vNote"] = noop
	// every clock reading taken so far on this path, in order (time.Now, Since, Until, vNow)
	rt["vClockCount"] = func(ex *Exec, caller *frame, fn *ssa.Function, args []Value) (Value, *goPanic) {
		return ex.C.Const(64, uint64(len(ex.clockLog))), nil
	}
	rt["vClockAt"] = func(ex *Exec, caller *frame, fn *ssa.Function, args []Value) (Value, *goPanic) {
		i := ex.concretize(args[0].(*Term), 0, len(ex.clockLog))
		return ex.mkTime(ex.clockLog[i]), nil
	}
	rt["vLog"] = func(ex *Exec, caller *frame, fn *ssa.Function, args []Value) (Value, *goPanic) {
		if os.Getenv("VERIF_LOG") != "" {
			if EvalModel != nil {
				memo := map[int]uint64{}
				sat := true
				for _, l := range ex.pc {
					if v, ok := Eval(l, EvalModel, memo); !ok || v == 0 {
						sat = false
					}
				}
				if sat {
					v, ok := Eval(args[1].(*Term), EvalModel, memo)
					fmt.Fprintf(os.Stderr, "vLog[model path] %s = #x%x ok=%v\n", ex.mustConcreteStr(args[0], "vLog"), v, ok)
				}
			} else {
				fmt.Fprintf(os.Stderr, "vLog %s = %s\n", ex.mustConcreteStr(args[0], "vLog"), describe(args[1]))
			}
		}
		return nil, nil
	}
	// vUF1/vUF2: an uninterpreted function of the arguments (same name + same
	// arguments => same result, nothing else is known about it)
	rt["vUF1"] = func(ex *Exec, caller *frame, fn *ssa.Function, args []Value) (Value, *goPanic) {
		return ex.C.UF("huf_"+ex.mustConcreteStr(args[0], "vUF1"), 64, args[1].(*Term)), nil
	}
	rt["vUF2"] = func(ex *Exec, caller *frame, fn *ssa.Function, args []Value) (Value, *goPanic) {
		return ex.C.UF("huf_"+ex.mustConcreteStr(args[0], "vUF2"), 64, args[1].(*Term), args[2].(*Term)), nil
	}
}

func lookupRT(ex *Exec, fn *ssa.Function) (intrinsic, bool) {
	h, ok := rtTable[fn.Name()]
	if !ok {
		return nil, false
	}
	if !isRTFile(ex, fn) {
		return nil, false
	}
	return h, true
}

// ---- assertions ----

func (ex *Exec) reach(id string) {
	ex.St.Reached[id]++
	if !ex.sampled[id] && len(ex.St.Samples) < 12 {
		ex.sampled[id] = true
		// one model of the path condition here, as a written-out case
		r, m := ex.check(ex.pc, ex.sampleVars())
		if r == Sat {
			vals := map[string]interface{}{}
			for _, v := range ex.sampleVars() {
				vals[v.Name] = m[v.Name]
			}
			ex.St.Samples = append(ex.St.Samples, map[string]interface{}{"harness": ex.H.Entry, "reached": id, "inputs": vals, "trail": ex.trailInts()})
			if len(ex.vars) <= 400 {
				ex.lastModel = m
			}
		}
	}
}

func (ex *Exec) sampleVars() []*Term {
	if len(ex.vars) > 48 {
		return ex.vars[:48]
	}
	return ex.vars
}

func (ex *Exec) trailInts() []int {
	out := make([]int, 0, len(ex.trail))
	for _, d := range ex.trail[:ex.pos] {
		out = append(out, d.chosen)
	}
	return out
}

func (ex *Exec) assert(id string, c *Term) {
	ex.reach(id)
	ex.St.Obligations++
	if c.IsConst() {
		if c.Val != 0 {
			ex.St.Trivial++
			ex.St.Discharged++
			return
		}
		ex.reportViolation(id, "assert", "assertion is constant false on this path", nil)
		panic(pathAbort{"assert-false"})
	}
	neg := ex.C.Not(c)
	lits := append(append([]*Term{}, ex.pc...), neg)
	r, m := ex.check(lits, ex.allVars())
	switch r {
	case Unsat:
		ex.St.Discharged++
		ex.addPC(c)
	case Sat:
		// validate the model with the engine's own evaluator
		memo := map[int]uint64{}
		bad := ""
		if v, ok := Eval(c, m, memo); ok && v != 0 {
			bad = "assertion evaluates to true under the solver's model"
		}
		for _, l := range ex.pc {
			if v, ok := Eval(l, m, memo); ok && v == 0 {
				bad = "a path-condition literal evaluates to false under the solver's model"
			}
		}
		if bad != "" {
			ex.inconclusive = append(ex.inconclusive, "model validation failed on "+id+": "+bad)
			ex.addPC(c)
			return
		}
		ex.reportViolation(id, "assert", "assertion can fail", m)
		// continue under the assumption that it held, to look further
		if !ex.feasible(c) {
			panic(pathAbort{"assert-always-fails"})
		}
		ex.addPC(c)
	default:
		ex.noteUnknown("assert " + id)
		ex.inconclusive = append(ex.inconclusive, "solver unknown on assertion "+id)
		ex.addPC(c)
	}
}

func (ex *Exec) allVars() []*Term {
	if len(ex.auxVars) == 0 {
		return ex.vars
	}
	return append(append([]*Term{}, ex.vars...), ex.auxVars...)
}

func (ex *Exec) reportViolation(id, kind, msg string, m Model) {
	key := kind + ":" + id
	if ex.violKeys[key] {
		return
	}
	if m == nil {
		r, mm := ex.check(ex.pc, ex.allVars())
		if r == Sat {
			m = mm
		} else {
			m = Model{}
		}
	}
	ex.violKeys[key] = true
	names := make([]string, len(ex.vars))
	for i, v := range ex.vars {
		names[i] = v.Name
	}
	ex.violations = append(ex.violations, Violation{Harness: ex.H.Entry, ID: id, Kind: kind, Msg: msg, Model: m, Trail: ex.trailInts(), Vars: names, RealClock: ex.realClockReads > 0})
}

// ---- hashes, sort, misc ----

func (ex *Exec) hashUF(name string, w int, bs []*Term) *Term {
	ex.hashLog = append(ex.hashLog, bs)
	if len(bs) == 0 {
		return ex.C.UF(name, w)
	}
	return ex.C.UF(name, w, bs...)
}

func registerMisc(t map[string]intrinsic) {
	bytesArg := func(ex *Exec, v Value) []*Term {
		switch x := v.(type) {
		case Str:
			return x.B
		case Slice:
			var bs []*Term
			for _, e := range ex.sliceElems(x) {
				bs = append(bs, e.(*Term))
			}
			return bs
		}
		panic(engineErr("hash arg %T", v))
	}
	t["github.com/cespare/xxhash/v2.Sum64"] = func(ex *Exec, caller *frame, fn *ssa.Function, args []Value) (Value, *goPanic) {
		return ex.hashUF("xxh64", 64, bytesArg(ex, args[0])), nil
	}
	t["github.com/cespare/xxhash/v2.Sum64String"] = t["github.com/cespare/xxhash/v2.Sum64"]
	// Digest: accumulate written bytes in ghost state keyed by the digest object
	dkey := func(p Ptr) string { return fmt.Sprintf("xxh:%d:%v", p.Obj.ID, p.Path) }
	t["github.com/cespare/xxhash/v2.New"] = nil
	delete(t, "github.com/cespare/xxhash/v2.New")
	t["(*github.com/cespare/xxhash/v2.Digest).Reset"] = func(ex *Exec, caller *frame, fn *ssa.Function, args []Value) (Value, *goPanic) {
		ex.ghost[dkey(args[0].(Ptr))] = []*Term{}
		return nil, nil
	}
	wr := func(ex *Exec, caller *frame, fn *ssa.Function, args []Value) (Value, *goPanic) {
		k := dkey(args[0].(Ptr))
		old, _ := ex.ghost[k].([]*Term)
		bs := bytesArg(ex, args[1])
		ex.ghost[k] = append(append([]*Term{}, old...), bs...)
		return Tuple{ex.C.Const(64, uint64(len(bs))), Iface{}}, nil
	}
	t["(*github.com/cespare/xxhash/v2.Digest).Write"] = wr
	t["(*github.com/cespare/xxhash/v2.Digest).WriteString"] = wr
	t["(*github.com/cespare/xxhash/v2.Digest).Sum64"] = func(ex *Exec, caller *frame, fn *ssa.Function, args []Value) (Value, *goPanic) {
		old, _ := ex.ghost[dkey(args[0].(Ptr))].([]*Term)
		return ex.hashUF("xxh64", 64, old), nil
	}

	t["sort.Slice"] = func(ex *Exec, caller *frame, fn *ssa.Function, args []Value) (Value, *goPanic) {
		iv := args[0].(Iface)
		s := iv.V.(Slice)
		if s.Len > 12 {
			panic(engineErr("sort.Slice intrinsic models the n<=12 insertion-sort regime only (n=%d)", s.Len))
		}
		less := args[1]
		for i := 1; i < s.Len; i++ {
			for j := i; j > 0; j-- {
				r, pan := ex.callValue(caller, less, []Value{ex.C.Const(64, uint64(j)), ex.C.Const(64, uint64(j-1))}, nil)
				if pan != nil {
					return nil, pan
				}
				if !ex.branch(r.(*Term)) {
					break
				}
				a, b := ex.load(s.elemPtr(j)), ex.load(s.elemPtr(j-1))
				ex.store(s.elemPtr(j), b)
				ex.store(s.elemPtr(j-1), a)
			}
		}
		return nil, nil
	}
	t["sort.SliceStable"] = t["sort.Slice"]

	lookupEnv := func(ex *Exec, caller *frame, fn *ssa.Function, args []Value) (Value, *goPanic) {
		return Tuple{Str{}, ex.C.False}, nil
	}
	t["(net.IP).String"] = func(ex *Exec, caller *frame, fn *ssa.Function, args []Value) (Value, *goPanic) {
		// concrete address: the real spelling; symbolic address: an opaque
		// string that is unique per call, so that two different addresses can
		// never compare equal through their text (the digit formatting of
		// symbolic octets is not modelled)
		if sl, ok := args[0].(Slice); ok {
			if sl.IsNil() || sl.Len == 0 {
				return ex.mkStr("<nil>"), nil
			}
			elems := ex.sliceElems(sl)
			b := make([]byte, len(elems))
			conc := true
			for i, e := range elems {
				t, ok := e.(*Term)
				if !ok || !t.IsConst() {
					conc = false
					break
				}
				b[i] = byte(t.Val)
			}
			if conc {
				return ex.mkStr(net.IP(b).String()), nil
			}
		}
		ex.opaqueIPs++
		return ex.mkStr(fmt.Sprintf("<ip#%d>", ex.opaqueIPs)), nil
	}
	t["github.com/miekg/dns.id"] = func(ex *Exec, caller *frame, fn *ssa.Function, args []Value) (Value, *goPanic) {
		return ex.fresh("dns.id", 16), nil
	}
	nilSliceNilErr := func(ex *Exec, caller *frame, fn *ssa.Function, args []Value) (Value, *goPanic) {
		return Tuple{Slice{}, Iface{}}, nil
	}
	t["net.Interfaces"] = nilSliceNilErr
	t["net.InterfaceAddrs"] = nilSliceNilErr
	for _, pk := range []string{"math/rand/v2", "math/rand"} {
		pk := pk
		t[pk+".Uint32"] = func(ex *Exec, caller *frame, fn *ssa.Function, args []Value) (Value, *goPanic) {
			return ex.fresh("rand.u32", 32), nil
		}
		t[pk+".Uint64"] = func(ex *Exec, caller *frame, fn *ssa.Function, args []Value) (Value, *goPanic) {
			return ex.fresh("rand.u64", 64), nil
		}
		t[pk+".Int"] = func(ex *Exec, caller *frame, fn *ssa.Function, args []Value) (Value, *goPanic) {
			v := ex.fresh("rand.int", 64)
			ex.addPC(ex.C.Cmp(OpSLe, ex.C.Const(64, 0), v))
			return v, nil
		}
		intn := func(ex *Exec, caller *frame, fn *ssa.Function, args []Value) (Value, *goPanic) {
			n := args[0].(*Term)
			v := ex.fresh("rand.intn", n.W)
			ex.addPC(ex.C.Cmp(OpULt, v, n))
			return v, nil
		}
		t[pk+".IntN"] = intn
		t[pk+".Intn"] = intn
		t[pk+".Int64N"] = intn
		t[pk+".Int63n"] = intn
		t[pk+".Uint32N"] = intn
		t[pk+".Uint64N"] = intn
	}
	// dns.CanonicalName = strings.Map(ASCII-lower, Fqdn(s)). For bytes < 0x80 that is
	// a per-byte lowering; other bytes are outside the model (path cut and listed).
	t["github.com/miekg/dns.CanonicalName"] = func(ex *Exec, caller *frame, fn *ssa.Function, args []Value) (Value, *goPanic) {
		fq := fn.Pkg.Func("Fqdn")
		if fq == nil {
			panic(engineErr("dns.Fqdn not found"))
		}
		r, pan := ex.callFunction(fq, args, nil, caller)
		if pan != nil {
			return nil, pan
		}
		in := r.(Str)
		out := make([]*Term, len(in.B))
		for i, b := range in.B {
			ex.needASCII(b, "dns.CanonicalName")
			out[i] = ex.lowerASCII(b)
		}
		return Str{out}, nil
	}
	// context.WithValue: the real valueCtx node without the reflect-based comparability check
	t["context.WithValue"] = func(ex *Exec, caller *frame, fn *ssa.Function, args []Value) (Value, *goPanic) {
		parent := args[0].(Iface)
		if parent.T == nil {
			return nil, &goPanic{msg: "cannot create context from nil parent"}
		}
		tn := fn.Pkg.Type("valueCtx")
		if tn == nil {
			panic(engineErr("context.valueCtx not found"))
		}
		o := ex.newObj(tn.Type(), &Struct{[]Value{parent, args[1], args[2]}}, "valueCtx")
		return Iface{T: types.NewPointer(tn.Type()), V: Ptr{Obj: o}}, nil
	}
	t["crypto/internal/constanttime.boolToUint8"] = func(ex *Exec, caller *frame, fn *ssa.Function, args []Value) (Value, *goPanic) {
		return ex.C.Ite(args[0].(*Term), ex.C.Const(8, 1), ex.C.Const(8, 0)), nil
	}
	pureIntrinsics["crypto/internal/constanttime.boolToUint8"] = true
	t["os.LookupEnv"] = lookupEnv
	t["syscall.Getenv"] = lookupEnv
	t["os.Getenv"] = func(ex *Exec, caller *frame, fn *ssa.Function, args []Value) (Value, *goPanic) {
		return Str{}, nil
	}
}

// ---- reflect (the handful of operations pack.go's provenance check uses) ----

// ReflType / ReflValue are the payloads behind reflect.Type / reflect.Value.
type ReflType struct{ T types.Type }
type ReflValue struct{ I Iface }

func (ex *Exec) rtypePtr() types.Type {
	if t, ok := ex.typeIDs["reflect.*rtype"]; ok {
		return t
	}
	for _, p := range ex.Prog.AllPackages() {
		if p.Pkg.Path() == "reflect" {
			if tn := p.Type("rtype"); tn != nil {
				t := types.NewPointer(tn.Type())
				ex.typeIDs["reflect.*rtype"] = t
				return t
			}
		}
	}
	panic(engineErr("reflect package not loaded"))
}

func reflKind(t types.Type) uint64 {
	switch u := under(t).(type) {
	case *types.Basic:
		switch u.Kind() {
		case types.Bool:
			return 1
		case types.Int:
			return 2
		case types.Int8:
			return 3
		case types.Int16:
			return 4
		case types.Int32:
			return 5
		case types.Int64:
			return 6
		case types.Uint:
			return 7
		case types.Uint8:
			return 8
		case types.Uint16:
			return 9
		case types.Uint32:
			return 10
		case types.Uint64:
			return 11
		case types.Uintptr:
			return 12
		case types.Float32:
			return 13
		case types.Float64:
			return 14
		case types.String:
			return 24
		case types.UnsafePointer:
			return 26
		}
	case *types.Array:
		return 17
	case *types.Chan:
		return 18
	case *types.Signature:
		return 19
	case *types.Interface:
		return 20
	case *types.Map:
		return 21
	case *types.Pointer:
		return 22
	case *types.Slice:
		return 23
	case *types.Struct:
		return 25
	}
	return 0
}

func init() {
	t := intrinsicTable
	t["reflect.TypeOf"] = func(ex *Exec, caller *frame, fn *ssa.Function, args []Value) (Value, *goPanic) {
		i := args[0].(Iface)
		if i.T == nil {
			return Iface{}, nil
		}
		return Iface{T: ex.rtypePtr(), V: ReflType{i.T}}, nil
	}
	t["(*reflect.rtype).Kind"] = func(ex *Exec, caller *frame, fn *ssa.Function, args []Value) (Value, *goPanic) {
		return ex.C.Const(64, reflKind(args[0].(ReflType).T)), nil
	}
	t["(*reflect.rtype).Elem"] = func(ex *Exec, caller *frame, fn *ssa.Function, args []Value) (Value, *goPanic) {
		rt := args[0].(ReflType).T
		switch u := under(rt).(type) {
		case *types.Pointer:
			return Iface{T: ex.rtypePtr(), V: ReflType{u.Elem()}}, nil
		case *types.Slice:
			return Iface{T: ex.rtypePtr(), V: ReflType{u.Elem()}}, nil
		case *types.Array:
			return Iface{T: ex.rtypePtr(), V: ReflType{u.Elem()}}, nil
		case *types.Map:
			return Iface{T: ex.rtypePtr(), V: ReflType{u.Elem()}}, nil
		}
		return nil, &goPanic{msg: "reflect: Elem of invalid type"}
	}
	t["(*reflect.rtype).PkgPath"] = func(ex *Exec, caller *frame, fn *ssa.Function, args []Value) (Value, *goPanic) {
		if n, ok := args[0].(ReflType).T.(*types.Named); ok && n.Obj().Pkg() != nil {
			return ex.mkStr(n.Obj().Pkg().Path()), nil
		}
		return Str{}, nil
	}
	t["(*reflect.rtype).String"] = func(ex *Exec, caller *frame, fn *ssa.Function, args []Value) (Value, *goPanic) {
		return ex.mkStr(args[0].(ReflType).T.String()), nil
	}
	t["reflect.ValueOf"] = func(ex *Exec, caller *frame, fn *ssa.Function, args []Value) (Value, *goPanic) {
		return ReflValue{args[0].(Iface)}, nil
	}
	t["(reflect.Value).IsNil"] = func(ex *Exec, caller *frame, fn *ssa.Function, args []Value) (Value, *goPanic) {
		i := args[0].(ReflValue).I
		switch v := i.V.(type) {
		case Ptr:
			return ex.C.Bool(v.Obj == nil), nil
		case Slice:
			return ex.C.Bool(v.IsNil()), nil
		case MapRef:
			return ex.C.Bool(v.Obj == nil), nil
		case ChanRef:
			return ex.C.Bool(v.Obj == nil), nil
		case *Closure:
			return ex.C.Bool(v == nil), nil
		case Iface:
			return ex.C.Bool(v.T == nil), nil
		}
		return nil, &goPanic{msg: "reflect: call of reflect.Value.IsNil on non-nillable value"}
	}
	for _, n := range []string{"reflect.TypeOf", "(*reflect.rtype).Kind", "(*reflect.rtype).Elem", "(*reflect.rtype).PkgPath", "reflect.ValueOf", "(reflect.Value).IsNil"} {
		pureIntrinsics[n] = true
	}
}
