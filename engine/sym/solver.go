package sym

import (
	"bufio"
	"fmt"
	"io"
	"os/exec"
	"strconv"
	"strings"
	"time"
)

// Result of a check-sat.
type Result int

const (
	Unsat Result = iota
	Sat
	Unknown
)

func (r Result) String() string { return [...]string{"unsat", "sat", "unknown"}[r] }

// Solver is one long-lived SMT solver process speaking SMT-LIB2 over a pipe.
// Every term is introduced once, at assertion level 0, as a define-fun over
// previously defined terms, so a query is push / assert refs / check-sat / pop.
type Solver struct {
	Profile  string // "bv" (z3) | "arith" (cvc5 bv-as-int) | "z3new" | "cvc5"
	cmd      *exec.Cmd
	in       io.WriteCloser
	out      *bufio.Reader
	ctx      *Ctx
	defined  map[int]bool
	declared map[string]bool
	ufDecl   map[string]bool
	Queries  int
	SatN     int
	UnsatN   int
	UnknownN int
	Time     time.Duration
	Errors   []string
	log      io.Writer
	timeoutS int
}

func solverArgv(profile string, timeoutS int) []string {
	switch profile {
	case "arith":
		return []string{"cvc5", "--incremental", "--produce-models", "--solve-bv-as-int=sum", fmt.Sprintf("--tlimit-per=%d", timeoutS*1000)}
	case "cvc5":
		return []string{"cvc5", "--incremental", "--produce-models", fmt.Sprintf("--tlimit-per=%d", timeoutS*1000)}
	case "z3old":
		return []string{"z3", "-in", fmt.Sprintf("-t:%d", timeoutS*1000)}
	default: // "bv": z3 5.1.0 (markedly faster than 4.8.12 on these incremental BV+UF queries)
		return []string{"z3-new", "-in", fmt.Sprintf("-t:%d", timeoutS*1000)}
	}
}

func NewSolver(ctx *Ctx, profile string, timeoutS int, log io.Writer) (*Solver, error) {
	argv := solverArgv(profile, timeoutS)
	cmd := exec.Command(argv[0], argv[1:]...)
	in, err := cmd.StdinPipe()
	if err != nil {
		return nil, err
	}
	outp, err := cmd.StdoutPipe()
	if err != nil {
		return nil, err
	}
	cmd.Stderr = nil
	if err := cmd.Start(); err != nil {
		return nil, err
	}
	s := &Solver{Profile: profile, cmd: cmd, in: in, out: bufio.NewReaderSize(outp, 1<<16), ctx: ctx,
		defined: map[int]bool{}, declared: map[string]bool{}, ufDecl: map[string]bool{}, log: log, timeoutS: timeoutS}
	s.send("(set-option :produce-models true)")
	if profile == "arith" || profile == "cvc5" {
		s.send("(set-logic ALL)")
	}
	return s, nil
}

func (s *Solver) Close() {
	if s.cmd != nil {
		s.in.Close()
		s.cmd.Process.Kill()
		s.cmd.Wait()
		s.cmd = nil
	}
}

func (s *Solver) send(line string) {
	if s.log != nil {
		fmt.Fprintln(s.log, line)
	}
	io.WriteString(s.in, line)
	io.WriteString(s.in, "\n")
}

// define makes sure t and everything below it is known to the solver.
func (s *Solver) define(t *Term) {
	if t.Op == OpConst || s.defined[t.ID] {
		return
	}
	// iterative post-order
	type fr struct {
		t *Term
		i int
	}
	st := []fr{{t, 0}}
	for len(st) > 0 {
		f := &st[len(st)-1]
		if f.i < len(f.t.Args) {
			a := f.t.Args[f.i]
			f.i++
			if a.Op != OpConst && !s.defined[a.ID] {
				st = append(st, fr{a, 0})
			}
			continue
		}
		u := f.t
		st = st[:len(st)-1]
		if s.defined[u.ID] {
			continue
		}
		s.defined[u.ID] = true
		switch u.Op {
		case OpVar:
			if !s.declared[u.Name] {
				s.declared[u.Name] = true
				s.send(fmt.Sprintf("(declare-const %s %s)", varName(u.Name), sortStr(u.W)))
			}
		case OpUF:
			if !s.ufDecl[u.Name] {
				s.ufDecl[u.Name] = true
				s.send(fmt.Sprintf("(declare-fun |%s| %s)", u.Name, s.ctx.ufs[u.Name]))
			}
			s.send(fmt.Sprintf("(define-fun t%d () %s %s)", u.ID, sortStr(u.W), body(u)))
		default:
			s.send(fmt.Sprintf("(define-fun t%d () %s %s)", u.ID, sortStr(u.W), body(u)))
		}
	}
}

func (s *Solver) readLine() (string, error) {
	line, err := s.out.ReadString('\n')
	return strings.TrimSpace(line), err
}

// Check decides the conjunction of lits. If wantModel is non-nil and the
// answer is sat, the listed variables are read back into the returned model.
func (s *Solver) Check(lits []*Term, modelVars []*Term) (Result, Model) {
	for _, l := range lits {
		s.define(l)
	}
	for _, v := range modelVars {
		s.define(v)
	}
	start := time.Now()
	s.Queries++
	s.send("(push 1)")
	for _, l := range lits {
		if l.Op == OpConst {
			if l.Val == 0 {
				s.send("(assert false)")
			}
			continue
		}
		s.send("(assert " + ref(l) + ")")
	}
	s.send("(check-sat)")
	var res Result
	for {
		line, err := s.readLine()
		if err != nil {
			s.Errors = append(s.Errors, "solver died: "+err.Error())
			s.Time += time.Since(start)
			s.UnknownN++
			return Unknown, nil
		}
		if line == "" {
			continue
		}
		if strings.HasPrefix(line, "(error") {
			s.Errors = append(s.Errors, line)
			continue
		}
		switch line {
		case "sat":
			res = Sat
		case "unsat":
			res = Unsat
		case "unknown", "timeout":
			res = Unknown
		default:
			s.Errors = append(s.Errors, "unexpected solver output: "+line)
			continue
		}
		break
	}
	var m Model
	if res == Sat && len(modelVars) > 0 {
		m = s.getValues(modelVars)
	}
	s.send("(pop 1)")
	s.Time += time.Since(start)
	switch res {
	case Sat:
		s.SatN++
	case Unsat:
		s.UnsatN++
	default:
		s.UnknownN++
	}
	if len(s.Errors) > 0 && res != Unknown {
		// any (error line makes the answer untrustworthy
		return Unknown, nil
	}
	return res, m
}

func (s *Solver) getValues(vars []*Term) Model {
	m := Model{}
	const chunk = 200
	for i := 0; i < len(vars); i += chunk {
		j := i + chunk
		if j > len(vars) {
			j = len(vars)
		}
		var sb strings.Builder
		sb.WriteString("(get-value (")
		for _, v := range vars[i:j] {
			sb.WriteString(ref(v))
			sb.WriteByte(' ')
		}
		sb.WriteString("))")
		s.send(sb.String())
		txt := s.readSexp()
		if strings.HasPrefix(txt, "(error") {
			s.Errors = append(s.Errors, txt)
			return m
		}
		vals := parseValues(txt)
		if len(vals) != j-i {
			s.Errors = append(s.Errors, fmt.Sprintf("get-value: expected %d values, got %d: %.200s", j-i, len(vals), txt))
			return m
		}
		for k, v := range vars[i:j] {
			m[v.Name] = vals[k]
		}
	}
	return m
}

// readSexp reads one balanced s-expression (possibly spanning lines).
func (s *Solver) readSexp() string {
	var sb strings.Builder
	depth := 0
	started := false
	inBar := false
	for {
		b, err := s.out.ReadByte()
		if err != nil {
			return sb.String()
		}
		sb.WriteByte(b)
		if inBar {
			if b == '|' {
				inBar = false
			}
			continue
		}
		switch b {
		case '|':
			inBar = true
		case '(':
			depth++
			started = true
		case ')':
			depth--
		}
		if started && depth == 0 {
			return strings.TrimSpace(sb.String())
		}
	}
}

// parseValues extracts the value of each (name value) pair, in order.
func parseValues(txt string) []uint64 {
	var vals []uint64
	// tokens: we look for "#x..", "#b..", "true", "false", "(_ bvN W)"
	i := 0
	depth := 0
	n := len(txt)
	for i < n {
		ch := txt[i]
		switch {
		case ch == '(':
			depth++
			// (_ bvN W)
			if strings.HasPrefix(txt[i:], "(_ bv") {
				j := i + 5
				k := j
				for k < n && txt[k] >= '0' && txt[k] <= '9' {
					k++
				}
				v, _ := strconv.ParseUint(txt[j:k], 10, 64)
				vals = append(vals, v)
				for k < n && txt[k] != ')' {
					k++
				}
				i = k + 1
				depth--
				continue
			}
			i++
		case ch == ')':
			depth--
			i++
		case ch == '|':
			j := i + 1
			for j < n && txt[j] != '|' {
				j++
			}
			i = j + 1
		case ch == '#':
			j := i + 2
			for j < n && txt[j] != ')' && txt[j] != ' ' && txt[j] != '\n' {
				j++
			}
			base := 16
			if txt[i+1] == 'b' {
				base = 2
			}
			v, _ := strconv.ParseUint(txt[i+2:j], base, 64)
			vals = append(vals, v)
			i = j
		case ch == ' ' || ch == '\n' || ch == '\t' || ch == '\r':
			i++
		default:
			j := i
			for j < n && txt[j] != ')' && txt[j] != ' ' && txt[j] != '\n' && txt[j] != '(' {
				j++
			}
			tok := txt[i:j]
			if depth == 2 {
				// position: first token in pair is the name (tN), second the value
				if tok == "true" {
					vals = append(vals, 1)
				} else if tok == "false" {
					vals = append(vals, 0)
				}
			}
			i = j
		}
	}
	return vals
}
