package sym

import (
	"bufio"
	"bytes"
	"encoding/json"
	"fmt"
	"os"
	"os/exec"
	"path/filepath"
	"regexp"
	"sort"
	"strings"
	"time"
)

// ReplayDoc is the on-disk counterexample.
type ReplayDoc struct {
	Property  string            `json:"property"`
	Harness   string            `json:"harness"`
	PkgDir    string            `json:"package"`
	PkgName   string            `json:"package_name"`
	Assertion string            `json:"assertion"`
	Kind      string            `json:"kind"`
	Msg       string            `json:"msg"`
	Values    map[string]uint64 `json:"values"`
	Order     []string          `json:"order"`
	Trail     []int             `json:"trail"`
	Files     []string          `json:"harness_files"`
	NativeOK  bool              `json:"native_replay_meaningful"`
	Why       string            `json:"native_replay_note,omitempty"`
}

var unsafeName = regexp.MustCompile(`[^A-Za-z0-9_.-]+`)

func WriteReplay(vdir, prop string, h *Harness, v *Violation) (string, error) {
	dir := filepath.Join(vdir, "replay")
	if err := os.MkdirAll(dir, 0o755); err != nil {
		return "", err
	}
	files, _ := filepath.Glob(filepath.Join(vdir, "harness", "C*", "*.go"))
	var mine []string
	for _, f := range files {
		src, err := os.ReadFile(f)
		if err == nil && bytes.Contains(src, []byte("//verif:pkg "+h.PkgDir+"\n")) && (filepath.Dir(f) == filepath.Dir(h.File)) {
			mine = append(mine, f)
		}
	}
	sort.Strings(mine)
	doc := ReplayDoc{Property: prop, Harness: h.Entry, PkgDir: h.PkgDir, PkgName: h.PkgName, Assertion: v.ID, Kind: v.Kind, Msg: v.Msg,
		Values: map[string]uint64{}, Order: v.Vars, Trail: v.Trail, Files: mine, NativeOK: true}
	for k, val := range v.Model {
		doc.Values[k] = val
	}
	if len(h.Stubs) > 0 {
		doc.NativeOK = false
		doc.Why = "harness replaces callees by engine stubs"
	}
	if v.RealClock {
		doc.NativeOK = false
		doc.Why = "the code under test reads the wall clock (time.Now); the model's clock readings cannot be imposed on a native run"
	}
	if h.EnvStepName != "" {
		doc.NativeOK = false
		doc.Why = "harness uses an interference step between atomic operations"
	}
	name := unsafeName.ReplaceAllString(fmt.Sprintf("%s-%s-%s", prop, h.Entry, v.ID), "_")
	if len(name) > 150 {
		name = name[:150]
	}
	path := filepath.Join(dir, name+".json")
	b, _ := json.MarshalIndent(doc, "", " ")
	return path, os.WriteFile(path, b, 0o644)
}

// NativeReplay runs the harness natively (go test with an overlay) on the
// model and returns VIOLATED <id> | PANIC ... | PASSED | ASSUME-FAILED |
// UNAVAILABLE <why>.
func NativeReplay(repo, vdir string, p *Program, h *Harness, replayPath string) string {
	out, err := ReplayFile(repo, vdir, replayPath)
	if err != nil {
		return "UNAVAILABLE " + err.Error()
	}
	return out
}

func ReplayFile(repo, vdir, replayPath string) (string, error) {
	b, err := os.ReadFile(replayPath)
	if err != nil {
		return "", err
	}
	var doc ReplayDoc
	if err := json.Unmarshal(b, &doc); err != nil {
		return "", err
	}
	if !doc.NativeOK {
		return "UNAVAILABLE " + doc.Why, nil
	}
	tmp, err := os.MkdirTemp("", "verif-replay-")
	if err != nil {
		return "", err
	}
	defer os.RemoveAll(tmp)
	rtTmpl, err := os.ReadFile(filepath.Join(vdir, "harness", "rt.go.tmpl"))
	if err != nil {
		return "", err
	}
	abs := filepath.Join(repo, doc.PkgDir)
	rt := filepath.Join(tmp, "rt.go")
	os.WriteFile(rt, []byte(strings.ReplaceAll(string(rtTmpl), "package PKG", "package "+doc.PkgName)), 0o644)
	test := filepath.Join(tmp, "replay_test.go")
	os.WriteFile(test, []byte(fmt.Sprintf(`//go:build verif

package %s

import (
	"fmt"
	"testing"
)

func TestVerifReplay(t *testing.T) {
	fmt.Println("VERIF-REPLAY-OUTCOME:", vReplayRun(%s))
}
`, doc.PkgName, doc.Harness)), 0o644)
	replace := map[string]string{
		filepath.Join(abs, "zz_verif_rt.go"):          rt,
		filepath.Join(abs, "zz_verif_replay_test.go"): test,
	}
	for _, f := range doc.Files {
		replace[filepath.Join(abs, "zz_verif_"+filepath.Base(f))] = f
	}
	ov, _ := json.Marshal(map[string]interface{}{"Replace": replace})
	ovPath := filepath.Join(tmp, "overlay.json")
	os.WriteFile(ovPath, ov, 0o644)
	absReplay, _ := filepath.Abs(replayPath)
	cmd := exec.Command("go", "test", "-tags", "verif", "-vet=off", "-count=1", "-v", "-run", "^TestVerifReplay$", "-overlay", ovPath, "./"+doc.PkgDir)
	cmd.Dir = repo
	cmd.Env = append(os.Environ(), "GOFLAGS=-mod=mod", "GOPROXY=off", "VERIF_REPLAY="+absReplay)
	var buf bytes.Buffer
	cmd.Stdout = &buf
	cmd.Stderr = &buf
	done := make(chan error, 1)
	if err := cmd.Start(); err != nil {
		return "", err
	}
	go func() { done <- cmd.Wait() }()
	select {
	case <-done:
	case <-time.After(5 * time.Minute):
		cmd.Process.Kill()
		return "UNAVAILABLE native replay timed out", nil
	}
	sc := bufio.NewScanner(&buf)
	sc.Buffer(make([]byte, 1<<20), 1<<20)
	var tail []string
	for sc.Scan() {
		line := sc.Text()
		if i := strings.Index(line, "VERIF-REPLAY-OUTCOME: "); i >= 0 {
			return strings.TrimSpace(line[i+len("VERIF-REPLAY-OUTCOME: "):]), nil
		}
		tail = append(tail, line)
		if len(tail) > 8 {
			tail = tail[1:]
		}
	}
	return "UNAVAILABLE native replay produced no outcome: " + strings.Join(tail, " | "), nil
}

// ---- known findings ----

type KnownFindings struct {
	entries []knownEntry
}

type knownEntry struct {
	prop, harness, assertion, text string
}

// LoadKnownFindings reads lines of the form
//
//	known: property=C07 harness=VerifC07_X assertion=some-id <what fails>
//	fixed: property=C07 <commit> <what failed>
//
// Only known: lines suppress a violation, and only the exact
// (property, harness, assertion) they name.
func LoadKnownFindings(path string) *KnownFindings {
	k := &KnownFindings{}
	b, err := os.ReadFile(path)
	if err != nil {
		return k
	}
	for _, line := range strings.Split(string(b), "\n") {
		line = strings.TrimSpace(line)
		if !strings.HasPrefix(line, "known:") {
			continue
		}
		e := knownEntry{text: strings.TrimSpace(strings.TrimPrefix(line, "known:"))}
		for _, f := range strings.Fields(e.text) {
			switch {
			case strings.HasPrefix(f, "property="):
				e.prop = strings.TrimPrefix(f, "property=")
			case strings.HasPrefix(f, "harness="):
				e.harness = strings.TrimPrefix(f, "harness=")
			case strings.HasPrefix(f, "assertion="):
				e.assertion = strings.TrimPrefix(f, "assertion=")
			}
		}
		if e.prop != "" && e.harness != "" && e.assertion != "" {
			k.entries = append(k.entries, e)
		}
	}
	return k
}

func (k *KnownFindings) Match(prop, harness, assertion string) string {
	for _, e := range k.entries {
		if e.prop == prop && e.harness == harness && e.assertion == assertion {
			return e.text
		}
	}
	return ""
}
