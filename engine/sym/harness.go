package sym

import (
	"fmt"
	"go/ast"
	"go/parser"
	"go/token"
	"os"
	"path/filepath"
	"sort"
	"strconv"
	"strings"
	"sync"

	"golang.org/x/tools/go/packages"
	"golang.org/x/tools/go/ssa"
	"golang.org/x/tools/go/ssa/ssautil"
)

const modPrefix = "github.com/semihalev/sdns/"

// Harness is the static configuration of one entry function.
type Harness struct {
	Prop    string
	Entry   string
	File    string
	PkgDir  string // relative to repo root
	PkgName string
	Tiers   map[string]bool
	Profile string
	Bound   string // human-readable bound, from //verif:bound

	Stubs     map[string]string // normalised target name -> harness function name
	stubFns   map[string]*ssa.Function
	Noop      []string
	NoInit    map[string]bool
	ForceInit map[string]bool
	Unwind    map[string]int

	PermuteMaps    bool
	NoMerge        bool
	ExactAppendCap bool
	AllowPanic     bool
	MaxSteps       int64
	MaxPaths       int
	MaxForkDepth   int
	EnvStepName    string
	EnvStep        *ssa.Function
	ExpectIDs      []string
	Outside        []string
	Also           map[string]bool
	Real           map[string]bool // functions executed from their real body although an intrinsic exists

	EntryFn *ssa.Function

	mu          sync.Mutex
	assumptions map[string]bool
	stubUsed    map[string]bool
}

func (h *Harness) noteAssumption(s string) {
	h.mu.Lock()
	h.assumptions[s] = true
	h.mu.Unlock()
}

func (h *Harness) Assumptions() []string {
	h.mu.Lock()
	defer h.mu.Unlock()
	var out []string
	for s := range h.assumptions {
		out = append(out, s)
	}
	sort.Strings(out)
	return out
}

func normName(s string) string { return strings.ReplaceAll(s, modPrefix, "") }

func (h *Harness) stubFor(fn *ssa.Function, name string) (*ssa.Function, bool) {
	if len(h.stubFns) == 0 {
		return nil, false
	}
	s, ok := h.stubFns[normName(name)]
	if !ok {
		return nil, false
	}
	if ex := fn; ex == s {
		return nil, false
	}
	return s, true
}

// parseDirectives reads //verif: lines from a comment group.
func parseDirectives(cg *ast.CommentGroup) []string {
	if cg == nil {
		return nil
	}
	var out []string
	for _, c := range cg.List {
		t := strings.TrimSpace(strings.TrimPrefix(c.Text, "//"))
		if strings.HasPrefix(t, "verif:") {
			out = append(out, strings.TrimPrefix(t, "verif:"))
		}
	}
	return out
}

func (h *Harness) apply(d string) error {
	key, rest, _ := strings.Cut(d, " ")
	rest = strings.TrimSpace(rest)
	switch key {
	case "entry":
		for _, kv := range strings.Fields(rest) {
			k, v, _ := strings.Cut(kv, "=")
			switch k {
			case "tier":
				h.Tiers = map[string]bool{}
				for _, t := range strings.Split(v, ",") {
					h.Tiers[t] = true
				}
			case "profile":
				h.Profile = v
			case "paths":
				f, err := strconv.ParseFloat(v, 64)
				if err != nil {
					return err
				}
				h.MaxPaths = int(f)
			case "steps":
				f, err := strconv.ParseFloat(v, 64)
				if err != nil {
					return err
				}
				h.MaxSteps = int64(f)
			case "forkdepth":
				n, err := strconv.Atoi(v)
				if err != nil {
					return err
				}
				h.MaxForkDepth = n
			default:
				return fmt.Errorf("unknown entry option %q", k)
			}
		}
	case "pkg":
		h.PkgDir = rest
	case "prop":
		h.Prop = rest
	case "profile":
		h.Profile = rest
	case "stub", "sink":
		l, r, ok := strings.Cut(rest, "=")
		if !ok {
			return fmt.Errorf("bad stub directive %q", d)
		}
		h.Stubs[normName(strings.TrimSpace(l))] = strings.TrimSpace(r)
	case "noop":
		h.Noop = append(h.Noop, strings.Fields(rest)...)
	case "noinit":
		for _, p := range strings.Fields(rest) {
			h.NoInit[p] = true
		}
	case "init":
		for _, p := range strings.Fields(rest) {
			h.ForceInit[p] = true
		}
	case "unwind":
		for _, kv := range strings.Fields(rest) {
			k, v, _ := strings.Cut(kv, "=")
			n, err := strconv.Atoi(v)
			if err != nil {
				return err
			}
			h.Unwind[k] = n
		}
	case "maps":
		h.PermuteMaps = rest == "permute"
	case "nomerge":
		h.NoMerge = true
	case "exactcap":
		h.ExactAppendCap = true
	case "allowpanic":
		h.AllowPanic = true
	case "envstep":
		h.EnvStepName = rest
	case "expect":
		h.ExpectIDs = append(h.ExpectIDs, strings.Fields(rest)...)
	case "real":
		for _, p := range strings.Fields(rest) {
			h.Real[p] = true
		}
	case "also":
		for _, p := range strings.Fields(rest) {
			h.Also[p] = true
		}
	case "bound":
		h.Bound = rest
	case "outside":
		h.Outside = append(h.Outside, rest)
	default:
		return fmt.Errorf("unknown directive %q", key)
	}
	return nil
}

// LoadHarnessFiles parses the harness sources of one property.
func LoadHarnessFiles(dir, prop string) ([]*Harness, map[string][]string, error) {
	files, err := filepath.Glob(filepath.Join(dir, "C*", "*.go"))
	if err != nil {
		return nil, nil, err
	}
	sort.Strings(files)
	var hs []*Harness
	pkgFiles := map[string][]string{} // pkgdir -> harness files
	fset := token.NewFileSet()
	for _, f := range files {
		af, err := parser.ParseFile(fset, f, nil, parser.ParseComments)
		if err != nil {
			return nil, nil, err
		}
		// file-level directives: every comment group before the package clause
		var fileDirs []string
		entryDocs := map[*ast.CommentGroup]bool{}
		for _, decl := range af.Decls {
			if fd, ok := decl.(*ast.FuncDecl); ok && fd.Doc != nil {
				for _, d := range parseDirectives(fd.Doc) {
					if strings.HasPrefix(d, "entry") {
						entryDocs[fd.Doc] = true
					}
				}
			}
		}
		// every directive outside an entry's doc comment applies to the whole file
		for _, cg := range af.Comments {
			if !entryDocs[cg] {
				fileDirs = append(fileDirs, parseDirectives(cg)...)
			}
		}
		own := filepath.Base(filepath.Dir(f)) == prop
		if !own {
			src, rerr := os.ReadFile(f)
			if rerr != nil || !strings.Contains(string(src), "//verif:also") {
				continue
			}
		}
		proto := newHarness()
		proto.Prop = prop
		proto.File = f
		proto.PkgName = af.Name.Name
		for _, d := range fileDirs {
			if err := proto.apply(d); err != nil {
				return nil, nil, fmt.Errorf("%s: %v", f, err)
			}
		}
		if proto.PkgDir == "" {
			return nil, nil, fmt.Errorf("%s: missing //verif:pkg", f)
		}
		nSel := 0
		for _, decl := range af.Decls {
			fd, ok := decl.(*ast.FuncDecl)
			if !ok || fd.Recv != nil {
				continue
			}
			ds := parseDirectives(fd.Doc)
			isEntry := false
			for _, d := range ds {
				if strings.HasPrefix(d, "entry") {
					isEntry = true
				}
			}
			if !isEntry {
				continue
			}
			h := proto.clone()
			h.Entry = fd.Name.Name
			for _, d := range ds {
				if err := h.apply(d); err != nil {
					return nil, nil, fmt.Errorf("%s: %s: %v", f, h.Entry, err)
				}
			}
			// assertion ids lexically in the entry must all be reached
			ast.Inspect(fd.Body, func(n ast.Node) bool {
				call, ok := n.(*ast.CallExpr)
				if !ok {
					return true
				}
				id, ok := call.Fun.(*ast.Ident)
				if !ok || (id.Name != "vAssert" && id.Name != "vReach") || len(call.Args) == 0 {
					return true
				}
				if lit, ok := call.Args[0].(*ast.BasicLit); ok && lit.Kind == token.STRING {
					s, _ := strconv.Unquote(lit.Value)
					h.ExpectIDs = append(h.ExpectIDs, s)
				}
				return true
			})
			if !own && !h.Also[prop] {
				continue
			}
			nSel++
			hs = append(hs, h)
		}
		if nSel > 0 {
			pkgFiles[proto.PkgDir] = append(pkgFiles[proto.PkgDir], f)
		}
	}
	return hs, pkgFiles, nil
}

func newHarness() *Harness {
	return &Harness{Tiers: map[string]bool{"quick": true, "thorough": true}, Profile: "bv",
		Also: map[string]bool{}, Real: map[string]bool{}, Stubs: map[string]string{}, NoInit: map[string]bool{}, ForceInit: map[string]bool{}, Unwind: map[string]int{},
		MaxSteps: 50_000_000, MaxPaths: 200000, MaxForkDepth: 4000,
		assumptions: map[string]bool{}, stubUsed: map[string]bool{}}
}

func (h *Harness) clone() *Harness {
	c := newHarness()
	c.Prop, c.File, c.PkgDir, c.PkgName, c.Profile, c.Bound = h.Prop, h.File, h.PkgDir, h.PkgName, h.Profile, h.Bound
	for k, v := range h.Tiers {
		c.Tiers[k] = v
	}
	for k, v := range h.Stubs {
		c.Stubs[k] = v
	}
	c.Noop = append(c.Noop, h.Noop...)
	for k, v := range h.NoInit {
		c.NoInit[k] = v
	}
	for k, v := range h.ForceInit {
		c.ForceInit[k] = v
	}
	for k, v := range h.Unwind {
		c.Unwind[k] = v
	}
	c.PermuteMaps, c.NoMerge, c.ExactAppendCap, c.AllowPanic = h.PermuteMaps, h.NoMerge, h.ExactAppendCap, h.AllowPanic
	c.MaxSteps, c.MaxPaths, c.MaxForkDepth, c.EnvStepName = h.MaxSteps, h.MaxPaths, h.MaxForkDepth, h.EnvStepName
	for k, v := range h.Real {
		c.Real[k] = v
	}
	c.ExpectIDs = append(c.ExpectIDs, h.ExpectIDs...)
	c.Outside = append(c.Outside, h.Outside...)
	return c
}

// Program is the loaded SSA of the repo plus overlay harnesses.
type Program struct {
	Prog     *ssa.Program
	Pkgs     map[string]*ssa.Package // by pkg dir
	LoadSecs float64
	Overlay  map[string]string // virtual path -> real file (for native replay)
}

// LoadProgram loads the packages under repo that the harnesses live in,
// with the harness files and the rt file overlaid into each.
func LoadProgram(repo, verifDir string, pkgFiles map[string][]string, pkgNames map[string]string) (*Program, error) {
	rtTmpl, err := os.ReadFile(filepath.Join(verifDir, "harness", "rt.go.tmpl"))
	if err != nil {
		return nil, err
	}
	overlay := map[string][]byte{}
	ovFiles := map[string]string{}
	var patterns []string
	var dirs []string
	for d := range pkgFiles {
		dirs = append(dirs, d)
	}
	sort.Strings(dirs)
	for _, d := range dirs {
		patterns = append(patterns, "./"+d)
		abs := filepath.Join(repo, d)
		rt := strings.ReplaceAll(string(rtTmpl), "package PKG", "package "+pkgNames[d])
		overlay[filepath.Join(abs, "zz_verif_rt.go")] = []byte(rt)
		for _, f := range pkgFiles[d] {
			src, err := os.ReadFile(f)
			if err != nil {
				return nil, err
			}
			v := filepath.Join(abs, "zz_verif_"+filepath.Base(f))
			overlay[v] = src
			ovFiles[v] = f
		}
	}
	cfg := &packages.Config{
		Mode:       packages.LoadAllSyntax,
		Dir:        repo,
		BuildFlags: []string{"-tags=verif"},
		Overlay:    overlay,
		Env:        append(os.Environ(), "GOFLAGS=-mod=mod", "GOPROXY=off"),
	}
	pkgs, err := packages.Load(cfg, patterns...)
	if err != nil {
		return nil, err
	}
	var errs []string
	packages.Visit(pkgs, nil, func(p *packages.Package) {
		for _, e := range p.Errors {
			errs = append(errs, e.Error())
		}
	})
	if len(errs) > 0 {
		if len(errs) > 10 {
			errs = errs[:10]
		}
		return nil, fmt.Errorf("harness-does-not-build: %s", strings.Join(errs, "; "))
	}
	prog, spkgs := ssautil.AllPackages(pkgs, ssa.InstantiateGenerics)
	prog.Build()
	p := &Program{Prog: prog, Pkgs: map[string]*ssa.Package{}, Overlay: ovFiles}
	for i, sp := range spkgs {
		if sp == nil {
			return nil, fmt.Errorf("no SSA package for %s", pkgs[i].PkgPath)
		}
		rel := strings.TrimPrefix(pkgs[i].PkgPath, strings.TrimSuffix(modPrefix, "/"))
		rel = strings.TrimPrefix(rel, "/")
		p.Pkgs[rel] = sp
	}
	return p, nil
}

// Resolve binds a harness to the loaded program.
func (h *Harness) Resolve(p *Program) error {
	sp := p.Pkgs[h.PkgDir]
	if sp == nil {
		return fmt.Errorf("package %s not loaded", h.PkgDir)
	}
	h.EntryFn = sp.Func(h.Entry)
	if h.EntryFn == nil {
		return fmt.Errorf("entry %s not found in %s", h.Entry, h.PkgDir)
	}
	h.stubFns = map[string]*ssa.Function{}
	for target, stubName := range h.Stubs {
		sf := sp.Func(stubName)
		if sf == nil {
			return fmt.Errorf("stub function %s not found in %s", stubName, h.PkgDir)
		}
		h.stubFns[target] = sf
	}
	if h.EnvStepName != "" {
		h.EnvStep = sp.Func(h.EnvStepName)
		if h.EnvStep == nil {
			return fmt.Errorf("envstep function %s not found", h.EnvStepName)
		}
	}
	return nil
}

// CheckStubTargets verifies that every stub target names a real function
// (a renamed callee must not silently disable a stub).
func CheckStubTargets(p *Program, hs []*Harness) error {
	want := map[string]bool{}
	for _, h := range hs {
		for t := range h.Stubs {
			want[t] = true
		}
	}
	if len(want) == 0 {
		return nil
	}
	for fn := range ssautil.AllFunctions(p.Prog) {
		delete(want, normName(fn.String()))
	}
	if len(want) > 0 {
		var miss []string
		for t := range want {
			miss = append(miss, t)
		}
		sort.Strings(miss)
		return fmt.Errorf("stub targets not found in program: %s", strings.Join(miss, ", "))
	}
	return nil
}
