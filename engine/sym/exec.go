package sym

import (
	"fmt"
	"go/constant"
	"go/token"
	"go/types"
	"math"
	"strings"
	"sync"
	"time"

	"golang.org/x/tools/go/ssa"
)

type undoRec struct {
	o   *Object
	old Value
}

type decision struct {
	chosen int
	alts   []int
	vals   []uint64 // concretizeAny: value per alternative
	val    uint64   // value for a fixed (prefix) decision
	fixed  bool
}

func (d *decision) value() uint64 {
	if d.fixed || d.vals == nil {
		return d.val
	}
	return d.vals[d.chosen]
}

// goPanic is a Go-level panic travelling up the interpreted stack.
type goPanic struct {
	val     Value // Iface
	runtime bool
	msg     string
	where   string
}

type deferred struct {
	fn   Value
	args []Value
	// for invoke-mode defers
	method *types.Func
	recv   Value
}

type frame struct {
	fn       *ssa.Function
	info     *fnInfo
	env      []Value
	defers   []*deferred
	panicV   *goPanic
	deferOf  *frame // set when this frame runs as a deferred call of deferOf
	visits   map[*ssa.BasicBlock]int
	caller   *frame
	callSite ssa.Instruction
}

type fnInfo struct {
	slots     map[ssa.Value]int
	n         int
	ipdom     []int
	slotBlock []int // defining block index per slot (-1: parameter / free variable)
}

// Violation is a failed assertion or reachable panic with its model.
type Violation struct {
	Harness   string
	ID        string
	Kind      string // "assert" | "panic" | "fail"
	Msg       string
	Model     Model
	Trail     []int
	PathSig   string
	Vars      []string // nondet variables in creation order
	RealClock bool     // the code under test read the wall clock on this path
}

// Stats are aggregated per harness entry.
type Stats struct {
	Paths        int
	Obligations  int // vAssert evaluations
	Discharged   int // proven by the solver (unsat)
	Trivial      int // folded syntactically
	Steps        int64
	Reached      map[string]int
	Forks        int
	MergedBranch int
	ModelHits    int
	CacheHits    int
	Funcs        map[string]int // function -> instruction count executed at least once
	Stubs        map[string]int
	Intrinsics   map[string]int
	Assumes      int
	Samples      []map[string]interface{}
	Unknowns     []string
	AbortedPaths int
	AbortReasons map[string]int
}

func newStats() *Stats {
	return &Stats{Reached: map[string]int{}, Funcs: map[string]int{}, Stubs: map[string]int{}, Intrinsics: map[string]int{}, AbortReasons: map[string]int{}}
}

// Exec is one worker's interpreter state.
type Exec struct {
	C    *Ctx
	S    *Solver
	Prog *ssa.Program
	H    *Harness // static harness configuration
	St   *Stats

	pc             []*Term
	trail          []decision
	pos            int
	minLen         int // trail prefix that must not be backtracked
	donate         func(prefix []pick) bool
	undo           []undoRec
	objSeq         int
	globals        map[*ssa.Global]*Object
	inited         map[*ssa.Package]bool
	initing        map[*ssa.Package]bool
	initSkipped    map[*ssa.Package]bool
	initAssigned   map[*ssa.Package]map[*ssa.Global]bool
	lazyIniting    map[*ssa.Global]bool
	persistMode    bool
	fnInfos        map[*ssa.Function]*fnInfo
	depth          int
	steps          int64
	nondetN        map[string]int
	vars           []*Term
	ghost          map[string]Value
	lastModel      Model
	violations     []Violation
	violKeys       map[string]bool
	sampled        map[string]bool
	curFrame       *frame
	clock          *Term // last value returned by time.Now (non-decreasing)
	locksHeld      int
	maxLocks       int
	typeIDs        map[string]types.Type
	speculating    int
	hashSeq        int
	Tier           int
	uniq           map[string]*Object
	lastRecovered  *goPanic
	inconclusive   []string
	hashLog        [][]*Term
	inEnv          bool
	skipPhis       bool
	pathUnknown    bool
	auxVars        []*Term
	asciiKnown     map[*Term]bool
	clockLog       []*Term
	realClockReads int
	opaqueIPs      int
	rawInit        bool
	deadline       time.Time
	blockTicks     int
	specWatermark  int
	persistSeq     int
	mergeFail      map[mergeKey]int
	pcSet          map[*Term]int
	pcLits         []*Term
	pcHash         []uint64
	unsatCache     map[int][]unsatEntry
}

// FixedModel, when non-nil, makes every nondeterministic value concrete
// (interpreter replay / debugging).
var FixedModel Model

// QuerySites, when non-nil, counts feasibility queries per function and result (debug).
var QuerySites map[string]int
var QuerySitesMu sync.Mutex

// Limits.
const (
	maxDepth      = 200
	maxBlockVisit = 20000
)

func (ex *Exec) fnInfoOf(fn *ssa.Function) *fnInfo {
	if fi, ok := ex.fnInfos[fn]; ok {
		return fi
	}
	fi := &fnInfo{slots: map[ssa.Value]int{}}
	add := func(v ssa.Value, bi int) {
		fi.slots[v] = fi.n
		fi.slotBlock = append(fi.slotBlock, bi)
		fi.n++
	}
	for _, p := range fn.Params {
		add(p, -1)
	}
	for _, fv := range fn.FreeVars {
		add(fv, -1)
	}
	for _, b := range fn.Blocks {
		for _, in := range b.Instrs {
			if v, ok := in.(ssa.Value); ok {
				add(v, b.Index)
			}
		}
	}
	ex.fnInfos[fn] = fi
	return fi
}

// ---- path condition, branching, choice ----

func (ex *Exec) addPC(t *Term) {
	if t.IsConst() {
		if t.Val == 0 {
			panic(pathAbort{"false-pc"})
		}
		return
	}
	ex.pc = append(ex.pc, t)
}

// pcSync brings the literal set and prefix hashes up to date with ex.pc
// (ex.pc is also truncated directly by speculation, so this is lazy).
func (ex *Exec) pcSync() {
	if len(ex.pcHash) > len(ex.pc) {
		for _, l := range ex.pcLits[len(ex.pc):] {
			delete(ex.pcSet, l)
		}
		ex.pcHash = ex.pcHash[:len(ex.pc)]
		ex.pcLits = ex.pcLits[:len(ex.pc)]
	}
	// within a path pc only grows (or is cut back to an earlier length);
	// still, verify the indexed prefix is the current one
	for i, l := range ex.pcLits {
		if ex.pc[i] != l {
			for _, d := range ex.pcLits[i:] {
				delete(ex.pcSet, d)
			}
			ex.pcLits = ex.pcLits[:i]
			ex.pcHash = ex.pcHash[:i]
			break
		}
	}
	for i := len(ex.pcLits); i < len(ex.pc); i++ {
		l := ex.pc[i]
		var h uint64 = 1469598103934665603
		if i > 0 {
			h = ex.pcHash[i-1]
		}
		h = (h ^ uint64(l.ID+1)) * 1099511628211
		ex.pcHash = append(ex.pcHash, h)
		ex.pcLits = append(ex.pcLits, l)
		ex.pcSet[l] = i
	}
}

type unsatEntry struct {
	k int
	h uint64
}

// knownInfeasible: c is refuted by a literal in pc or by an earlier unsat
// answer under a prefix of the current pc.
func (ex *Exec) knownInfeasible(c *Term) bool {
	ex.pcSync()
	if _, ok := ex.pcSet[ex.C.Not(c)]; ok {
		return true
	}
	for _, e := range ex.unsatCache[c.ID] {
		if e.k <= len(ex.pcHash) && (e.k == 0 || ex.pcHash[e.k-1] == e.h) {
			return true
		}
	}
	return false
}

func (ex *Exec) knownImplied(c *Term) bool {
	ex.pcSync()
	_, ok := ex.pcSet[c]
	return ok
}

func (ex *Exec) rememberUnsat(c *Term) {
	ex.pcSync()
	e := unsatEntry{k: len(ex.pcHash)}
	if e.k > 0 {
		e.h = ex.pcHash[e.k-1]
	}
	lst := ex.unsatCache[c.ID]
	if len(lst) < 8 {
		ex.unsatCache[c.ID] = append(lst, e)
	}
}

// feasible asks whether pc ∧ c is satisfiable. Unknown counts as feasible.
func (ex *Exec) feasible(c *Term) bool {
	if c.IsConst() {
		return c.Val != 0
	}
	if ex.knownImplied(c) {
		ex.St.CacheHits++
		return true
	}
	if ex.knownInfeasible(c) {
		ex.St.CacheHits++
		return false
	}
	// model cache: does the last model satisfy pc ∧ c?
	if ex.lastModel != nil {
		memo := map[int]uint64{}
		ok := true
		if v, k := Eval(c, ex.lastModel, memo); !k || v == 0 {
			ok = false
		}
		if ok {
			for _, l := range ex.pc {
				if v, k := Eval(l, ex.lastModel, memo); !k || v == 0 {
					ok = false
					break
				}
			}
		}
		if ok {
			ex.St.ModelHits++
			return true
		}
	}
	lits := append(append([]*Term{}, ex.pc...), c)
	r, m := ex.check(lits, ex.modelVars())
	if QuerySites != nil && ex.curFrame != nil {
		QuerySitesMu.Lock()
		QuerySites[ex.curFrame.fn.String()+" "+r.String()]++
		QuerySitesMu.Unlock()
	}
	switch r {
	case Unsat:
		ex.rememberUnsat(c)
		return false
	case Sat:
		if m != nil {
			ex.lastModel = m
		}
		return true
	default:
		ex.noteUnknown("feasibility")
		return true
	}
}

func (ex *Exec) modelVars() []*Term {
	if len(ex.vars) > 400 {
		return nil
	}
	return ex.allVars()
}

func (ex *Exec) noteUnknown(what string) {
	ex.pathUnknown = true
	msg := what
	if len(ex.S.Errors) > 0 {
		msg += ": " + ex.S.Errors[len(ex.S.Errors)-1]
	}
	if len(ex.St.Unknowns) < 20 {
		ex.St.Unknowns = append(ex.St.Unknowns, msg)
	}
}

// choose picks among alternatives whose conditions are conds (assumed
// exhaustive under pc). It is the only forking primitive.
func (ex *Exec) choose(conds []*Term) int {
	if ex.speculating > 0 {
		panic(specAbort{})
	}
	if ex.pos < len(ex.trail) {
		d := ex.trail[ex.pos]
		ex.pos++
		ex.addPC(conds[d.chosen])
		return d.chosen
	}
	var feas []int
	for i, c := range conds {
		if len(conds) == 2 && i == 1 && len(feas) == 0 {
			// exhaustive pair under a feasible pc: the second must be feasible
			feas = append(feas, 1)
			break
		}
		if ex.feasible(c) {
			feas = append(feas, i)
		}
	}
	if len(feas) == 0 {
		panic(pathAbort{"no-feasible-alternative"})
	}
	d := decision{chosen: feas[0], alts: feas[1:]}
	if len(feas) > 1 {
		ex.St.Forks++
		// offer alternatives to idle workers
		if ex.donate != nil {
			var keep []int
			for _, a := range d.alts {
				prefix := make([]pick, 0, len(ex.trail)+1)
				for k := range ex.trail {
					prefix = append(prefix, pick{I: ex.trail[k].chosen, V: ex.trail[k].value()})
				}
				prefix = append(prefix, pick{I: a})
				if !ex.donate(prefix) {
					keep = append(keep, a)
				}
			}
			d.alts = keep
		}
	}
	ex.trail = append(ex.trail, d)
	ex.pos++
	ex.addPC(conds[d.chosen])
	if ex.H != nil && len(ex.trail) > ex.H.MaxForkDepth {
		panic(engineErr("fork depth %d exceeds bound", len(ex.trail)))
	}
	return d.chosen
}

// chooseFree forks n ways without consulting the solver: the caller
// guarantees every alternative is feasible (a fresh unconstrained choice).
func (ex *Exec) chooseFree(conds []*Term) int {
	if ex.speculating > 0 {
		panic(specAbort{})
	}
	if ex.pos < len(ex.trail) {
		d := ex.trail[ex.pos]
		ex.pos++
		ex.addPC(conds[d.chosen])
		return d.chosen
	}
	d := decision{chosen: 0}
	for i := 1; i < len(conds); i++ {
		d.alts = append(d.alts, i)
	}
	if len(conds) > 1 {
		ex.St.Forks++
		if ex.donate != nil {
			var keep []int
			for _, a := range d.alts {
				prefix := make([]pick, 0, len(ex.trail)+1)
				for k := range ex.trail {
					prefix = append(prefix, pick{I: ex.trail[k].chosen, V: ex.trail[k].value()})
				}
				prefix = append(prefix, pick{I: a})
				if !ex.donate(prefix) {
					keep = append(keep, a)
				}
			}
			d.alts = keep
		}
	}
	ex.trail = append(ex.trail, d)
	ex.pos++
	ex.addPC(conds[0])
	return 0
}

// branch decides a boolean condition, forking if both sides are feasible.
func (ex *Exec) branch(c *Term) bool {
	if c.IsConst() {
		return c.Val != 0
	}
	if ex.speculating > 0 {
		// only the literal set may be consulted here: it is a function of the
		// path, whereas the unsat cache depends on which queries this worker
		// happened to make earlier (re-execution must decide identically)
		ex.pcSync()
		if _, ok := ex.pcSet[c]; ok {
			return true
		}
		if _, ok := ex.pcSet[ex.C.Not(c)]; ok {
			return false
		}
	}
	if ex.choose([]*Term{c, ex.C.Not(c)}) == 0 {
		return true
	}
	return false
}

// concretize forks over the values lo..hi-1 of a 64-bit term.
func (ex *Exec) concretize(t *Term, lo, hi int) int {
	if t.IsConst() {
		return int(t.SVal())
	}
	if hi-lo > 4096 {
		panic(engineErr("concretize: range too large (%d)", hi-lo))
	}
	if hi <= lo {
		panic(pathAbort{"concretize-empty"})
	}
	if hi-lo > 3 {
		// enumerate the values the solver says are possible (one query per
		// feasible value) instead of one query per value in the range
		v := int(int64(ex.concretizeAny(t, "concretize")))
		if t.W < 64 {
			v = int(signExt(uint64(v), t.W))
		}
		if v < lo || v >= hi {
			panic(engineErr("concretize: value %d outside [%d,%d)", v, lo, hi))
		}
		return v
	}
	conds := make([]*Term, hi-lo)
	for i := range conds {
		conds[i] = ex.C.Eq(t, ex.C.Const(t.W, uint64(int64(lo+i))))
	}
	return lo + ex.choose(conds)
}

// concretizeAny forks over whatever values a term can take, found by asking
// the solver repeatedly (bounded fan-out).
func (ex *Exec) concretizeAny(t *Term, what string) uint64 {
	if t.IsConst() {
		return t.Val
	}
	if ex.speculating > 0 {
		panic(specAbort{})
	}
	if ex.pos < len(ex.trail) {
		d := &ex.trail[ex.pos]
		ex.pos++
		v := d.value()
		ex.addPC(ex.C.Eq(t, ex.C.Const(t.W, v)))
		return v
	}
	// enumerate values
	var vals []uint64
	excl := []*Term{}
	pv := ex.varFor(t)
	for len(vals) < 257 {
		lits := append(append([]*Term{}, ex.pc...), excl...)
		r, m := ex.check(lits, []*Term{pv})
		if r == Unsat {
			break
		}
		if r == Unknown {
			panic(engineErr("concretizeAny(%s): solver unknown", what))
		}
		v := m[pv.Name]
		vals = append(vals, v)
		excl = append(excl, ex.C.Not(ex.C.Eq(t, ex.C.Const(t.W, v))))
	}
	if len(vals) > 256 {
		panic(engineErr("concretizeAny(%s): more than 256 feasible values", what))
	}
	if len(vals) == 0 {
		panic(pathAbort{"concretizeAny-empty"})
	}
	alts := make([]int, 0, len(vals)-1)
	for i := 1; i < len(vals); i++ {
		alts = append(alts, i)
	}
	d := decision{chosen: 0, alts: alts, vals: vals}
	if len(vals) > 1 {
		ex.St.Forks++
	}
	ex.trail = append(ex.trail, d)
	ex.pos++
	ex.addPC(ex.C.Eq(t, ex.C.Const(t.W, vals[0])))
	return vals[0]
}

// varFor introduces a fresh variable equal to t so its value can be read from a model.
func (ex *Exec) varFor(t *Term) *Term {
	if t.Op == OpVar {
		return t
	}
	v := ex.C.Var(fmt.Sprintf("probe!%d", t.ID), t.W)
	known := false
	for _, a := range ex.auxVars {
		if a == v {
			known = true
		}
	}
	if !known {
		ex.auxVars = append(ex.auxVars, v)
	}
	ex.addPCNoCheck(ex.C.mk(OpEq, 0, []*Term{v, t}, 0, ""))
	return v
}

func (ex *Exec) addPCNoCheck(t *Term) {
	for _, l := range ex.pc {
		if l == t {
			return
		}
	}
	ex.pc = append(ex.pc, t)
}

// ---- nondet ----

func (ex *Exec) fresh(name string, w int) *Term {
	if ex.speculating > 0 {
		panic(specAbort{})
	}
	k := ex.nondetN[name]
	ex.nondetN[name] = k + 1
	full := name
	if k > 0 {
		full = fmt.Sprintf("%s#%d", name, k)
	}
	if FixedModel != nil {
		return ex.C.Const(w, FixedModel[full])
	}
	v := ex.C.Var(full, w)
	ex.vars = append(ex.vars, v)
	return v
}

// ---- panics ----

func (ex *Exec) rtPanic(msg string) *goPanic {
	return &goPanic{val: Iface{T: ex.runtimeErrorType(), V: ex.mkStr("runtime error: " + msg)}, runtime: true, msg: "runtime error: " + msg}
}

func (ex *Exec) runtimeErrorType() types.Type {
	if t, ok := ex.typeIDs["verif.runtimeError"]; ok {
		return t
	}
	// a named string type with an Error method cannot be synthesised cheaply; use string
	t := types.Typ[types.String]
	ex.typeIDs["verif.runtimeError"] = t
	return t
}

// ---- values from SSA operands ----

func (ex *Exec) get(fr *frame, v ssa.Value) Value {
	switch x := v.(type) {
	case *ssa.Const:
		return ex.constVal(x)
	case *ssa.Function:
		return &Closure{Fn: x}
	case *ssa.Global:
		return Ptr{Obj: ex.globalObj(x)}
	case *ssa.Builtin:
		return &Closure{Builtin: x}
	}
	i, ok := fr.info.slots[v]
	if !ok {
		panic(engineErr("no slot for %s in %s", v.Name(), fr.fn))
	}
	return fr.env[i]
}

func (ex *Exec) constVal(c *ssa.Const) Value {
	t := c.Type()
	if c.Value == nil {
		return ex.zero(t)
	}
	switch u := under(t).(type) {
	case *types.Basic:
		switch {
		case u.Info()&types.IsBoolean != 0:
			return ex.C.Bool(constant.BoolVal(c.Value))
		case u.Info()&types.IsInteger != 0:
			w := widthOf(u)
			if i, ok := constant.Int64Val(constant.ToInt(c.Value)); ok {
				return ex.C.Const(w, uint64(i))
			}
			if ui, ok := constant.Uint64Val(constant.ToInt(c.Value)); ok {
				return ex.C.Const(w, ui)
			}
			panic(engineErr("const out of range: %s", c))
		case u.Info()&types.IsFloat != 0:
			f, _ := constant.Float64Val(c.Value)
			return Float{f}
		case u.Info()&types.IsString != 0:
			return ex.mkStr(constant.StringVal(c.Value))
		case u.Info()&types.IsComplex != 0:
			re, _ := constant.Float64Val(constant.Real(c.Value))
			im, _ := constant.Float64Val(constant.Imag(c.Value))
			return Complex{complex(re, im)}
		}
	}
	panic(engineErr("constVal: unsupported const %s of type %s", c, t))
}

func (ex *Exec) globalObj(g *ssa.Global) *Object {
	if o, ok := ex.globals[g]; ok {
		return o
	}
	save := ex.persistMode
	ex.persistMode = true
	o := ex.newObj(deref(g.Type()), ex.zero(deref(g.Type())), "global "+g.String())
	ex.persistMode = save
	ex.globals[g] = o
	if g.Pkg != nil {
		ex.ensureInit(g.Pkg)
		if ex.initSkipped[g.Pkg] && ex.assignedByInit(g) {
			if _, isErr := o.Val.(Iface); !isErr || o.Val.(Iface).T == nil {
				o.Val = Poison{Name: g.String(), G: g}
			}
		}
	}
	return o
}

// assignedByInit reports whether package initialisation stores to g: the
// synthesized init (package-level initialisers) or any source-level init().
func (ex *Exec) assignedByInit(g *ssa.Global) bool {
	set, ok := ex.initAssigned[g.Pkg]
	if !ok {
		set = map[*ssa.Global]bool{}
		scan := func(fn *ssa.Function) {
			if fn == nil {
				return
			}
			for _, b := range fn.Blocks {
				for _, in := range b.Instrs {
					if st, ok := in.(*ssa.Store); ok {
						if gg, ok := st.Addr.(*ssa.Global); ok {
							set[gg] = true
						}
					}
				}
			}
		}
		scan(g.Pkg.Func("init"))
		for name, m := range g.Pkg.Members {
			if fn, ok := m.(*ssa.Function); ok && strings.HasPrefix(name, "init#") {
				scan(fn)
			}
		}
		ex.initAssigned[g.Pkg] = set
	}
	return set[g]
}

// lazyInitGlobal gives a global of a package whose init is not executed its
// real initial value by running only the slice of the package initializer
// that computes it: the one store to the global, the straight-line
// instructions its value depends on, and the stores into the temporaries those
// allocate. Other globals it reads are initialised the same way, on demand.
// Anything else (control flow in the initialiser, assignment in a source-level
// init(), several stores) leaves the global unmodelled and is an engine error.
func (ex *Exec) lazyInitGlobal(pz Poison, o *Object) {
	g := pz.G
	fail := func(why string) {
		panic(engineErr("read of %s: its package's init is not executed by the engine and its initial value cannot be derived on demand (%s); force the init with //verif:init, assign it in the harness, or stub the reader", pz.Name, why))
	}
	if g == nil {
		fail("no initializer information")
	}
	if ex.lazyIniting[g] {
		fail("initialisation cycle")
	}
	initFn := g.Pkg.Func("init")
	if initFn == nil {
		fail("no package initializer")
	}
	var st *ssa.Store
	count := 0
	for _, b := range initFn.Blocks {
		for _, in := range b.Instrs {
			if s, ok := in.(*ssa.Store); ok && s.Addr == ssa.Value(g) {
				st = s
				count++
			}
		}
	}
	for name, m := range g.Pkg.Members {
		if fn, ok := m.(*ssa.Function); ok && strings.HasPrefix(name, "init#") {
			for _, b := range fn.Blocks {
				for _, in := range b.Instrs {
					if s, ok := in.(*ssa.Store); ok && s.Addr == ssa.Value(g) {
						count += 2
					}
				}
			}
		}
	}
	if count != 1 {
		fail("assigned by a source-level init() or more than once")
	}
	b := st.Block()
	need := map[ssa.Instruction]bool{}
	var visit func(v ssa.Value) bool
	visit = func(v ssa.Value) bool {
		switch v.(type) {
		case *ssa.Const, *ssa.Global, *ssa.Function, *ssa.Builtin:
			return true
		}
		in, ok := v.(ssa.Instruction)
		if !ok || in.Block() != b {
			return false
		}
		if need[in] {
			return true
		}
		switch in.(type) {
		case *ssa.Alloc, *ssa.IndexAddr, *ssa.FieldAddr, *ssa.Slice, *ssa.Convert, *ssa.ChangeType, *ssa.MakeInterface,
			*ssa.UnOp, *ssa.BinOp, *ssa.MakeSlice, *ssa.MakeMap, *ssa.Call, *ssa.MakeClosure, *ssa.Field, *ssa.Index,
			*ssa.Extract, *ssa.ChangeInterface, *ssa.SliceToArrayPointer, *ssa.MakeChan:
		default:
			return false
		}
		need[in] = true
		for _, op := range in.Operands(nil) {
			if *op != nil && !visit(*op) {
				return false
			}
		}
		return true
	}
	if !visit(st.Val) {
		fail("its initialiser has control flow or uses an instruction outside the supported slice")
	}
	root := func(v ssa.Value) ssa.Value {
		for {
			switch x := v.(type) {
			case *ssa.IndexAddr:
				v = x.X
			case *ssa.FieldAddr:
				v = x.X
			case *ssa.Slice:
				v = x.X
			default:
				return v
			}
		}
	}
	for changed := true; changed; {
		changed = false
		for _, in := range b.Instrs {
			if in == ssa.Instruction(st) {
				break
			}
			if need[in] {
				continue
			}
			switch x := in.(type) {
			case *ssa.Store:
				if ri, ok := root(x.Addr).(ssa.Instruction); ok && need[ri] {
					if !visit(x.Addr) || !visit(x.Val) {
						fail("a store feeding its initialiser is outside the supported slice")
					}
					need[in] = true
					changed = true
				}
			case *ssa.MapUpdate:
				if ri, ok := x.Map.(ssa.Instruction); ok && need[ri] {
					if !visit(x.Key) || !visit(x.Value) {
						fail("a map update feeding its initialiser is outside the supported slice")
					}
					need[in] = true
					changed = true
				}
			}
		}
	}
	ex.lazyIniting[g] = true
	save, saveSpec, savePC, saveFrame := ex.persistMode, ex.speculating, ex.pc, ex.curFrame
	ex.persistMode = true
	ex.speculating = 0
	defer func() {
		ex.persistMode, ex.speculating, ex.pc, ex.curFrame = save, saveSpec, savePC, saveFrame
		delete(ex.lazyIniting, g)
	}()
	fi := ex.fnInfoOf(initFn)
	fr := &frame{fn: initFn, info: fi, env: make([]Value, fi.n)}
	o.Val = ex.zero(deref(g.Type()))
	for _, in := range b.Instrs {
		if need[in] || in == ssa.Instruction(st) {
			if pan := ex.step(fr, in); pan != nil {
				fail("its initialiser panicked: " + pan.msg)
			}
		}
		if in == ssa.Instruction(st) {
			break
		}
	}
	ex.St.Intrinsics["lazy-init:"+pz.Name]++
}

func deref(t types.Type) types.Type {
	if p, ok := under(t).(*types.Pointer); ok {
		return p.Elem()
	}
	return t
}

// initSkip lists packages whose init is never executed (their globals read
// as zero values; functions that need them are intrinsics).
var initSkipExact = map[string]bool{}
var initSkipPrefix = []string{
	"runtime/", "os/", "internal/", "sync/", "crypto/", "hash/", "net/http", "golang.org/x/",
	"github.com/prometheus/", "github.com/semihalev/zlog", "github.com/quic-go", "k8s.io/", "sigs.k8s.io/", "math/rand",
	"encoding/json", "encoding/gob", "encoding/asn1", "encoding/pem", "text/", "html/", "path/", "log/", "github.com/BurntSushi", "github.com/spf13",
	"github.com/fsnotify", "vendor/", "compress/", "io/", "testing/", "github.com/semihalev/sdns/internal/metric",
	"google.golang.org/", "gopkg.in/", "go.yaml.in/", "github.com/google/", "github.com/go-openapi/", "mime/", "go/", "debug/", "database/", "archive/", "image/", "embed",
}

func init() {
	for _, p := range []string{"runtime", "os", "syscall", "errors", "iter", "weak", "unique", "sync", "reflect", "testing",
		"log", "time", "fmt", "io", "context", "flag", "regexp", "mime", "expvar", "net", "bufio", "path", "maps", "slices", "cmp", "unsafe"} {
		initSkipExact[p] = true
	}
}

func skipInit(path string) bool {
	if initSkipExact[path] {
		return true
	}
	for _, p := range initSkipPrefix {
		if strings.HasPrefix(path, p) {
			return true
		}
	}
	return false
}

// errorsInitOK: a few skipped packages still need their sentinel errors;
// those are plain errors.New calls, handled by allowErrorsNewOnly.

func (ex *Exec) ensureInit(p *ssa.Package) {
	if ex.inited[p] || ex.initing[p] {
		return
	}
	path := p.Pkg.Path()
	if ex.H != nil && ex.H.NoInit[path] {
		ex.inited[p] = true
		ex.initSkipped[p] = true
		return
	}
	force := ex.H != nil && ex.H.ForceInit[path]
	if skipInit(path) && !force {
		ex.inited[p] = true
		ex.initSkipped[p] = true
		ex.sentinelInit(p)
		return
	}
	initFn := p.Func("init")
	if initFn == nil || initFn.Blocks == nil {
		ex.inited[p] = true
		return
	}
	ex.initing[p] = true
	save := ex.persistMode
	saveSpec := ex.speculating
	savePC := ex.pc
	ex.persistMode = true
	ex.speculating = 0
	func() {
		defer func() {
			ex.persistMode = save
			ex.speculating = saveSpec
			ex.pc = savePC
			delete(ex.initing, p)
			ex.inited[p] = true
		}()
		// mark guard so the body runs
		ex.rawInit = true
		_, pan := ex.callFunction(initFn, nil, nil, nil)
		if pan != nil {
			panic(engineErr("init of %s panicked: %s at %s", path, pan.msg, pan.where))
		}
	}()
}

// sentinelInit gives package-level error sentinels of skipped packages
// (io.EOF, os.ErrNotExist, context.Canceled, ...) distinct non-nil values so
// that comparisons against them behave.
func (ex *Exec) sentinelInit(p *ssa.Package) {
	save := ex.persistMode
	ex.persistMode = true
	defer func() { ex.persistMode = save }()
	errT := types.Universe.Lookup("error").Type()
	for name, m := range p.Members {
		g, ok := m.(*ssa.Global)
		if !ok {
			continue
		}
		et := deref(g.Type())
		if !types.Identical(et, errT) {
			continue
		}
		o, ok := ex.globals[g]
		if !ok {
			o = ex.newObj(et, ex.zero(et), "global "+g.String())
			ex.globals[g] = o
		}
		o.Val = ex.opaqueError(p.Pkg.Path() + "." + name)
	}
}

// opaqueError builds a distinct non-nil error value of a private struct type.
func (ex *Exec) opaqueError(msg string) Value {
	t := ex.opaqueErrType()
	o := ex.newObj(deref(t), &Struct{[]Value{ex.mkStr(msg)}}, "error "+msg)
	return Iface{T: t, V: Ptr{Obj: o}}
}

func (ex *Exec) opaqueErrType() types.Type {
	if t, ok := ex.typeIDs["verif.opaqueErr"]; ok {
		return t
	}
	// use *errors.errorString when the errors package is loaded
	for _, p := range ex.Prog.AllPackages() {
		if p.Pkg.Path() == "errors" {
			if tn := p.Type("errorString"); tn != nil {
				t := types.NewPointer(tn.Type())
				ex.typeIDs["verif.opaqueErr"] = t
				return t
			}
		}
	}
	panic(engineErr("errors package not loaded"))
}

// ---- calls ----

func (ex *Exec) callValue(fr *frame, fv Value, args []Value, site ssa.Instruction) (Value, *goPanic) {
	cl, ok := fv.(*Closure)
	if !ok || cl == nil {
		return nil, ex.rtPanic("invalid memory address or nil pointer dereference (nil func call)")
	}
	if cl.Native != nil {
		return cl.Native(ex, args), nil
	}
	if cl.Builtin != nil {
		return ex.callBuiltin(fr, cl.Builtin, args, site)
	}
	return ex.callFunction(cl.Fn, args, cl.Bind, fr)
}

func (ex *Exec) callFunction(fn *ssa.Function, args []Value, bind []Value, caller *frame) (ret Value, pan *goPanic) {
	name := fn.String()
	if fn.Synthetic == "package initializer" {
		if !ex.rawInit {
			ex.ensureInit(fn.Pkg)
			return nil, nil
		}
		ex.rawInit = false
	}
	if ex.H != nil {
		if stub, ok := ex.H.stubFor(fn, name); ok {
			ex.St.Stubs[name]++
			return ex.callFunction(stub, args, nil, caller)
		}
	}
	if h, ok := lookupIntrinsic(ex, fn, name); ok {
		ex.St.Intrinsics[name]++
		return h(ex, caller, fn, args)
	}
	if fn.Blocks == nil {
		panic(engineErr("call to external function without intrinsic: %s", name))
	}
	if ex.depth > maxDepth {
		panic(engineErr("call depth exceeds %d at %s", maxDepth, name))
	}
	ex.depth++
	defer func() { ex.depth-- }()

	fi := ex.fnInfoOf(fn)
	fr := &frame{fn: fn, info: fi, env: make([]Value, fi.n), caller: caller}
	if len(args) != len(fn.Params) {
		panic(engineErr("arity mismatch calling %s: %d args for %d params", name, len(args), len(fn.Params)))
	}
	for i, p := range fn.Params {
		fr.env[fi.slots[p]] = args[i]
	}
	for i, fv := range fn.FreeVars {
		fr.env[fi.slots[fv]] = bind[i]
	}
	if _, seen := ex.St.Funcs[name]; !seen {
		n := 0
		for _, b := range fn.Blocks {
			n += len(b.Instrs)
		}
		ex.St.Funcs[name] = n
	}
	return ex.run(fr)
}

// run executes a frame to completion.
func (ex *Exec) run(fr *frame) (Value, *goPanic) {
	saveFrame := ex.curFrame
	ex.curFrame = fr
	v, p := ex.run2(fr)
	ex.curFrame = saveFrame // not deferred: on an engine panic the innermost frame stays visible
	return v, p
}

func (ex *Exec) run2(fr *frame) (Value, *goPanic) {
	block := fr.fn.Blocks[0]
	var prev *ssa.BasicBlock
	for {
		if fr.visits == nil {
			fr.visits = map[*ssa.BasicBlock]int{}
		}
		fr.visits[block]++
		ex.blockTicks++
		if ex.blockTicks&0xff == 0 && !ex.deadline.IsZero() && time.Now().After(ex.deadline) {
			panic(engineErr("budget: wall-clock deadline reached inside a path (in %s)", fr.fn))
		}
		if n := fr.visits[block]; n > ex.blockLimit(fr.fn) {
			panic(engineErr("unwinding bound exceeded in %s block %d (%d visits)", fr.fn, block.Index, n))
		}
		var next *ssa.BasicBlock
		var pan *goPanic
		var done bool
		var ret Value
		merged := false
		var lastInstr ssa.Instruction
		// phis first (parallel assignment)
		i := 0
		if ex.skipPhis {
			ex.skipPhis = false
			for i < len(block.Instrs) {
				if _, ok := block.Instrs[i].(*ssa.Phi); !ok {
					break
				}
				i++
			}
		}
		if prev != nil {
			predIdx := -1
			for k, p := range block.Preds {
				if p == prev {
					predIdx = k
					break
				}
			}
			var phiVals []Value
			for ; i < len(block.Instrs); i++ {
				phi, ok := block.Instrs[i].(*ssa.Phi)
				if !ok {
					break
				}
				phiVals = append(phiVals, ex.get(fr, phi.Edges[predIdx]))
			}
			for k, v := range phiVals {
				fr.env[fr.info.slots[block.Instrs[k].(*ssa.Phi)]] = v
			}
		}
		for ; i < len(block.Instrs); i++ {
			in := block.Instrs[i]
			lastInstr = in
			ex.steps++
			if ex.steps > ex.H.MaxSteps {
				panic(engineErr("step budget exceeded (%d) in %s", ex.H.MaxSteps, fr.fn))
			}
			switch x := in.(type) {
			case *ssa.If:
				c := ex.get(fr, x.Cond).(*Term)
				if !c.IsConst() {
					if out, ok := ex.tryMerge(fr, block, c); ok {
						if out.returned {
							ret = out.ret
							done = true
						} else {
							next = out.join
							merged = true
						}
						break
					}
				}
				if ex.branch(c) {
					next = block.Succs[0]
				} else {
					next = block.Succs[1]
				}
			case *ssa.Jump:
				next = block.Succs[0]
			case *ssa.Return:
				switch len(x.Results) {
				case 0:
					ret = nil
				case 1:
					ret = ex.get(fr, x.Results[0])
				default:
					tv := make(Tuple, len(x.Results))
					for k, r := range x.Results {
						tv[k] = ex.get(fr, r)
					}
					ret = tv
				}
				done = true
			case *ssa.Panic:
				v := ex.get(fr, x.X)
				pan = &goPanic{val: v, msg: ex.panicMsg(v), where: ex.pos2(x.Pos())}
			case *ssa.RunDefers:
				pan = ex.runDefers(fr)
			default:
				pan = ex.step(fr, in)
			}
			if pan != nil {
				break
			}
			if done || next != nil || merged {
				break
			}
		}
		if pan != nil {
			if pan.where == "" {
				pan.where = fr.fn.String()
				if lastInstr != nil && lastInstr.Pos().IsValid() {
					pan.where += " (" + ex.pos2(lastInstr.Pos()) + ")"
				} else if lastInstr != nil {
					pan.where += " (" + lastInstr.String() + ")"
				}
			}
			// unwinding: run deferred calls; a recover() clears the panic
			fr.panicV = pan
			if p2 := ex.runDefers(fr); p2 != nil {
				fr.panicV = p2
			}
			if fr.panicV != nil {
				return nil, fr.panicV
			}
			// recovered
			if fr.fn.Recover != nil {
				prev = nil
				block = fr.fn.Recover
				continue
			}
			return ex.zeroResults(fr.fn), nil
		}
		if done {
			return ret, nil
		}
		if merged {
			prev = nil // phis of the join were already assigned by tryMerge
			ex.skipPhis = true
		} else {
			prev = block
		}
		block = next
	}
}

func (ex *Exec) blockLimit(fn *ssa.Function) int {
	if ex.H != nil {
		if n, ok := ex.H.Unwind[fn.Name()]; ok {
			return n
		}
	}
	return maxBlockVisit
}

func (ex *Exec) zeroResults(fn *ssa.Function) Value {
	res := fn.Signature.Results()
	switch res.Len() {
	case 0:
		return nil
	case 1:
		return ex.zero(res.At(0).Type())
	}
	return ex.zero(res)
}

func (ex *Exec) pos2(p token.Pos) string {
	if !p.IsValid() {
		return ""
	}
	return ex.Prog.Fset.Position(p).String()
}

func (ex *Exec) panicMsg(v Value) string {
	if i, ok := v.(Iface); ok {
		if s, ok := i.V.(Str); ok {
			if cs, ok := concreteStr(s); ok {
				return cs
			}
		}
		if i.T != nil {
			return "panic(" + i.T.String() + ")"
		}
	}
	return "panic"
}

func (ex *Exec) runDefers(fr *frame) *goPanic {
	for len(fr.defers) > 0 {
		d := fr.defers[len(fr.defers)-1]
		fr.defers = fr.defers[:len(fr.defers)-1]
		var pan *goPanic
		if cl, ok := d.fn.(*Closure); ok && cl != nil && cl.Fn != nil && cl.Native == nil && cl.Builtin == nil {
			pan = ex.callDeferred(fr, cl, d.args)
		} else {
			_, pan = ex.callValue(fr, d.fn, d.args, nil)
		}
		if pan != nil {
			// a panic in a deferred call replaces the current one
			fr.panicV = pan
		}
	}
	return fr.panicV
}

// callDeferred calls a deferred closure so that recover() inside it can see
// the panicking frame.
func (ex *Exec) callDeferred(owner *frame, cl *Closure, args []Value) *goPanic {
	fn := cl.Fn
	name := fn.String()
	if ex.H != nil {
		if stub, ok := ex.H.stubFor(fn, name); ok {
			_, p := ex.callFunction(stub, args, nil, owner)
			return p
		}
	}
	if h, ok := lookupIntrinsic(ex, fn, name); ok {
		_, p := h(ex, owner, fn, args)
		return p
	}
	if fn.Blocks == nil {
		panic(engineErr("deferred call to external function: %s", name))
	}
	ex.depth++
	defer func() { ex.depth-- }()
	fi := ex.fnInfoOf(fn)
	fr := &frame{fn: fn, info: fi, env: make([]Value, fi.n), caller: owner, deferOf: owner}
	for i, p := range fn.Params {
		fr.env[fi.slots[p]] = args[i]
	}
	for i, fv := range fn.FreeVars {
		fr.env[fi.slots[fv]] = cl.Bind[i]
	}
	if _, seen := ex.St.Funcs[name]; !seen {
		n := 0
		for _, b := range fn.Blocks {
			n += len(b.Instrs)
		}
		ex.St.Funcs[name] = n
	}
	_, p := ex.run(fr)
	return p
}

func (ex *Exec) set(fr *frame, v ssa.Value, val Value) {
	fr.env[fr.info.slots[v]] = val
}

// step executes one non-control instruction.
func (ex *Exec) step(fr *frame, in ssa.Instruction) *goPanic {
	switch x := in.(type) {
	case *ssa.Alloc:
		t := deref(x.Type())
		o := ex.newObj(t, ex.zero(t), x.Comment)
		ex.set(fr, x, Ptr{Obj: o})
	case *ssa.BinOp:
		v, pan := ex.binop(x.Op, ex.get(fr, x.X), ex.get(fr, x.Y), x.X.Type(), x.Y.Type())
		if pan != nil {
			return pan
		}
		ex.set(fr, x, v)
	case *ssa.UnOp:
		v, pan := ex.unop(fr, x)
		if pan != nil {
			return pan
		}
		ex.set(fr, x, v)
	case *ssa.Call:
		v, pan := ex.doCall(fr, &x.Call, x)
		if pan != nil {
			return pan
		}
		ex.set(fr, x, v)
	case *ssa.ChangeInterface:
		ex.set(fr, x, ex.get(fr, x.X))
	case *ssa.ChangeType:
		ex.set(fr, x, ex.get(fr, x.X))
	case *ssa.Convert:
		v, pan := ex.convert(ex.get(fr, x.X), x.X.Type(), x.Type())
		if pan != nil {
			return pan
		}
		ex.set(fr, x, v)
	case *ssa.MultiConvert:
		v, pan := ex.convert(ex.get(fr, x.X), x.X.Type(), x.Type())
		if pan != nil {
			return pan
		}
		ex.set(fr, x, v)
	case *ssa.DebugRef:
	case *ssa.Defer:
		d := &deferred{}
		cc := &x.Call
		if cc.IsInvoke() {
			recv := ex.get(fr, cc.Value).(Iface)
			if recv.T == nil {
				return ex.rtPanic("invalid memory address or nil pointer dereference")
			}
			fn := ex.lookupMethod(recv.T, cc.Method)
			d.fn = &Closure{Fn: fn}
			d.args = append([]Value{recv.V}, ex.getArgs(fr, cc.Args)...)
		} else {
			d.fn = ex.get(fr, cc.Value)
			d.args = ex.getArgs(fr, cc.Args)
		}
		fr.defers = append(fr.defers, d)
	case *ssa.Extract:
		ex.set(fr, x, ex.get(fr, x.Tuple).(Tuple)[x.Index])
	case *ssa.Field:
		ex.set(fr, x, ex.get(fr, x.X).(*Struct).F[x.Field])
	case *ssa.FieldAddr:
		p := ex.get(fr, x.X).(Ptr)
		if p.Obj == nil {
			return ex.rtPanic("invalid memory address or nil pointer dereference")
		}
		ex.set(fr, x, p.extend(PathElem{Kind: PEField, I: x.Field}))
	case *ssa.Go:
		panic(engineErr("go statement in %s (not executed by the engine)", fr.fn))
	case *ssa.Index:
		return ex.indexInstr(fr, x)
	case *ssa.IndexAddr:
		return ex.indexAddr(fr, x)
	case *ssa.Lookup:
		return ex.lookupInstr(fr, x)
	case *ssa.MakeChan:
		n := ex.concretize(ex.get(fr, x.Size).(*Term), 0, 1024)
		o := ex.newObj(x.Type(), &ChanData{Cap: n}, "chan")
		ex.set(fr, x, ChanRef{o})
	case *ssa.MakeClosure:
		b := make([]Value, len(x.Bindings))
		for i, bv := range x.Bindings {
			b[i] = ex.get(fr, bv)
		}
		ex.set(fr, x, &Closure{Fn: x.Fn.(*ssa.Function), Bind: b})
	case *ssa.MakeInterface:
		ex.set(fr, x, Iface{T: x.X.Type(), V: ex.get(fr, x.X)})
	case *ssa.MakeMap:
		o := ex.newObj(x.Type(), &MapData{}, "map")
		ex.set(fr, x, MapRef{o})
	case *ssa.MakeSlice:
		lt := ex.get(fr, x.Len).(*Term)
		ct := ex.get(fr, x.Cap).(*Term)
		if !lt.IsConst() || !ct.IsConst() {
			if !ex.branch(ex.C.And(ex.C.Cmp(OpSLe, ex.C.Const(lt.W, 0), lt), ex.C.Cmp(OpSLe, lt, ex.C.Const(lt.W, 1<<16)))) {
				panic(engineErr("makeslice: symbolic length outside [0,65536] in %s", fr.fn))
			}
		}
		n := ex.concretize(lt, 0, 4096)
		c := ex.concretize(ct, 0, 4096)
		if n < 0 || c < n {
			return ex.rtPanic("makeslice: len out of range")
		}
		et := under(x.Type()).(*types.Slice).Elem()
		s := ex.newSliceFrom(et, nil, c)
		s.Len = n
		ex.set(fr, x, s)
	case *ssa.MapUpdate:
		m := ex.get(fr, x.Map).(MapRef)
		if m.Obj == nil {
			return ex.rtPanic("assignment to entry in nil map")
		}
		ex.mapSet(m, ex.get(fr, x.Key), ex.get(fr, x.Value))
	case *ssa.Next:
		ex.set(fr, x, ex.nextInstr(fr, x))
	case *ssa.Phi:
		// phi at function entry block cannot happen; phis are handled in run
		panic(engineErr("stray phi in %s", fr.fn))
	case *ssa.Range:
		v := ex.get(fr, x.X)
		switch r := v.(type) {
		case MapRef:
			it := &mapIter{}
			if r.Obj != nil {
				md := r.Obj.Val.(*MapData)
				it.K, it.V = md.K, md.V
				if ex.H != nil && ex.H.PermuteMaps && len(it.K) > 1 && len(it.K) <= 4 {
					it.K, it.V = ex.permute(it.K, it.V)
				}
			}
			ex.set(fr, x, it)
		case Str:
			ex.set(fr, x, &strIter{S: r})
		default:
			panic(engineErr("range over %T", v))
		}
	case *ssa.Select:
		return ex.selectInstr(fr, x)
	case *ssa.Send:
		ch := ex.get(fr, x.Chan).(ChanRef)
		if ch.Obj == nil {
			panic(engineErr("send on nil channel blocks forever in %s", fr.fn))
		}
		cd := ch.Obj.Val.(*ChanData)
		if cd.Closed {
			return &goPanic{val: Iface{T: types.Typ[types.String], V: ex.mkStr("send on closed channel")}, msg: "send on closed channel"}
		}
		if len(cd.Buf) >= cd.Cap {
			panic(engineErr("blocking channel send in %s", fr.fn))
		}
		nb := append(append([]Value{}, cd.Buf...), ex.get(fr, x.X))
		ex.setObj(ch.Obj, &ChanData{Buf: nb, Cap: cd.Cap})
	case *ssa.Slice:
		return ex.sliceInstr(fr, x)
	case *ssa.SliceToArrayPointer:
		s := ex.get(fr, x.X).(Slice)
		n := int(under(deref(x.Type())).(*types.Array).Len())
		if s.Len < n {
			return ex.rtPanic(fmt.Sprintf("cannot convert slice with length %d to array or pointer to array with length %d", s.Len, n))
		}
		if s.IsNil() {
			ex.set(fr, x, Ptr{})
		} else {
			ex.set(fr, x, s.Base.extend(PathElem{Kind: PEWindow, I: s.Off, N: n}))
		}
	case *ssa.Store:
		p := ex.get(fr, x.Addr).(Ptr)
		if p.Obj == nil {
			return ex.rtPanic("invalid memory address or nil pointer dereference")
		}
		ex.store(p, ex.get(fr, x.Val))
	case *ssa.TypeAssert:
		return ex.typeAssert(fr, x)
	default:
		panic(engineErr("unsupported instruction %T in %s", in, fr.fn))
	}
	return nil
}

func (ex *Exec) getArgs(fr *frame, args []ssa.Value) []Value {
	out := make([]Value, len(args))
	for i, a := range args {
		out[i] = ex.get(fr, a)
	}
	return out
}

func (ex *Exec) lookupMethod(t types.Type, m *types.Func) *ssa.Function {
	sel := ex.Prog.MethodSets.MethodSet(t).Lookup(m.Pkg(), m.Name())
	if sel == nil {
		panic(engineErr("method %s not found on %s", m.Name(), t))
	}
	fn := ex.Prog.MethodValue(sel)
	if fn == nil {
		panic(engineErr("no SSA for method %s on %s", m.Name(), t))
	}
	return fn
}

func (ex *Exec) doCall(fr *frame, cc *ssa.CallCommon, site ssa.Instruction) (Value, *goPanic) {
	if cc.IsInvoke() {
		recv, ok := ex.get(fr, cc.Value).(Iface)
		if !ok {
			panic(engineErr("invoke on non-interface %T in %s", ex.get(fr, cc.Value), fr.fn))
		}
		if recv.T == nil {
			return nil, ex.rtPanic("invalid memory address or nil pointer dereference (nil interface method call " + cc.Method.Name() + ")")
		}
		fn := ex.lookupMethod(recv.T, cc.Method)
		args := append([]Value{recv.V}, ex.getArgs(fr, cc.Args)...)
		return ex.callFunction(fn, args, nil, fr)
	}
	args := ex.getArgs(fr, cc.Args)
	switch f := cc.Value.(type) {
	case *ssa.Function:
		return ex.callFunction(f, args, nil, fr)
	case *ssa.Builtin:
		return ex.callBuiltin(fr, f, args, site)
	}
	return ex.callValue(fr, ex.get(fr, cc.Value), args, site)
}

// ---- operators ----

func (ex *Exec) unop(fr *frame, x *ssa.UnOp) (Value, *goPanic) {
	v := ex.get(fr, x.X)
	switch x.Op {
	case token.MUL:
		p := v.(Ptr)
		if p.Obj == nil {
			return nil, ex.rtPanic("invalid memory address or nil pointer dereference")
		}
		return ex.load(p), nil
	case token.NOT:
		return ex.C.Not(v.(*Term)), nil
	case token.SUB:
		switch t := v.(type) {
		case *Term:
			return ex.C.Neg(t), nil
		case Float:
			return Float{-t.F}, nil
		}
	case token.XOR:
		return ex.C.BVNot(v.(*Term)), nil
	case token.ARROW:
		ch := v.(ChanRef)
		if ch.Obj == nil {
			panic(engineErr("receive from nil channel in %s", fr.fn))
		}
		cd := ch.Obj.Val.(*ChanData)
		et := under(x.X.Type()).(*types.Chan).Elem()
		var val Value
		okv := ex.C.True
		if len(cd.Buf) > 0 {
			val = cd.Buf[0]
			ex.setObj(ch.Obj, &ChanData{Buf: append([]Value{}, cd.Buf[1:]...), Cap: cd.Cap, Closed: cd.Closed})
		} else if cd.Closed {
			val = ex.zero(et)
			okv = ex.C.False
		} else {
			panic(engineErr("blocking channel receive in %s", fr.fn))
		}
		if x.CommaOk {
			return Tuple{val, okv}, nil
		}
		return val, nil
	}
	panic(engineErr("unsupported unop %s on %T", x.Op, v))
}

func (ex *Exec) binop(op token.Token, a, b Value, ta, tb types.Type) (Value, *goPanic) {
	switch op {
	case token.EQL:
		return ex.equal(a, b), nil
	case token.NEQ:
		return ex.C.Not(ex.equal(a, b)), nil
	}
	switch x := a.(type) {
	case *Term:
		y := b.(*Term)
		if x.W == 0 {
			switch op {
			case token.AND, token.LAND:
				return ex.C.And(x, y), nil
			case token.OR, token.LOR:
				return ex.C.Or(x, y), nil
			case token.XOR:
				return ex.C.Not(ex.C.Eq(x, y)), nil
			case token.AND_NOT:
				return ex.C.And(x, ex.C.Not(y)), nil
			}
			panic(engineErr("bool binop %s", op))
		}
		uns := isUnsigned(ta)
		switch op {
		case token.ADD:
			return ex.C.Bin(OpAdd, x, y), nil
		case token.SUB:
			return ex.C.Bin(OpSub, x, y), nil
		case token.MUL:
			return ex.C.Bin(OpMul, x, y), nil
		case token.QUO, token.REM:
			if !ex.branch(ex.C.Ne(y, ex.C.Const(y.W, 0))) {
				return nil, ex.rtPanic("integer divide by zero")
			}
			var o Op
			switch {
			case op == token.QUO && uns:
				o = OpUDiv
			case op == token.QUO:
				o = OpSDiv
			case uns:
				o = OpURem
			default:
				o = OpSRem
			}
			// strength-reduce unsigned power-of-two divisors
			if y.IsConst() && uns && y.Val&(y.Val-1) == 0 {
				k := uint64(0)
				for (uint64(1) << k) != y.Val {
					k++
				}
				if o == OpUDiv {
					return ex.C.Bin(OpLShr, x, ex.C.Const(x.W, k)), nil
				}
				return ex.C.Bin(OpBVAnd, x, ex.C.Const(x.W, y.Val-1)), nil
			}
			return ex.C.Bin(o, x, y), nil
		case token.AND:
			return ex.C.Bin(OpBVAnd, x, y), nil
		case token.OR:
			return ex.C.Bin(OpBVOr, x, y), nil
		case token.XOR:
			return ex.C.Bin(OpBVXor, x, y), nil
		case token.AND_NOT:
			return ex.C.Bin(OpBVAnd, x, ex.C.BVNot(y)), nil
		case token.SHL, token.SHR:
			if !isUnsigned(tb) {
				if !ex.branch(ex.C.Cmp(OpSLe, ex.C.Const(y.W, 0), y)) {
					return nil, ex.rtPanic("negative shift amount")
				}
			}
			var amt *Term
			switch {
			case y.W == x.W:
				amt = y
			case y.W < x.W:
				amt = ex.C.ZExt(y, x.W)
			default:
				big := ex.C.Cmp(OpULe, ex.C.Const(y.W, uint64(x.W)), y)
				amt = ex.C.Ite(big, ex.C.Const(x.W, uint64(x.W)), ex.C.Trunc(y, x.W))
			}
			// bvshl/bvlshr by >= width give 0, bvashr gives sign fill: Go semantics
			if x.W < 8 {
				panic(engineErr("shift on width %d", x.W))
			}
			switch {
			case op == token.SHL:
				return ex.C.Bin(OpShl, x, amt), nil
			case uns:
				return ex.C.Bin(OpLShr, x, amt), nil
			default:
				return ex.C.Bin(OpAShr, x, amt), nil
			}
		case token.LSS:
			if uns {
				return ex.C.Cmp(OpULt, x, y), nil
			}
			return ex.C.Cmp(OpSLt, x, y), nil
		case token.LEQ:
			if uns {
				return ex.C.Cmp(OpULe, x, y), nil
			}
			return ex.C.Cmp(OpSLe, x, y), nil
		case token.GTR:
			if uns {
				return ex.C.Cmp(OpULt, y, x), nil
			}
			return ex.C.Cmp(OpSLt, y, x), nil
		case token.GEQ:
			if uns {
				return ex.C.Cmp(OpULe, y, x), nil
			}
			return ex.C.Cmp(OpSLe, y, x), nil
		}
	case Float:
		y := b.(Float)
		switch op {
		case token.ADD:
			return Float{x.F + y.F}, nil
		case token.SUB:
			return Float{x.F - y.F}, nil
		case token.MUL:
			return Float{x.F * y.F}, nil
		case token.QUO:
			return Float{x.F / y.F}, nil
		case token.LSS:
			return ex.C.Bool(x.F < y.F), nil
		case token.LEQ:
			return ex.C.Bool(x.F <= y.F), nil
		case token.GTR:
			return ex.C.Bool(x.F > y.F), nil
		case token.GEQ:
			return ex.C.Bool(x.F >= y.F), nil
		}
	case SymFloat:
		return ex.symFloatBinop(op, x, b)
	case Str:
		y := b.(Str)
		switch op {
		case token.ADD:
			nb := make([]*Term, 0, len(x.B)+len(y.B))
			nb = append(append(nb, x.B...), y.B...)
			return Str{nb}, nil
		case token.LSS:
			return ex.strLess(x, y, false), nil
		case token.LEQ:
			return ex.strLess(x, y, true), nil
		case token.GTR:
			return ex.strLess(y, x, false), nil
		case token.GEQ:
			return ex.strLess(y, x, true), nil
		}
	}
	if y, ok := b.(SymFloat); ok {
		return ex.symFloatBinop(op, a, y)
	}
	panic(engineErr("unsupported binop %s on %T,%T", op, a, b))
}

// strLess is lexicographic < (or <= when orEq).
func (ex *Exec) strLess(a, b Str, orEq bool) *Term {
	n := len(a.B)
	if len(b.B) < n {
		n = len(b.B)
	}
	// result when the common prefix is equal
	var tail *Term
	switch {
	case len(a.B) < len(b.B):
		tail = ex.C.True
	case len(a.B) == len(b.B):
		tail = ex.C.Bool(orEq)
	default:
		tail = ex.C.False
	}
	r := tail
	for i := n - 1; i >= 0; i-- {
		lt := ex.C.Cmp(OpULt, a.B[i], b.B[i])
		eq := ex.C.Eq(a.B[i], b.B[i])
		r = ex.C.Or(lt, ex.C.And(eq, r))
	}
	return r
}

func (ex *Exec) equal(a, b Value) *Term {
	switch x := a.(type) {
	case *Term:
		return ex.C.Eq(x, b.(*Term))
	case Float:
		return ex.C.Bool(x.F == b.(Float).F)
	case Str:
		y := b.(Str)
		if len(x.B) != len(y.B) {
			return ex.C.False
		}
		r := ex.C.True
		for i := range x.B {
			r = ex.C.And(r, ex.C.Eq(x.B[i], y.B[i]))
		}
		return r
	case Ptr:
		y, ok := b.(Ptr)
		if !ok {
			panic(engineErr("equal: Ptr vs %T", b))
		}
		if x.Obj != y.Obj || len(x.Path) != len(y.Path) {
			return ex.C.False
		}
		r := ex.C.True
		for i := range x.Path {
			p, q := x.Path[i], y.Path[i]
			if p.Kind != q.Kind {
				return ex.C.False
			}
			if p.Sym != nil || q.Sym != nil {
				ps, qs := p.Sym, q.Sym
				if ps == nil {
					ps = ex.C.Const(64, uint64(p.I))
				}
				if qs == nil {
					qs = ex.C.Const(64, uint64(q.I))
				}
				r = ex.C.And(r, ex.C.Eq(ps, qs))
			} else if p.I != q.I || p.N != q.N {
				return ex.C.False
			}
		}
		return r
	case *Struct:
		y := b.(*Struct)
		r := ex.C.True
		for i := range x.F {
			r = ex.C.And(r, ex.equal(x.F[i], y.F[i]))
		}
		return r
	case *Array:
		y := b.(*Array)
		r := ex.C.True
		for i := range x.E {
			r = ex.C.And(r, ex.equal(x.E[i], y.E[i]))
		}
		return r
	case Iface:
		y, ok := b.(Iface)
		if !ok {
			panic(engineErr("equal: Iface vs %T", b))
		}
		if x.T == nil || y.T == nil {
			return ex.C.Bool(x.T == nil && y.T == nil)
		}
		if !types.Identical(x.T, y.T) {
			return ex.C.False
		}
		if !types.Comparable(x.T) {
			panic(engineErr("comparing uncomparable type %s", x.T))
		}
		return ex.equal(x.V, y.V)
	case Slice:
		y := b.(Slice)
		if x.IsNil() || y.IsNil() {
			return ex.C.Bool(x.IsNil() && y.IsNil())
		}
	case MapRef:
		y := b.(MapRef)
		if x.Obj == nil || y.Obj == nil {
			return ex.C.Bool(x.Obj == y.Obj)
		}
	case ChanRef:
		return ex.C.Bool(x.Obj == b.(ChanRef).Obj)
	case *Closure:
		y := b.(*Closure)
		if x == nil || y == nil {
			return ex.C.Bool(x == nil && y == nil)
		}
	case ReflType:
		return ex.C.Bool(types.Identical(x.T, b.(ReflType).T))
	}
	panic(engineErr("equal: unsupported comparison %T vs %T", a, b))
}

func (ex *Exec) convert(v Value, from, to types.Type) (Value, *goPanic) {
	uf, ut := under(from), under(to)
	switch x := v.(type) {
	case *Term:
		if isInteger(ut) {
			tw := widthOf(ut)
			if x.W == 0 {
				panic(engineErr("convert bool to int"))
			}
			switch {
			case tw == x.W:
				return x, nil
			case tw < x.W:
				return ex.C.Trunc(x, tw), nil
			case isUnsigned(uf):
				return ex.C.ZExt(x, tw), nil
			default:
				return ex.C.SExt(x, tw), nil
			}
		}
		if isFloat(ut) {
			if x.IsConst() {
				if isUnsigned(uf) {
					return Float{float64(x.Val)}, nil
				}
				return Float{float64(x.SVal())}, nil
			}
			return SymFloat{Num: x, Unsigned: isUnsigned(uf), Div: 1}, nil
		}
		if isString(ut) {
			if !x.IsConst() {
				// string(rune): fork over ASCII only
				if ex.branch(ex.C.Cmp(OpULt, x, ex.C.Const(x.W, 0x80))) {
					return Str{[]*Term{ex.C.Trunc(x, 8)}}, nil
				}
				panic(engineErr("int->string conversion of symbolic non-ASCII value"))
			}
			return ex.mkStr(string(rune(x.SVal()))), nil
		}
		if b, ok := ut.(*types.Basic); ok && b.Kind() == types.UnsafePointer {
			if x.IsConst() && x.Val == 0 {
				return Ptr{}, nil
			}
			panic(engineErr("uintptr -> unsafe.Pointer"))
		}
	case Float:
		if isFloat(ut) {
			if widthOfFloat(ut) == 32 {
				return Float{float64(float32(x.F))}, nil
			}
			return x, nil
		}
		if isInteger(ut) {
			w := widthOf(ut)
			if isUnsigned(ut) {
				return ex.C.Const(w, uint64(x.F)), nil
			}
			return ex.C.Const(w, uint64(int64(x.F))), nil
		}
	case SymFloat:
		return ex.symFloatConvert(x, ut)
	case Str:
		if isString(ut) {
			return x, nil
		}
		if sl, ok := ut.(*types.Slice); ok {
			if b, ok := under(sl.Elem()).(*types.Basic); ok && b.Kind() == types.Uint8 {
				return ex.newSliceFrom(sl.Elem(), ex.bytesOfStr(x), len(x.B)), nil
			}
			if b, ok := under(sl.Elem()).(*types.Basic); ok && b.Kind() == types.Int32 {
				s := ex.mustConcreteStr(x, "string->[]rune")
				var rs []Value
				for _, r := range s {
					rs = append(rs, ex.C.Const(32, uint64(r)))
				}
				return ex.newSliceFrom(sl.Elem(), rs, len(rs)), nil
			}
		}
	case Slice:
		if isString(ut) {
			et := under(uf.(*types.Slice).Elem()).(*types.Basic)
			if et.Kind() == types.Uint8 {
				return ex.strOfBytes(ex.sliceElems(x)), nil
			}
			// []rune -> string, concrete only
			var sb strings.Builder
			for _, e := range ex.sliceElems(x) {
				t := e.(*Term)
				if !t.IsConst() {
					panic(engineErr("[]rune->string with symbolic runes"))
				}
				sb.WriteRune(rune(t.SVal()))
			}
			return ex.mkStr(sb.String()), nil
		}
		if _, ok := ut.(*types.Slice); ok {
			return x, nil
		}
	case Ptr:
		if _, ok := ut.(*types.Pointer); ok {
			return x, nil
		}
		if b, ok := ut.(*types.Basic); ok {
			if b.Kind() == types.UnsafePointer {
				return x, nil
			}
			if b.Kind() == types.Uintptr {
				if x.Obj == nil {
					return ex.C.Const(64, 0), nil
				}
				// an address: opaque non-zero distinct value
				return ex.C.Const(64, uint64(0x10000000+x.Obj.ID*4096+len(x.Path))), nil
			}
		}
	}
	panic(engineErr("unsupported conversion %T: %s -> %s", v, from, to))
}

func widthOfFloat(t types.Type) int {
	if b, ok := under(t).(*types.Basic); ok && b.Kind() == types.Float32 {
		return 32
	}
	return 64
}

var _ = math.Inf

// check is the only route to the solver: it enforces the wall-clock budget.
func (ex *Exec) check(lits []*Term, vars []*Term) (Result, Model) {
	if !ex.deadline.IsZero() && time.Now().After(ex.deadline) {
		panic(engineErr("budget: wall-clock deadline reached before a solver query"))
	}
	return ex.S.Check(lits, vars)
}
