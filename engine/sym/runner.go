package sym

import (
	"fmt"
	"go/types"
	"io"
	"os"
	"runtime/debug"
	"sort"
	"sync"
	"sync/atomic"
	"time"

	"golang.org/x/tools/go/ssa"
)

// pick is one element of a decision prefix.
type pick struct {
	I int
	V uint64
}

// HarnessResult aggregates all workers' findings for one entry.
type HarnessResult struct {
	H            *Harness
	Stats        *Stats
	Violations   []Violation
	Inconclusive []string
	Queries      int
	SatN         int
	UnsatN       int
	UnknownN     int
	SolverTime   time.Duration
	Wall         time.Duration
	Terms        int
	mu           sync.Mutex
	pending      int64
	failed       int32
	paths        int64
}

type task struct {
	hr     *HarnessResult
	prefix []pick
}

// RunConfig controls a run.
type RunConfig struct {
	Workers   int
	Tier      string
	TimeoutS  int // per query
	SolverLog string
	Deadline  time.Time
	Verbose   bool
	// FailFast stops the whole run at the first path that records a
	// violation (development aid for mutant regressions; never used by the
	// registered commands, whose evidence must describe a full exploration).
	FailFast bool
	stopAll  int32
}

func newExec(p *ssa.Program, h *Harness, cfg *RunConfig, wid int) (*Exec, error) {
	c := NewCtx()
	var log io.Writer
	if cfg.SolverLog != "" {
		f, err := os.Create(fmt.Sprintf("%s.%s.%d.smt2", cfg.SolverLog, h.Entry, wid))
		if err == nil {
			log = f
		}
	}
	s, err := NewSolver(c, h.Profile, cfg.TimeoutS, log)
	if err != nil {
		return nil, err
	}
	tier := 0
	if cfg.Tier == "thorough" {
		tier = 1
	}
	ex := &Exec{C: c, S: s, Prog: p, H: h, St: newStats(),
		globals: map[*ssa.Global]*Object{}, inited: map[*ssa.Package]bool{}, initing: map[*ssa.Package]bool{}, initSkipped: map[*ssa.Package]bool{}, lazyIniting: map[*ssa.Global]bool{}, initAssigned: map[*ssa.Package]map[*ssa.Global]bool{},
		fnInfos: map[*ssa.Function]*fnInfo{}, typeIDs: map[string]types.Type{}, uniq: map[string]*Object{},
		violKeys: map[string]bool{}, sampled: map[string]bool{}, Tier: tier,
		deadline: cfg.Deadline, mergeFail: map[mergeKey]int{}, pcSet: map[*Term]int{}, unsatCache: map[int][]unsatEntry{}}
	return ex, nil
}

// resetPath clears per-path state.
func (ex *Exec) resetPath() {
	for i := len(ex.undo) - 1; i >= 0; i-- {
		ex.undo[i].o.Val = ex.undo[i].old
	}
	ex.undo = ex.undo[:0]
	ex.pc = ex.pc[:0]
	ex.pos = 0
	ex.nondetN = map[string]int{}
	ex.vars = ex.vars[:0]
	ex.ghost = map[string]Value{}
	ex.clock = nil
	ex.locksHeld, ex.maxLocks = 0, 0
	ex.steps = 0
	ex.depth = 0
	ex.hashLog = nil
	ex.lastRecovered = nil
	ex.speculating = 0
	ex.curFrame = nil
	ex.inEnv = false
	ex.objSeq = 0
	ex.pathUnknown = false
	ex.auxVars = ex.auxVars[:0]
	ex.asciiKnown = map[*Term]bool{}
	ex.clockLog = nil
	ex.realClockReads = 0
	ex.opaqueIPs = 0
	// the literal index is rebuilt per path (a stale literal from a sibling
	// path must never be taken as implied)
	ex.pcLits = ex.pcLits[:0]
	ex.pcHash = ex.pcHash[:0]
	ex.pcSet = map[*Term]int{}
	ex.mergeFail = map[mergeKey]int{}
	ex.skipPhis = false
	ex.rawInit = false
}

// explore runs every path below the given prefix.
func (ex *Exec) explore(hr *HarnessResult, prefix []pick, cfg *RunConfig) {
	ex.trail = ex.trail[:0]
	for _, p := range prefix {
		ex.trail = append(ex.trail, decision{chosen: p.I, val: p.V, fixed: true})
	}
	ex.minLen = len(prefix)
	for {
		if atomic.LoadInt32(&hr.failed) != 0 {
			return
		}
		if cfg.FailFast && atomic.LoadInt32(&cfg.stopAll) != 0 {
			return
		}
		if !cfg.Deadline.IsZero() && time.Now().After(cfg.Deadline) {
			hr.addInconclusive("budget: wall-clock deadline reached")
			return
		}
		n := atomic.AddInt64(&hr.paths, 1)
		if int(n) > ex.H.MaxPaths {
			hr.addInconclusive(fmt.Sprintf("budget: more than %d paths", ex.H.MaxPaths))
			return
		}
		ex.runOnePath(hr)
		ex.St.Paths++
		if cfg.FailFast && len(ex.violations) > 0 {
			atomic.StoreInt32(&cfg.stopAll, 1)
		}
		// backtrack
		for len(ex.trail) > ex.minLen && len(ex.trail[len(ex.trail)-1].alts) == 0 {
			ex.trail = ex.trail[:len(ex.trail)-1]
		}
		if len(ex.trail) <= ex.minLen {
			return
		}
		d := &ex.trail[len(ex.trail)-1]
		d.chosen = d.alts[0]
		d.alts = d.alts[1:]
	}
}

func (ex *Exec) runOnePath(hr *HarnessResult) {
	ex.resetPath()
	defer func() {
		if r := recover(); r != nil {
			switch e := r.(type) {
			case pathAbort:
				ex.St.AbortedPaths++
				ex.St.AbortReasons[e.why]++
			case engineError:
				hr.addInconclusive("engine: " + e.msg + ex.whereAmI())
				ex.trail = ex.trail[:ex.pos]
			case specAbort:
				hr.addInconclusive("engine: stray speculation abort")
			default:
				st := string(debug.Stack())
				if len(st) > 1500 {
					st = st[:1500]
				}
				hr.addInconclusive(fmt.Sprintf("engine crash: %v%s\n%s", r, ex.whereAmI(), st))
				ex.trail = ex.trail[:ex.pos]
			}
		}
	}()
	_, pan := ex.callFunction(ex.H.EntryFn, nil, nil, nil)
	if pan != nil && !ex.H.AllowPanic {
		ex.St.Obligations++
		ex.reportViolation("panic:"+pan.where, "panic", "uncaught panic: "+pan.msg+" at "+pan.where, nil)
	}
	// audit: a completed path must have a satisfiable path condition
	if len(ex.pc) > 0 {
		if r, _ := ex.check(ex.pc, nil); r == Unsat && !ex.pathUnknown {
			hr.addInconclusive("engine: explored a path whose path condition is unsatisfiable (audit)")
		}
	}
	if ex.pos < len(ex.trail) {
		// replay consumed fewer decisions than recorded: nondeterminism in the engine
		hr.addInconclusive("engine: decision trail not consumed (non-deterministic re-execution)")
	}
	for _, m := range ex.inconclusive {
		hr.addInconclusive(m)
	}
	ex.inconclusive = nil
}

func (ex *Exec) whereAmI() string {
	if ex.curFrame == nil {
		return ""
	}
	s := " [in " + ex.curFrame.fn.String()
	for f, n := ex.curFrame.caller, 0; f != nil && n < 6; f, n = f.caller, n+1 {
		s += " <- " + f.fn.String()
	}
	return s + "]"
}

func (hr *HarnessResult) addInconclusive(msg string) {
	hr.mu.Lock()
	defer hr.mu.Unlock()
	for _, m := range hr.Inconclusive {
		if m == msg {
			return
		}
	}
	if len(hr.Inconclusive) < 20 {
		hr.Inconclusive = append(hr.Inconclusive, msg)
	}
	if len(msg) >= 6 && (msg[:6] == "engine" || msg[:6] == "budget") {
		atomic.StoreInt32(&hr.failed, 1)
	}
}

func (hr *HarnessResult) absorb(ex *Exec) {
	hr.mu.Lock()
	defer hr.mu.Unlock()
	s, d := hr.Stats, ex.St
	s.Paths += d.Paths
	s.Obligations += d.Obligations
	s.Discharged += d.Discharged
	s.Trivial += d.Trivial
	s.Steps += d.Steps
	s.Forks += d.Forks
	s.MergedBranch += d.MergedBranch
	s.ModelHits += d.ModelHits
	s.CacheHits += d.CacheHits
	s.Assumes += d.Assumes
	s.AbortedPaths += d.AbortedPaths
	for k, v := range d.Reached {
		s.Reached[k] += v
	}
	for k, v := range d.Funcs {
		s.Funcs[k] = v
	}
	for k, v := range d.Stubs {
		s.Stubs[k] += v
	}
	for k, v := range d.Intrinsics {
		s.Intrinsics[k] += v
	}
	for k, v := range d.AbortReasons {
		s.AbortReasons[k] += v
	}
	for _, smp := range d.Samples {
		if len(s.Samples) < 16 {
			s.Samples = append(s.Samples, smp)
		}
	}
	s.Unknowns = append(s.Unknowns, d.Unknowns...)
	have := map[string]bool{}
	for _, v := range hr.Violations {
		have[v.Kind+":"+v.ID] = true
	}
	for _, v := range ex.violations {
		if !have[v.Kind+":"+v.ID] {
			hr.Violations = append(hr.Violations, v)
		}
	}
	hr.Queries += ex.S.Queries
	hr.SatN += ex.S.SatN
	hr.UnsatN += ex.S.UnsatN
	hr.UnknownN += ex.S.UnknownN
	hr.SolverTime += ex.S.Time
	hr.Terms += ex.C.NumTerms()
	for _, e := range ex.S.Errors {
		if len(hr.Inconclusive) < 20 {
			hr.Inconclusive = append(hr.Inconclusive, "solver: "+e)
		}
	}
}

// RunHarnesses explores all harnesses with a shared worker pool.
func RunHarnesses(p *Program, hs []*Harness, cfg *RunConfig) []*HarnessResult {
	results := make([]*HarnessResult, len(hs))
	var qmu sync.Mutex
	cond := sync.NewCond(&qmu)
	var queue []task
	var totalPending int64
	idle := 0
	for i, h := range hs {
		results[i] = &HarnessResult{H: h, Stats: newStats()}
		queue = append(queue, task{hr: results[i]})
		results[i].pending = 1
		totalPending++
	}
	starts := map[*HarnessResult]time.Time{}
	var wg sync.WaitGroup
	for w := 0; w < cfg.Workers; w++ {
		wg.Add(1)
		go func(wid int) {
			defer wg.Done()
			var cur *Exec
			var curHR *HarnessResult
			closeCur := func() {
				if cur != nil {
					curHR.absorb(cur)
					cur.S.Close()
					cur = nil
				}
			}
			defer closeCur()
			for {
				qmu.Lock()
				for len(queue) == 0 && totalPending > 0 {
					idle++
					cond.Wait()
					idle--
				}
				if len(queue) == 0 && totalPending == 0 {
					qmu.Unlock()
					cond.Broadcast()
					return
				}
				// prefer a task of the harness we already hold
				ti := 0
				if curHR != nil {
					for k, t := range queue {
						if t.hr == curHR {
							ti = k
							break
						}
					}
				}
				t := queue[ti]
				queue = append(queue[:ti], queue[ti+1:]...)
				if _, ok := starts[t.hr]; !ok {
					starts[t.hr] = time.Now()
				}
				qmu.Unlock()

				if t.hr != curHR {
					closeCur()
					ex, err := newExec(p.Prog, t.hr.H, cfg, wid)
					if err != nil {
						t.hr.addInconclusive("engine: cannot start solver: " + err.Error())
					} else {
						cur, curHR = ex, t.hr
						hr := t.hr
						ex.donate = func(prefix []pick) bool {
							qmu.Lock()
							defer qmu.Unlock()
							if len(queue) >= cfg.Workers || idle == 0 && len(queue) >= 2 {
								return false
							}
							queue = append(queue, task{hr: hr, prefix: prefix})
							hr.pending++
							totalPending++
							cond.Signal()
							return true
						}
					}
				}
				if cur != nil && curHR == t.hr {
					cur.explore(t.hr, t.prefix, cfg)
				}
				qmu.Lock()
				t.hr.pending--
				totalPending--
				if t.hr.pending == 0 {
					t.hr.Wall = time.Since(starts[t.hr])
				}
				if totalPending == 0 {
					cond.Broadcast()
				}
				qmu.Unlock()
			}
		}(w)
	}
	wg.Wait()
	for _, r := range results {
		sort.Slice(r.Violations, func(i, j int) bool { return r.Violations[i].ID < r.Violations[j].ID })
		// vacuity: every expected id must have been reached
		if atomic.LoadInt32(&r.failed) == 0 && !(cfg.FailFast && atomic.LoadInt32(&cfg.stopAll) != 0) {
			for _, id := range r.H.ExpectIDs {
				if r.Stats.Reached[id] == 0 {
					r.Inconclusive = append(r.Inconclusive, "vacuity: assertion "+id+" was never reached")
				}
			}
		}
	}
	return results
}
