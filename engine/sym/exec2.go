package sym

import (
	"fmt"
	"go/token"
	"go/types"
	"os"
	"strings"
	"unicode/utf8"

	"golang.org/x/tools/go/ssa"
)

// SymFloat is the one symbolic float shape supported: Num/Div with an exact
// integer numerator (e.g. Duration.Seconds() = ns/1e9). Converting it back to
// an integer truncates toward zero, exact while |Num| < 2^53.
type SymFloat struct {
	Num      *Term
	Unsigned bool
	Div      int64
}

func (ex *Exec) symFloatConvert(x SymFloat, ut types.Type) (Value, *goPanic) {
	if isFloat(ut) {
		return x, nil
	}
	if isInteger(ut) {
		q := x.Num
		if x.Div != 1 {
			if x.Unsigned {
				q = ex.C.Bin(OpUDiv, x.Num, ex.C.Const(x.Num.W, uint64(x.Div)))
			} else {
				q = ex.C.Bin(OpSDiv, x.Num, ex.C.Const(x.Num.W, uint64(x.Div)))
			}
		}
		ex.noteAssumption("float->int conversion of Num/Div modelled as exact truncation (|Num| < 2^53, result in range)")
		w := widthOf(ut)
		switch {
		case w == q.W:
			return q, nil
		case w < q.W:
			return ex.C.Trunc(q, w), nil
		default:
			return ex.C.SExt(q, w), nil
		}
	}
	panic(engineErr("SymFloat conversion to %s", ut))
}

func (ex *Exec) symFloatBinop(op token.Token, a, b Value) (Value, *goPanic) {
	panic(engineErr("symbolic float arithmetic (%s on %T,%T) is not supported", op, a, b))
}

func (ex *Exec) noteAssumption(s string) {
	if ex.H != nil {
		ex.H.noteAssumption(s)
	}
}

// ---- region merging ----
//
// At a branch on a symbolic condition the executor first tries to evaluate
// the whole single-entry region up to the branch block's immediate
// post-dominator (or up to the function's returns) *speculatively*: every
// mini-path through the region is run with its own copy of the frame's
// registers, nothing may be written except to objects allocated inside the
// region, no solver query is made and nothing may fork. If that succeeds the
// join's phis (or the return value) become ite terms over the mini-path
// conditions - exact, because the conditions are exclusive and exhaustive and
// the region has no effects. Otherwise everything is rolled back and the
// branch forks as usual.

type specAbort struct{}

type mergeOutcome struct {
	join     *ssa.BasicBlock
	returned bool
	ret      Value
}

type miniPath struct {
	cond *Term
	vals []Value // phi inputs at the join, or {ret}
	env  []Value // registers when the join was reached
}

// sameValue: cheap identity test (immutable values).
func sameValue(a, b Value) bool {
	switch x := a.(type) {
	case nil:
		return b == nil
	case *Term:
		y, ok := b.(*Term)
		return ok && x == y
	case *Struct:
		y, ok := b.(*Struct)
		return ok && x == y
	case *Array:
		y, ok := b.(*Array)
		return ok && x == y
	case Ptr:
		y, ok := b.(Ptr)
		return ok && ptrIdentical(x, y)
	case Slice:
		y, ok := b.(Slice)
		return ok && ptrIdentical(x.Base, y.Base) && x.Off == y.Off && x.Len == y.Len && x.Cap == y.Cap
	case Str:
		y, ok := b.(Str)
		if !ok || len(x.B) != len(y.B) {
			return false
		}
		for i := range x.B {
			if x.B[i] != y.B[i] {
				return false
			}
		}
		return true
	case Iface:
		y, ok := b.(Iface)
		if !ok {
			return false
		}
		if x.T == nil || y.T == nil {
			return x.T == nil && y.T == nil
		}
		return types.Identical(x.T, y.T) && sameValue(x.V, y.V)
	case *Closure:
		y, ok := b.(*Closure)
		return ok && x == y
	case MapRef:
		y, ok := b.(MapRef)
		return ok && x.Obj == y.Obj
	case ChanRef:
		y, ok := b.(ChanRef)
		return ok && x.Obj == y.Obj
	case Float:
		y, ok := b.(Float)
		return ok && x.F == y.F
	case Tuple:
		y, ok := b.(Tuple)
		if !ok || len(x) != len(y) {
			return false
		}
		for i := range x {
			if !sameValue(x[i], y[i]) {
				return false
			}
		}
		return true
	case *mapIter:
		y, ok := b.(*mapIter)
		return ok && x == y
	case *strIter:
		y, ok := b.(*strIter)
		return ok && x == y
	case ReflType:
		y, ok := b.(ReflType)
		return ok && types.Identical(x.T, y.T)
	}
	return false
}

type specItem struct {
	block *ssa.BasicBlock
	prev  *ssa.BasicBlock
	cond  *Term
	env   []Value
	wm    int // objects with ID <= wm existed before this mini-path's last split: read-only
}

const (
	specMaxBlocks = 600
	specMaxPaths  = 48
)

// ipdomOf computes immediate post-dominators (index -1 = virtual exit,
// -2 = none) once per function.
func (fi *fnInfo) ipdomOf(fn *ssa.Function) []int {
	if fi.ipdom != nil {
		return fi.ipdom
	}
	n := len(fn.Blocks)
	// pdom sets as bitsets over n+1 nodes (n = virtual exit)
	words := (n + 1 + 63) / 64
	full := make([]uint64, words)
	for i := 0; i <= n; i++ {
		full[i/64] |= 1 << uint(i%64)
	}
	pd := make([][]uint64, n+1)
	for i := range pd {
		pd[i] = append([]uint64{}, full...)
	}
	pd[n] = make([]uint64, words)
	pd[n][n/64] |= 1 << uint(n%64)
	succs := func(i int) []int {
		b := fn.Blocks[i]
		if len(b.Succs) == 0 {
			return []int{n}
		}
		out := make([]int, len(b.Succs))
		for k, s := range b.Succs {
			out[k] = s.Index
		}
		return out
	}
	changed := true
	for changed {
		changed = false
		for i := n - 1; i >= 0; i-- {
			nw := append([]uint64{}, full...)
			for _, s := range succs(i) {
				for w := range nw {
					nw[w] &= pd[s][w]
				}
			}
			nw[i/64] |= 1 << uint(i%64)
			for w := range nw {
				if nw[w] != pd[i][w] {
					changed = true
				}
			}
			pd[i] = nw
		}
	}
	count := func(bs []uint64) int {
		c := 0
		for _, w := range bs {
			for ; w != 0; w &= w - 1 {
				c++
			}
		}
		return c
	}
	ip := make([]int, n)
	for i := 0; i < n; i++ {
		ip[i] = -2
		want := count(pd[i]) - 1
		if want <= 0 || want > n {
			continue
		}
		for d := 0; d <= n; d++ {
			if d == i || pd[i][d/64]&(1<<uint(d%64)) == 0 {
				continue
			}
			if count(pd[d]) == want {
				if d == n {
					ip[i] = -1
				} else {
					ip[i] = d
				}
				break
			}
		}
	}
	fi.ipdom = ip
	return ip
}

func (ex *Exec) tryMerge(fr *frame, block *ssa.BasicBlock, c *Term) (mergeOutcome, bool) {
	if ex.H != nil && ex.H.NoMerge {
		return mergeOutcome{}, false
	}
	if nm := os.Getenv("VERIF_NOMERGE_IN"); nm != "" && strings.Contains(fr.fn.String(), nm) {
		return mergeOutcome{}, false
	}
	if ym := os.Getenv("VERIF_MERGE_ONLY_IN"); ym != "" && !strings.Contains(fr.fn.String(), ym) {
		return mergeOutcome{}, false
	}
	ip := fr.info.ipdomOf(fr.fn)[block.Index]
	if ip == -2 {
		return mergeOutcome{}, false
	}
	var join *ssa.BasicBlock
	if ip >= 0 {
		join = fr.fn.Blocks[ip]
	}
	key := mergeKey{fr.fn, block.Index}
	if ex.mergeFail[key] >= 3 {
		return mergeOutcome{}, false
	}
	saveEnv := fr.env
	saveDefers := len(fr.defers)
	saveLocks, saveMaxLocks := ex.locksHeld, ex.maxLocks
	saveDepth := ex.depth
	saveCur := ex.curFrame
	saveWM := ex.specWatermark
	var paths []miniPath
	ok := true
	func() {
		ex.speculating++
		defer func() {
			ex.speculating--
			if r := recover(); r != nil {
				switch r.(type) {
				case specAbort, pathAbort:
					ok = false
				default:
					fr.env = saveEnv
					panic(r)
				}
			}
		}()
		blocks := 0
		cp := func(e []Value) []Value { return append([]Value(nil), e...) }
		// The heap is shared by all mini-paths, so after every split both
		// continuations may write only objects allocated after that split.
		stack := []specItem{
			{block.Succs[1], block, ex.C.Not(c), cp(saveEnv), ex.objSeq},
			{block.Succs[0], block, c, cp(saveEnv), ex.objSeq},
		}
		for len(stack) > 0 {
			it := stack[len(stack)-1]
			stack = stack[:len(stack)-1]
			b, prev, cond, env := it.block, it.prev, it.cond, it.env
			ex.specWatermark = it.wm
			for {
				fr.env = env
				if b == join {
					// collect phi inputs
					predIdx := -1
					for i, p := range b.Preds {
						if p == prev {
							predIdx = i
							break
						}
					}
					var vals []Value
					for _, in := range b.Instrs {
						phi, isPhi := in.(*ssa.Phi)
						if !isPhi {
							break
						}
						vals = append(vals, ex.get(fr, phi.Edges[predIdx]))
					}
					paths = append(paths, miniPath{cond, vals, env})
					break
				}
				blocks++
				if blocks > specMaxBlocks || len(paths)+len(stack) > specMaxPaths {
					panic(specAbort{})
				}
				// phis
				i := 0
				predIdx := -1
				for k, p := range b.Preds {
					if p == prev {
						predIdx = k
						break
					}
				}
				var phiVals []Value
				for ; i < len(b.Instrs); i++ {
					phi, isPhi := b.Instrs[i].(*ssa.Phi)
					if !isPhi {
						break
					}
					phiVals = append(phiVals, ex.get(fr, phi.Edges[predIdx]))
				}
				for k, v := range phiVals {
					env[fr.info.slots[b.Instrs[k].(*ssa.Phi)]] = v
				}
				var next *ssa.BasicBlock
				ended := false
				for ; i < len(b.Instrs); i++ {
					in := b.Instrs[i]
					ex.steps++
					if ex.steps > ex.H.MaxSteps {
						panic(engineErr("step budget exceeded (%d) in %s", ex.H.MaxSteps, fr.fn))
					}
					switch x := in.(type) {
					case *ssa.Jump:
						next = b.Succs[0]
					case *ssa.If:
						cc := ex.get(fr, x.Cond).(*Term)
						if cc.IsConst() {
							if cc.Val != 0 {
								next = b.Succs[0]
							} else {
								next = b.Succs[1]
							}
						} else {
							ct, cf := ex.C.And(cond, cc), ex.C.And(cond, ex.C.Not(cc))
							switch {
							case ct.IsConst() && ct.Val == 0:
								next = b.Succs[1]
							case cf.IsConst() && cf.Val == 0:
								next = b.Succs[0]
							default:
								stack = append(stack, specItem{b.Succs[1], b, cf, cp(env), ex.objSeq})
								ex.specWatermark = ex.objSeq
								cond = ct
								next = b.Succs[0]
							}
						}
					case *ssa.Return:
						if join != nil {
							panic(specAbort{})
						}
						var ret Value
						switch len(x.Results) {
						case 0:
						case 1:
							ret = ex.get(fr, x.Results[0])
						default:
							tv := make(Tuple, len(x.Results))
							for k, r := range x.Results {
								tv[k] = ex.get(fr, r)
							}
							ret = tv
						}
						paths = append(paths, miniPath{cond, []Value{ret}, nil})
						ended = true
					case *ssa.Panic, *ssa.RunDefers, *ssa.Defer, *ssa.Go, *ssa.Send, *ssa.Select, *ssa.Next, *ssa.Range:
						panic(specAbort{}) // (iterators are mutable engine objects)
					default:
						if pan := ex.step(fr, in); pan != nil {
							panic(specAbort{})
						}
					}
					if next != nil || ended {
						break
					}
				}
				if ended {
					break
				}
				prev, b = b, next
			}
		}
	}()
	fr.env = saveEnv
	ex.specWatermark = saveWM
	fr.defers = fr.defers[:saveDefers]
	ex.locksHeld, ex.maxLocks = saveLocks, saveMaxLocks
	ex.depth = saveDepth
	ex.curFrame = saveCur
	if !ok || len(paths) == 0 {
		ex.mergeFail[key]++
		return mergeOutcome{}, false
	}
	// merge the mini-path results (conditions are exclusive and exhaustive)
	nv := len(paths[0].vals)
	merged := make([]Value, nv)
	for k := 0; k < nv; k++ {
		acc := paths[len(paths)-1].vals[k]
		for i := len(paths) - 2; i >= 0; i-- {
			m, mok := ex.merge(paths[i].cond, paths[i].vals[k], acc)
			if !mok {
				ex.mergeFail[key]++
				return mergeOutcome{}, false
			}
			acc = m
		}
		merged[k] = acc
	}
	if join == nil {
		ex.St.MergedBranch++
		return mergeOutcome{returned: true, ret: merged[0]}, true
	}
	// Registers defined in blocks that dominate the join are live after it
	// and may have been recomputed inside the region (a loop through the
	// branch block, say): they are merged like phis.
	type upd struct {
		slot int
		v    Value
	}
	var upds []upd
	for slot, bi := range fr.info.slotBlock {
		if bi < 0 || !fr.fn.Blocks[bi].Dominates(join) {
			continue
		}
		same := true
		for i := 1; i < len(paths); i++ {
			if !sameValue(paths[i].env[slot], paths[0].env[slot]) {
				same = false
				break
			}
		}
		if same {
			if !sameValue(paths[0].env[slot], saveEnv[slot]) {
				upds = append(upds, upd{slot, paths[0].env[slot]})
			}
			continue
		}
		acc := paths[len(paths)-1].env[slot]
		for i := len(paths) - 2; i >= 0; i-- {
			m, mok := ex.merge(paths[i].cond, paths[i].env[slot], acc)
			if !mok {
				ex.mergeFail[key]++
				return mergeOutcome{}, false
			}
			acc = m
		}
		upds = append(upds, upd{slot, acc})
	}
	ex.St.MergedBranch++
	for _, u := range upds {
		fr.env[u.slot] = u.v
	}
	for k, m := range merged {
		fr.env[fr.info.slots[join.Instrs[k].(*ssa.Phi)]] = m
	}
	return mergeOutcome{join: join}, true
}

type mergeKey struct {
	fn    *ssa.Function
	block int
}

// ---- indexing / slicing ----

func (ex *Exec) boundsCheck(idx *Term, n int) *goPanic {
	// 0 <= idx < n   as unsigned compare
	inb := ex.C.Cmp(OpULt, idx, ex.C.Const(idx.W, uint64(n)))
	if !ex.branch(inb) {
		return ex.rtPanic(fmt.Sprintf("index out of range [%s] with length %d", describe(idx), n))
	}
	return nil
}

func (ex *Exec) idx64(v Value, t types.Type) *Term {
	x := v.(*Term)
	if x.W == 64 {
		return x
	}
	if isUnsigned(t) {
		return ex.C.ZExt(x, 64)
	}
	return ex.C.SExt(x, 64)
}

func (ex *Exec) indexAddr(fr *frame, x *ssa.IndexAddr) *goPanic {
	base := ex.get(fr, x.X)
	idx := ex.idx64(ex.get(fr, x.Index), x.Index.Type())
	switch b := base.(type) {
	case Slice:
		if pan := ex.boundsCheck(idx, b.Len); pan != nil {
			return pan
		}
		if idx.IsConst() {
			ex.set(fr, x, b.elemPtr(int(idx.Val)))
		} else {
			if len(b.Base.Path) > 0 && b.Base.Path[len(b.Base.Path)-1].Kind == PEWindow {
				panic(engineErr("symbolic index through window"))
			}
			sym := ex.C.Bin(OpAdd, idx, ex.C.Const(64, uint64(b.Off)))
			ex.set(fr, x, b.Base.extend(PathElem{Kind: PEIndex, Sym: sym}))
		}
	case Ptr:
		if b.Obj == nil {
			return ex.rtPanic("invalid memory address or nil pointer dereference")
		}
		n := int(under(deref(x.X.Type())).(*types.Array).Len())
		if pan := ex.boundsCheck(idx, n); pan != nil {
			return pan
		}
		if idx.IsConst() {
			ex.set(fr, x, b.extend(PathElem{Kind: PEIndex, I: int(idx.Val)}))
		} else {
			ex.set(fr, x, b.extend(PathElem{Kind: PEIndex, Sym: idx}))
		}
	default:
		panic(engineErr("IndexAddr on %T", base))
	}
	return nil
}

func (ex *Exec) indexInstr(fr *frame, x *ssa.Index) *goPanic {
	base := ex.get(fr, x.X)
	idx := ex.idx64(ex.get(fr, x.Index), x.Index.Type())
	switch b := base.(type) {
	case *Array:
		if pan := ex.boundsCheck(idx, len(b.E)); pan != nil {
			return pan
		}
		if idx.IsConst() {
			ex.set(fr, x, b.E[idx.Val])
		} else {
			ex.set(fr, x, ex.getPath(b, []PathElem{{Kind: PEIndex, Sym: idx}}))
		}
	case Str:
		if pan := ex.boundsCheck(idx, len(b.B)); pan != nil {
			return pan
		}
		ex.set(fr, x, ex.strIndex(b, idx))
	default:
		panic(engineErr("Index on %T", base))
	}
	return nil
}

func (ex *Exec) strIndex(s Str, idx *Term) *Term {
	if idx.IsConst() {
		return s.B[idx.Val]
	}
	n := len(s.B)
	acc := s.B[n-1]
	for i := n - 2; i >= 0; i-- {
		acc = ex.C.Ite(ex.C.Eq(idx, ex.C.Const(64, uint64(i))), s.B[i], acc)
	}
	return acc
}

func (ex *Exec) lookupInstr(fr *frame, x *ssa.Lookup) *goPanic {
	base := ex.get(fr, x.X)
	switch b := base.(type) {
	case Str:
		idx := ex.idx64(ex.get(fr, x.Index), x.Index.Type())
		if pan := ex.boundsCheck(idx, len(b.B)); pan != nil {
			return pan
		}
		ex.set(fr, x, ex.strIndex(b, idx))
	case MapRef:
		vt := under(x.X.Type()).(*types.Map).Elem()
		val, found := ex.mapGet(b, ex.get(fr, x.Index), vt)
		if x.CommaOk {
			ex.set(fr, x, Tuple{val, found})
		} else {
			ex.set(fr, x, val)
		}
	default:
		panic(engineErr("Lookup on %T", base))
	}
	return nil
}

func (ex *Exec) optInt(fr *frame, v ssa.Value, def int, hi int) (int, bool) {
	if v == nil {
		return def, true
	}
	t := ex.idx64(ex.get(fr, v), v.Type())
	if t.IsConst() {
		return int(t.SVal()), true
	}
	// symbolic bound: in-range values fork, out of range is a panic path
	inr := ex.C.Cmp(OpULe, t, ex.C.Const(64, uint64(hi)))
	if !ex.branch(inr) {
		return 0, false
	}
	return ex.concretize(t, 0, hi+1), true
}

func (ex *Exec) sliceInstr(fr *frame, x *ssa.Slice) *goPanic {
	base := ex.get(fr, x.X)
	oob := func() *goPanic { return ex.rtPanic("slice bounds out of range") }
	switch b := base.(type) {
	case Str:
		// s[lo:lo+n] with symbolic lo and constant n (table lookups such as
		// miekg's escapeByte): bytes become ite chains instead of a fork per offset
		if x.Low != nil && x.High != nil {
			lt := ex.idx64(ex.get(fr, x.Low), x.Low.Type())
			ht := ex.idx64(ex.get(fr, x.High), x.High.Type())
			if d := ex.C.Bin(OpSub, ht, lt); !lt.IsConst() {
				// the length is usually a single value even when not syntactically constant
				n := int(int64(ex.concretizeAny(d, "string slice length")))
				if n < 0 || n > len(b.B) {
					return oob()
				}
				inb := ex.C.Cmp(OpULe, lt, ex.C.Const(64, uint64(len(b.B)-n)))
				if !ex.branch(inb) {
					return oob()
				}
				out := make([]*Term, n)
				for k := 0; k < n; k++ {
					out[k] = ex.strIndex(b, ex.C.Bin(OpAdd, lt, ex.C.Const(64, uint64(k))))
				}
				ex.set(fr, x, Str{out})
				return nil
			}
		}
		lo, ok1 := ex.optInt(fr, x.Low, 0, len(b.B))
		if !ok1 {
			return oob()
		}
		hi, ok2 := ex.optInt(fr, x.High, len(b.B), len(b.B))
		if !ok2 {
			return oob()
		}
		if lo < 0 || hi < lo || hi > len(b.B) {
			return oob()
		}
		ex.set(fr, x, Str{b.B[lo:hi]})
	case Slice:
		lo, ok1 := ex.optInt(fr, x.Low, 0, b.Cap)
		if !ok1 {
			return oob()
		}
		hi, ok2 := ex.optInt(fr, x.High, b.Len, b.Cap)
		if !ok2 {
			return oob()
		}
		mx, ok3 := ex.optInt(fr, x.Max, b.Cap, b.Cap)
		if !ok3 {
			return oob()
		}
		if lo < 0 || hi < lo || mx < hi || mx > b.Cap {
			return oob()
		}
		if b.IsNil() {
			ex.set(fr, x, Slice{})
			return nil
		}
		ex.set(fr, x, Slice{Base: b.Base, Off: b.Off + lo, Len: hi - lo, Cap: mx - lo})
	case Ptr:
		if b.Obj == nil {
			return ex.rtPanic("invalid memory address or nil pointer dereference")
		}
		n := int(under(deref(x.X.Type())).(*types.Array).Len())
		lo, ok1 := ex.optInt(fr, x.Low, 0, n)
		if !ok1 {
			return oob()
		}
		hi, ok2 := ex.optInt(fr, x.High, n, n)
		if !ok2 {
			return oob()
		}
		mx, ok3 := ex.optInt(fr, x.Max, n, n)
		if !ok3 {
			return oob()
		}
		if lo < 0 || hi < lo || mx < hi || mx > n {
			return oob()
		}
		bp := b
		off := 0
		if len(b.Path) > 0 && b.Path[len(b.Path)-1].Kind == PEWindow {
			w := b.Path[len(b.Path)-1]
			bp = Ptr{b.Obj, b.Path[:len(b.Path)-1]}
			off = w.I
		}
		ex.set(fr, x, Slice{Base: bp, Off: off + lo, Len: hi - lo, Cap: mx - lo})
	default:
		panic(engineErr("Slice on %T", base))
	}
	return nil
}

// ---- maps ----

// keyEq gives the condition under which two map keys are equal.
func (ex *Exec) keyEq(a, b Value) *Term { return ex.equal(a, b) }

func (ex *Exec) mapGet(m MapRef, k Value, vt types.Type) (Value, *Term) {
	if m.Obj == nil {
		return ex.zero(vt), ex.C.False
	}
	md := m.Obj.Val.(*MapData)
	// find: concrete hits resolve immediately; symbolic comparisons fork
	for i := range md.K {
		c := ex.keyEq(md.K[i], k)
		if c.IsConst() {
			if c.Val != 0 {
				return md.V[i], ex.C.True
			}
			continue
		}
		if ex.branch(c) {
			return md.V[i], ex.C.True
		}
	}
	return ex.zero(vt), ex.C.False
}

func (ex *Exec) mapSet(m MapRef, k, v Value) {
	md := m.Obj.Val.(*MapData)
	for i := range md.K {
		c := ex.keyEq(md.K[i], k)
		hit := false
		if c.IsConst() {
			hit = c.Val != 0
		} else {
			hit = ex.branch(c)
		}
		if hit {
			nv := make([]Value, len(md.V))
			copy(nv, md.V)
			nv[i] = v
			ex.setObj(m.Obj, &MapData{K: md.K, V: nv})
			return
		}
	}
	nk := make([]Value, len(md.K)+1)
	nv := make([]Value, len(md.V)+1)
	copy(nk, md.K)
	copy(nv, md.V)
	nk[len(md.K)] = k
	nv[len(md.V)] = v
	ex.setObj(m.Obj, &MapData{K: nk, V: nv})
}

func (ex *Exec) mapDelete(m MapRef, k Value) {
	if m.Obj == nil {
		return
	}
	md := m.Obj.Val.(*MapData)
	for i := range md.K {
		c := ex.keyEq(md.K[i], k)
		hit := false
		if c.IsConst() {
			hit = c.Val != 0
		} else {
			hit = ex.branch(c)
		}
		if hit {
			nk := append(append([]Value{}, md.K[:i]...), md.K[i+1:]...)
			nv := append(append([]Value{}, md.V[:i]...), md.V[i+1:]...)
			ex.setObj(m.Obj, &MapData{K: nk, V: nv})
			return
		}
	}
}

func (ex *Exec) permute(k, v []Value) ([]Value, []Value) {
	n := len(k)
	// choose a permutation index by forking
	fact := 1
	for i := 2; i <= n; i++ {
		fact *= i
	}
	conds := make([]*Term, fact)
	for i := range conds {
		conds[i] = ex.C.True
	}
	p := ex.choose(conds)
	idx := make([]int, n)
	for i := range idx {
		idx[i] = i
	}
	outK := make([]Value, 0, n)
	outV := make([]Value, 0, n)
	for i := n; i >= 1; i-- {
		j := p % i
		p /= i
		outK = append(outK, k[idx[j]])
		outV = append(outV, v[idx[j]])
		idx = append(idx[:j], idx[j+1:]...)
	}
	return outK, outV
}

func (ex *Exec) nextInstr(fr *frame, x *ssa.Next) Value {
	it := ex.get(fr, x.Iter)
	switch r := it.(type) {
	case *mapIter:
		tt := x.Type().(*types.Tuple)
		if r.I >= len(r.K) {
			return Tuple{ex.C.False, ex.zeroOrNil(tt.At(1).Type()), ex.zeroOrNil(tt.At(2).Type())}
		}
		k, v := r.K[r.I], r.V[r.I]
		r.I++
		return Tuple{ex.C.True, k, v}
	case *strIter:
		if r.I >= len(r.S.B) {
			return Tuple{ex.C.False, ex.C.Const(64, 0), ex.C.Const(32, 0)}
		}
		b := r.S.B[r.I]
		i := r.I
		if b.IsConst() && b.Val >= 0x80 {
			// concrete multi-byte rune
			buf := []byte{}
			for j := r.I; j < len(r.S.B) && j < r.I+4; j++ {
				if !r.S.B[j].IsConst() {
					break
				}
				buf = append(buf, byte(r.S.B[j].Val))
			}
			rn, sz := utf8.DecodeRune(buf)
			r.I += sz
			return Tuple{ex.C.True, ex.C.Const(64, uint64(i)), ex.C.Const(32, uint64(rn))}
		}
		if !b.IsConst() {
			if !ex.branch(ex.C.Cmp(OpULt, b, ex.C.Const(8, 0x80))) {
				rn, sz := ex.decodeRuneSym(r.S.B[r.I:])
				r.I += sz
				return Tuple{ex.C.True, ex.C.Const(64, uint64(i)), rn}
			}
		}
		r.I++
		return Tuple{ex.C.True, ex.C.Const(64, uint64(i)), ex.C.ZExt(b, 32)}
	}
	panic(engineErr("Next on %T", it))
}

func (ex *Exec) zeroOrNil(t types.Type) Value {
	if b, ok := t.(*types.Basic); ok && b.Kind() == types.Invalid {
		return nil
	}
	return ex.zero(t)
}

// ---- type assertions ----

func (ex *Exec) implements(dyn types.Type, iface *types.Interface) bool {
	return types.Implements(dyn, iface)
}

func (ex *Exec) typeAssert(fr *frame, x *ssa.TypeAssert) *goPanic {
	v := ex.get(fr, x.X).(Iface)
	ok := false
	var res Value
	if it, isIface := under(x.AssertedType).(*types.Interface); isIface {
		if v.T != nil && ex.implements(v.T, it) {
			ok = true
			res = v
		} else {
			res = Iface{}
		}
	} else {
		if v.T != nil && types.Identical(v.T, x.AssertedType) {
			ok = true
			res = v.V
		} else {
			res = ex.zero(x.AssertedType)
		}
	}
	if x.CommaOk {
		ex.set(fr, x, Tuple{res, ex.C.Bool(ok)})
		return nil
	}
	if !ok {
		ts := "nil"
		if v.T != nil {
			ts = v.T.String()
		}
		return ex.rtPanic(fmt.Sprintf("interface conversion: interface is %s, not %s", ts, x.AssertedType))
	}
	ex.set(fr, x, res)
	return nil
}

// ---- select (non-blocking forms only) ----

func (ex *Exec) selectInstr(fr *frame, x *ssa.Select) *goPanic {
	// result tuple: (index int, recvOk bool, recv_0, ..., recv_n)
	res := Tuple{nil, ex.C.False}
	nrecv := 0
	for _, st := range x.States {
		if st.Dir == types.RecvOnly {
			nrecv++
			res = append(res, ex.zero(under(st.Chan.Type()).(*types.Chan).Elem()))
		}
	}
	ri := 0
	for i, st := range x.States {
		ch := ex.get(fr, st.Chan).(ChanRef)
		if st.Dir == types.RecvOnly {
			ri++
		}
		if ch.Obj == nil {
			continue
		}
		cd := ch.Obj.Val.(*ChanData)
		if st.Dir == types.SendOnly {
			if cd.Closed {
				return &goPanic{val: Iface{T: types.Typ[types.String], V: ex.mkStr("send on closed channel")}, msg: "send on closed channel"}
			}
			if len(cd.Buf) < cd.Cap {
				nb := append(append([]Value{}, cd.Buf...), ex.get(fr, st.Send))
				ex.setObj(ch.Obj, &ChanData{Buf: nb, Cap: cd.Cap})
				res[0] = ex.C.Const(64, uint64(i))
				ex.set(fr, x, res)
				return nil
			}
		} else {
			if len(cd.Buf) > 0 {
				res[1+ri] = cd.Buf[0]
				res[1] = ex.C.True
				ex.setObj(ch.Obj, &ChanData{Buf: append([]Value{}, cd.Buf[1:]...), Cap: cd.Cap, Closed: cd.Closed})
				res[0] = ex.C.Const(64, uint64(i))
				ex.set(fr, x, res)
				return nil
			}
			if cd.Closed {
				res[0] = ex.C.Const(64, uint64(i))
				ex.set(fr, x, res)
				return nil
			}
		}
	}
	if !x.Blocking {
		res[0] = ex.C.Const(64, ^uint64(0))
		ex.set(fr, x, res)
		return nil
	}
	panic(engineErr("blocking select in %s", fr.fn))
}

// ---- builtins ----

func (ex *Exec) callBuiltin(fr *frame, b *ssa.Builtin, args []Value, site ssa.Instruction) (Value, *goPanic) {
	switch b.Name() {
	case "len":
		switch x := args[0].(type) {
		case Str:
			return ex.C.Const(64, uint64(len(x.B))), nil
		case Slice:
			return ex.C.Const(64, uint64(x.Len)), nil
		case MapRef:
			if x.Obj == nil {
				return ex.C.Const(64, 0), nil
			}
			return ex.C.Const(64, uint64(len(x.Obj.Val.(*MapData).K))), nil
		case ChanRef:
			if x.Obj == nil {
				return ex.C.Const(64, 0), nil
			}
			return ex.C.Const(64, uint64(len(x.Obj.Val.(*ChanData).Buf))), nil
		case *Array:
			return ex.C.Const(64, uint64(len(x.E))), nil
		case Ptr:
			// len(*[N]T)
			if site != nil {
				if call, ok := site.(*ssa.Call); ok {
					if at, ok := under(deref(call.Call.Args[0].Type())).(*types.Array); ok {
						return ex.C.Const(64, uint64(at.Len())), nil
					}
				}
			}
		}
		panic(engineErr("len of %T", args[0]))
	case "cap":
		switch x := args[0].(type) {
		case Slice:
			return ex.C.Const(64, uint64(x.Cap)), nil
		case ChanRef:
			if x.Obj == nil {
				return ex.C.Const(64, 0), nil
			}
			return ex.C.Const(64, uint64(x.Obj.Val.(*ChanData).Cap)), nil
		case *Array:
			return ex.C.Const(64, uint64(len(x.E))), nil
		}
		panic(engineErr("cap of %T", args[0]))
	case "append":
		s := args[0].(Slice)
		var add []Value
		switch t := args[1].(type) {
		case Slice:
			add = ex.sliceElems(t)
		case Str:
			add = ex.bytesOfStr(t)
		default:
			panic(engineErr("append of %T", args[1]))
		}
		if len(add) == 0 {
			return s, nil
		}
		newLen := s.Len + len(add)
		if !s.IsNil() && newLen <= s.Cap {
			arr := ex.load(s.Base).(*Array)
			el := make([]Value, len(arr.E))
			copy(el, arr.E)
			copy(el[s.Off+s.Len:], add)
			ex.store(s.Base, &Array{el})
			return Slice{Base: s.Base, Off: s.Off, Len: newLen, Cap: s.Cap}, nil
		}
		var et types.Type
		if call, ok := site.(*ssa.Call); ok {
			et = under(call.Type()).(*types.Slice).Elem()
		} else {
			panic(engineErr("append without call site"))
		}
		newCap := newLen
		if s.Cap*2 > newCap {
			newCap = s.Cap * 2
		}
		if ex.H != nil && ex.H.ExactAppendCap {
			newCap = newLen
		}
		elems := make([]Value, 0, newLen)
		elems = append(elems, ex.sliceElems(s)...)
		elems = append(elems, add...)
		return ex.newSliceFrom(et, elems, newCap), nil
	case "copy":
		dst := args[0].(Slice)
		var src []Value
		switch t := args[1].(type) {
		case Slice:
			src = ex.sliceElems(t)
		case Str:
			src = ex.bytesOfStr(t)
		}
		n := dst.Len
		if len(src) < n {
			n = len(src)
		}
		if n > 0 {
			srcCopy := append([]Value{}, src[:n]...)
			arr := ex.load(dst.Base).(*Array)
			el := make([]Value, len(arr.E))
			copy(el, arr.E)
			copy(el[dst.Off:dst.Off+n], srcCopy)
			ex.store(dst.Base, &Array{el})
		}
		return ex.C.Const(64, uint64(n)), nil
	case "delete":
		ex.mapDelete(args[0].(MapRef), args[1])
		return nil, nil
	case "clear":
		switch x := args[0].(type) {
		case MapRef:
			if x.Obj != nil {
				ex.setObj(x.Obj, &MapData{})
			}
		case Slice:
			if x.Len > 0 {
				arr := ex.load(x.Base).(*Array)
				el := make([]Value, len(arr.E))
				copy(el, arr.E)
				call := site.(*ssa.Call)
				z := ex.zero(under(call.Call.Args[0].Type()).(*types.Slice).Elem())
				for i := 0; i < x.Len; i++ {
					el[x.Off+i] = z
				}
				ex.store(x.Base, &Array{el})
			}
		}
		return nil, nil
	case "close":
		ch := args[0].(ChanRef)
		if ch.Obj == nil {
			return nil, ex.rtPanic("close of nil channel")
		}
		cd := ch.Obj.Val.(*ChanData)
		if cd.Closed {
			return nil, &goPanic{val: Iface{T: types.Typ[types.String], V: ex.mkStr("close of closed channel")}, msg: "close of closed channel"}
		}
		ex.setObj(ch.Obj, &ChanData{Buf: cd.Buf, Cap: cd.Cap, Closed: true})
		return nil, nil
	case "min", "max":
		call := site.(*ssa.Call)
		t := call.Type()
		acc := args[0]
		for _, a := range args[1:] {
			switch x := acc.(type) {
			case *Term:
				y := a.(*Term)
				var lt *Term
				if isUnsigned(t) {
					lt = ex.C.Cmp(OpULt, x, y)
				} else {
					lt = ex.C.Cmp(OpSLt, x, y)
				}
				if b.Name() == "min" {
					acc = ex.C.Ite(lt, x, y)
				} else {
					acc = ex.C.Ite(lt, y, x)
				}
			case Float:
				y := a.(Float)
				if (b.Name() == "min") == (x.F < y.F) {
					acc = x
				} else {
					acc = y
				}
			default:
				panic(engineErr("min/max on %T", acc))
			}
		}
		return acc, nil
	case "print", "println":
		return nil, nil
	case "recover":
		// valid only when called directly by a deferred function
		if fr != nil && fr.deferOf != nil && fr.deferOf.panicV != nil {
			p := fr.deferOf.panicV
			fr.deferOf.panicV = nil
			ex.lastRecovered = p
			if iv, ok := p.val.(Iface); ok {
				return iv, nil
			}
			return Iface{T: types.Typ[types.String], V: ex.mkStr(p.msg)}, nil
		}
		return Iface{}, nil
	case "ssa:wrapnilchk":
		p := args[0].(Ptr)
		if p.Obj == nil {
			return nil, ex.rtPanic("value method called using nil pointer")
		}
		return p, nil
	case "String": // unsafe.String(ptr, len)
		p := args[0].(Ptr)
		n := ex.concretize(args[1].(*Term), 0, 4096)
		if n == 0 {
			return Str{}, nil
		}
		s := ex.sliceFromElemPtr(p, n)
		return ex.strOfBytes(ex.sliceElems(s)), nil
	case "StringData":
		s := args[0].(Str)
		if len(s.B) == 0 {
			return Ptr{}, nil
		}
		sl := ex.newSliceFrom(types.Typ[types.Uint8], ex.bytesOfStr(s), len(s.B))
		return sl.elemPtr(0), nil
	case "Slice": // unsafe.Slice(ptr, len)
		p := args[0].(Ptr)
		n := ex.concretize(ex.idx64(args[1], types.Typ[types.Int]), 0, 4096)
		if p.Obj == nil {
			return Slice{}, nil
		}
		return ex.sliceFromElemPtr(p, n), nil
	case "SliceData":
		s := args[0].(Slice)
		if s.IsNil() || s.Cap == 0 {
			return Ptr{}, nil
		}
		return s.elemPtr(0), nil
	case "Add", "Offsetof", "Sizeof", "Alignof":
		panic(engineErr("unsafe.%s not supported", b.Name()))
	}
	panic(engineErr("unsupported builtin %s", b.Name()))
}

// sliceFromElemPtr turns a pointer to an array element into a slice of n elements starting there.
func (ex *Exec) sliceFromElemPtr(p Ptr, n int) Slice {
	if len(p.Path) == 0 {
		// pointer to a whole object used as 1-element array: only for n<=1 of a scalar object
		panic(engineErr("unsafe.Slice/String from non-element pointer"))
	}
	last := p.Path[len(p.Path)-1]
	if last.Kind != PEIndex || last.Sym != nil {
		panic(engineErr("unsafe.Slice/String from non-index pointer"))
	}
	base := Ptr{p.Obj, p.Path[:len(p.Path)-1]}
	arr := ex.load(base).(*Array)
	if last.I+n > len(arr.E) {
		panic(engineErr("unsafe.Slice/String beyond backing array"))
	}
	return Slice{Base: base, Off: last.I, Len: n, Cap: len(arr.E) - last.I}
}

// decodeRuneSym decodes one UTF-8 sequence whose lead byte is symbolic and
// known to be >= 0x80, exactly as utf8.DecodeRune does (RuneError, width 1
// for anything malformed), forking on the lead-byte class and on validity.
func (ex *Exec) decodeRuneSym(bs []*Term) (*Term, int) {
	c := ex.C
	b0 := bs[0]
	bad := func() (*Term, int) { return c.Const(32, 0xFFFD), 1 }
	in := func(x *Term, lo, hi uint64) *Term {
		return c.And(c.Cmp(OpULe, c.Const(8, lo), x), c.Cmp(OpULe, x, c.Const(8, hi)))
	}
	cont := func(x *Term) *Term { return in(x, 0x80, 0xBF) }
	low6 := func(x *Term) *Term { return c.ZExt(c.Bin(OpBVAnd, x, c.Const(8, 0x3F)), 32) }
	sh := func(x *Term, n uint64) *Term { return c.Bin(OpShl, x, c.Const(32, n)) }
	or := func(a, b *Term) *Term { return c.Bin(OpBVOr, a, b) }
	switch {
	case ex.branch(in(b0, 0xC2, 0xDF)):
		if len(bs) < 2 || !ex.branch(cont(bs[1])) {
			return bad()
		}
		hi := c.ZExt(c.Bin(OpBVAnd, b0, c.Const(8, 0x1F)), 32)
		return or(sh(hi, 6), low6(bs[1])), 2
	case ex.branch(in(b0, 0xE0, 0xEF)):
		if len(bs) < 3 {
			return bad()
		}
		lo, hiB := uint64(0x80), uint64(0xBF)
		if ex.branch(c.Eq(b0, c.Const(8, 0xE0))) {
			lo = 0xA0
		} else if ex.branch(c.Eq(b0, c.Const(8, 0xED))) {
			hiB = 0x9F
		}
		if !ex.branch(c.And(in(bs[1], lo, hiB), cont(bs[2]))) {
			return bad()
		}
		hi := c.ZExt(c.Bin(OpBVAnd, b0, c.Const(8, 0x0F)), 32)
		return or(or(sh(hi, 12), sh(low6(bs[1]), 6)), low6(bs[2])), 3
	case ex.branch(in(b0, 0xF0, 0xF4)):
		if len(bs) < 4 {
			return bad()
		}
		lo, hiB := uint64(0x80), uint64(0xBF)
		if ex.branch(c.Eq(b0, c.Const(8, 0xF0))) {
			lo = 0x90
		} else if ex.branch(c.Eq(b0, c.Const(8, 0xF4))) {
			hiB = 0x8F
		}
		if !ex.branch(c.And(c.And(in(bs[1], lo, hiB), cont(bs[2])), cont(bs[3]))) {
			return bad()
		}
		hi := c.ZExt(c.Bin(OpBVAnd, b0, c.Const(8, 0x07)), 32)
		return or(or(or(sh(hi, 18), sh(low6(bs[1]), 12)), sh(low6(bs[2]), 6)), low6(bs[3])), 4
	}
	return bad()
}
