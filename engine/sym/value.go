package sym

import (
	"fmt"
	"go/types"
	"strings"

	"golang.org/x/tools/go/ssa"
)

// Value is a run-time value of the symbolic interpreter. All values are
// immutable; memory is a set of Objects whose root value is replaced on write.
//
//	*Term     bool / integer scalar
//	Float     concrete float
//	Ptr       pointer (concrete object, path with possibly symbolic indices)
//	*Struct   struct value
//	*Array    array value
//	Slice     slice header (concrete off/len/cap)
//	Str       string (concrete length, symbolic bytes)
//	Iface     interface (concrete dynamic type)
//	*Closure  function value
//	MapRef    map
//	ChanRef   channel
//	Tuple     multi-value
type Value interface{}

type Object struct {
	ID         int
	Val        Value
	Typ        types.Type
	Persistent bool
	Label      string
}

type PEKind uint8

const (
	PEField PEKind = iota
	PEIndex
	PEWindow // sub-array view [I, I+N) of an array
)

type PathElem struct {
	Kind PEKind
	I    int
	N    int
	Sym  *Term // symbolic index (64-bit), only for PEIndex
}

type Ptr struct {
	Obj  *Object
	Path []PathElem
}

func (p Ptr) IsNil() bool { return p.Obj == nil }

func (p Ptr) extend(e PathElem) Ptr {
	if e.Kind == PEIndex && len(p.Path) > 0 && p.Path[len(p.Path)-1].Kind == PEWindow {
		w := p.Path[len(p.Path)-1]
		np := make([]PathElem, len(p.Path))
		copy(np, p.Path)
		if e.Sym != nil {
			panic(engineErr("symbolic index through array window"))
		}
		np[len(np)-1] = PathElem{Kind: PEIndex, I: w.I + e.I}
		return Ptr{p.Obj, np}
	}
	np := make([]PathElem, len(p.Path)+1)
	copy(np, p.Path)
	np[len(p.Path)] = e
	return Ptr{p.Obj, np}
}

type Struct struct{ F []Value }
type Array struct{ E []Value }

type Slice struct {
	Base          Ptr // pointer to the backing *Array (Obj==nil for nil slice)
	Off, Len, Cap int
}

func (s Slice) IsNil() bool { return s.Base.Obj == nil }

type Str struct{ B []*Term }

// Poison is the content of a global that belongs to a package whose init the
// engine does not execute and that init would have assigned: its real initial
// value is not modelled, so any read (or partial write) is an engine error
// rather than a silent zero. A whole-object store replaces it.
type Poison struct {
	Name string
	G    *ssa.Global
}

type Iface struct {
	T types.Type
	V Value
}

type Closure struct {
	Fn      *ssa.Function
	Bind    []Value
	Builtin *ssa.Builtin
	Native  func(ex *Exec, args []Value) Value
}

type MapRef struct{ Obj *Object }
type MapData struct {
	K []Value
	V []Value
}
type ChanRef struct{ Obj *Object }
type ChanData struct {
	Buf    []Value
	Cap    int
	Closed bool
}
type Float struct{ F float64 }
type Complex struct{ C complex128 }
type Tuple []Value

// mapIter / strIter back the Range instruction.
type mapIter struct {
	K, V []Value
	I    int
}
type strIter struct {
	S Str
	I int
}

type engineError struct{ msg string }

func engineErr(format string, a ...interface{}) engineError {
	return engineError{fmt.Sprintf(format, a...)}
}

// pathAbort ends the current path silently (infeasible / assumed away / cut).
type pathAbort struct{ why string }

func under(t types.Type) types.Type {
	for {
		u := t.Underlying()
		if u == t {
			return u
		}
		t = u
	}
}

func isUnsigned(t types.Type) bool {
	b, ok := under(t).(*types.Basic)
	return ok && b.Info()&types.IsUnsigned != 0
}

func isInteger(t types.Type) bool {
	b, ok := under(t).(*types.Basic)
	return ok && b.Info()&types.IsInteger != 0
}

func isFloat(t types.Type) bool {
	b, ok := under(t).(*types.Basic)
	return ok && b.Info()&types.IsFloat != 0
}

func isString(t types.Type) bool {
	b, ok := under(t).(*types.Basic)
	return ok && b.Info()&types.IsString != 0
}

func isBool(t types.Type) bool {
	b, ok := under(t).(*types.Basic)
	return ok && b.Info()&types.IsBoolean != 0
}

// widthOf gives the bit width of a scalar type (0 = bool), -1 if not scalar.
func widthOf(t types.Type) int {
	b, ok := under(t).(*types.Basic)
	if !ok {
		return -1
	}
	switch b.Kind() {
	case types.Bool, types.UntypedBool:
		return 0
	case types.Int8, types.Uint8:
		return 8
	case types.Int16, types.Uint16:
		return 16
	case types.Int32, types.Uint32, types.UntypedRune:
		return 32
	case types.Int64, types.Uint64, types.Int, types.Uint, types.Uintptr, types.UntypedInt:
		return 64
	}
	return -1
}

func (ex *Exec) zero(t types.Type) Value {
	switch u := under(t).(type) {
	case *types.Basic:
		switch {
		case u.Info()&types.IsBoolean != 0:
			return ex.C.False
		case u.Info()&types.IsInteger != 0:
			return ex.C.Const(widthOf(u), 0)
		case u.Info()&types.IsFloat != 0:
			return Float{0}
		case u.Info()&types.IsComplex != 0:
			return Complex{0}
		case u.Info()&types.IsString != 0:
			return Str{}
		case u.Kind() == types.UnsafePointer:
			return Ptr{}
		case u.Kind() == types.UntypedNil:
			return Ptr{}
		}
	case *types.Pointer:
		return Ptr{}
	case *types.Struct:
		f := make([]Value, u.NumFields())
		for i := range f {
			f[i] = ex.zero(u.Field(i).Type())
		}
		return &Struct{f}
	case *types.Array:
		n := int(u.Len())
		e := make([]Value, n)
		if n > 0 {
			z := ex.zero(u.Elem())
			for i := range e {
				e[i] = z
			}
		}
		return &Array{e}
	case *types.Slice:
		return Slice{}
	case *types.Map:
		return MapRef{}
	case *types.Chan:
		return ChanRef{}
	case *types.Interface:
		return Iface{}
	case *types.Signature:
		return (*Closure)(nil)
	case *types.Tuple:
		tv := make(Tuple, u.Len())
		for i := range tv {
			tv[i] = ex.zero(u.At(i).Type())
		}
		return tv
	}
	panic(engineErr("zero: unsupported type %s", t))
}

func (ex *Exec) newObj(t types.Type, v Value, label string) *Object {
	if ex.persistMode {
		ex.persistSeq++
		return &Object{ID: 1<<40 + ex.persistSeq, Val: v, Typ: t, Persistent: true, Label: label}
	}
	ex.objSeq++
	return &Object{ID: ex.objSeq, Val: v, Typ: t, Label: label}
}

func (ex *Exec) setObj(o *Object, v Value) {
	if ex.speculating > 0 && (o.Persistent || o.ID <= ex.specWatermark) {
		panic(specAbort{}) // write barrier: speculation may only write objects it allocated
	}
	if o.Persistent && !ex.persistMode {
		ex.undo = append(ex.undo, undoRec{o, o.Val})
	}
	o.Val = v
}

// ---- string helpers ----

func (ex *Exec) mkStr(s string) Str {
	b := make([]*Term, len(s))
	for i := 0; i < len(s); i++ {
		b[i] = ex.C.Const(8, uint64(s[i]))
	}
	return Str{b}
}

func concreteStr(s Str) (string, bool) {
	var sb strings.Builder
	for _, t := range s.B {
		if !t.IsConst() {
			return "", false
		}
		sb.WriteByte(byte(t.Val))
	}
	return sb.String(), true
}

func (ex *Exec) mustConcreteStr(v Value, what string) string {
	s, ok := concreteStr(v.(Str))
	if !ok {
		panic(engineErr("%s: string must be concrete", what))
	}
	return s
}

// ---- merging ----

// merge builds ite(c, a, b) structurally; ok=false if shapes differ.
func (ex *Exec) merge(c *Term, a, b Value) (Value, bool) {
	if c.IsConst() {
		if c.Val != 0 {
			return a, true
		}
		return b, true
	}
	switch x := a.(type) {
	case *Term:
		y, ok := b.(*Term)
		if !ok || x.W != y.W {
			return nil, false
		}
		return ex.C.Ite(c, x, y), true
	case *Struct:
		y, ok := b.(*Struct)
		if !ok || len(x.F) != len(y.F) {
			return nil, false
		}
		if x == y {
			return x, true
		}
		f := make([]Value, len(x.F))
		for i := range f {
			v, ok := ex.merge(c, x.F[i], y.F[i])
			if !ok {
				return nil, false
			}
			f[i] = v
		}
		return &Struct{f}, true
	case *Array:
		y, ok := b.(*Array)
		if !ok || len(x.E) != len(y.E) {
			return nil, false
		}
		if x == y {
			return x, true
		}
		e := make([]Value, len(x.E))
		for i := range e {
			v, ok := ex.merge(c, x.E[i], y.E[i])
			if !ok {
				return nil, false
			}
			e[i] = v
		}
		return &Array{e}, true
	case Str:
		y, ok := b.(Str)
		if !ok || len(x.B) != len(y.B) {
			return nil, false
		}
		bs := make([]*Term, len(x.B))
		for i := range bs {
			bs[i] = ex.C.Ite(c, x.B[i], y.B[i])
		}
		return Str{bs}, true
	case Ptr:
		y, ok := b.(Ptr)
		if ok && ptrIdentical(x, y) {
			return x, true
		}
		return nil, false
	case Slice:
		y, ok := b.(Slice)
		if ok && ptrIdentical(x.Base, y.Base) && x.Off == y.Off && x.Len == y.Len && x.Cap == y.Cap {
			return x, true
		}
		return nil, false
	case Iface:
		y, ok := b.(Iface)
		if !ok {
			return nil, false
		}
		if x.T == nil && y.T == nil {
			return x, true
		}
		if x.T == nil || y.T == nil || !types.Identical(x.T, y.T) {
			return nil, false
		}
		v, ok := ex.merge(c, x.V, y.V)
		if !ok {
			return nil, false
		}
		return Iface{x.T, v}, true
	case Float:
		y, ok := b.(Float)
		if ok && x.F == y.F {
			return x, true
		}
		return nil, false
	case MapRef:
		y, ok := b.(MapRef)
		if ok && x.Obj == y.Obj {
			return x, true
		}
		return nil, false
	case ChanRef:
		y, ok := b.(ChanRef)
		if ok && x.Obj == y.Obj {
			return x, true
		}
		return nil, false
	case *Closure:
		y, ok := b.(*Closure)
		if ok && x == y {
			return x, true
		}
		return nil, false
	case Tuple:
		y, ok := b.(Tuple)
		if !ok || len(x) != len(y) {
			return nil, false
		}
		tv := make(Tuple, len(x))
		for i := range tv {
			v, ok := ex.merge(c, x[i], y[i])
			if !ok {
				return nil, false
			}
			tv[i] = v
		}
		return tv, true
	case ReflType:
		y, ok := b.(ReflType)
		if ok && types.Identical(x.T, y.T) {
			return x, true
		}
		return nil, false
	case nil:
		if b == nil {
			return nil, true
		}
	}
	return nil, false
}

func ptrIdentical(a, b Ptr) bool {
	if a.Obj != b.Obj || len(a.Path) != len(b.Path) {
		return false
	}
	for i := range a.Path {
		if a.Path[i] != b.Path[i] {
			return false
		}
	}
	return true
}

// ---- path get / set ----

func (ex *Exec) getPath(v Value, path []PathElem) Value {
	if pz, ok := v.(Poison); ok {
		panic(engineErr("read of %s: its package's init is not executed by the engine, so its initial value is not modelled (force the init with //verif:init, assign it in the harness, or stub the reader)", pz.Name))
	}
	for k, e := range path {
		switch e.Kind {
		case PEField:
			v = v.(*Struct).F[e.I]
		case PEWindow:
			a := v.(*Array)
			v = &Array{a.E[e.I : e.I+e.N]}
		case PEIndex:
			a, ok := v.(*Array)
			if !ok {
				panic(engineErr("getPath: index into non-array %T", v))
			}
			if e.Sym == nil {
				v = a.E[e.I]
				continue
			}
			rest := path[k+1:]
			n := len(a.E)
			if n == 0 {
				panic(engineErr("getPath: symbolic index into empty array"))
			}
			// ite chain from the back; the bounds check was done at IndexAddr
			acc := ex.getPath(a.E[n-1], rest)
			for i := n - 2; i >= 0; i-- {
				c := ex.C.Eq(e.Sym, ex.C.Const(64, uint64(i)))
				m, ok := ex.merge(c, ex.getPath(a.E[i], rest), acc)
				if !ok {
					// fall back to forking on the index
					ci := ex.concretize(e.Sym, 0, n)
					return ex.getPath(a.E[ci], rest)
				}
				acc = m
			}
			return acc
		}
	}
	return v
}

func (ex *Exec) setPath(v Value, path []PathElem, nv Value) Value {
	if len(path) == 0 {
		return nv
	}
	if pz, ok := v.(Poison); ok {
		panic(engineErr("partial write to %s: its package's init is not executed by the engine, so its initial value is not modelled", pz.Name))
	}
	e := path[0]
	switch e.Kind {
	case PEField:
		s := v.(*Struct)
		f := make([]Value, len(s.F))
		copy(f, s.F)
		f[e.I] = ex.setPath(s.F[e.I], path[1:], nv)
		return &Struct{f}
	case PEWindow:
		a := v.(*Array)
		sub := ex.setPath(&Array{a.E[e.I : e.I+e.N]}, path[1:], nv).(*Array)
		el := make([]Value, len(a.E))
		copy(el, a.E)
		copy(el[e.I:e.I+e.N], sub.E)
		return &Array{el}
	case PEIndex:
		a, ok := v.(*Array)
		if !ok {
			panic(engineErr("setPath: index into non-array %T", v))
		}
		el := make([]Value, len(a.E))
		copy(el, a.E)
		if e.Sym == nil {
			el[e.I] = ex.setPath(a.E[e.I], path[1:], nv)
			return &Array{el}
		}
		for i := range el {
			c := ex.C.Eq(e.Sym, ex.C.Const(64, uint64(i)))
			upd := ex.setPath(a.E[i], path[1:], nv)
			m, ok := ex.merge(c, upd, a.E[i])
			if !ok {
				ci := ex.concretize(e.Sym, 0, len(el))
				copy(el, a.E)
				el[ci] = ex.setPath(a.E[ci], path[1:], nv)
				return &Array{el}
			}
			el[i] = m
		}
		return &Array{el}
	}
	panic("setPath")
}

func (ex *Exec) load(p Ptr) Value {
	if p.Obj == nil {
		panic(engineErr("load through nil pointer (unchecked)"))
	}
	if pz, ok := p.Obj.Val.(Poison); ok {
		ex.lazyInitGlobal(pz, p.Obj)
	}
	return ex.getPath(p.Obj.Val, p.Path)
}

func (ex *Exec) store(p Ptr, v Value) {
	if p.Obj == nil {
		panic(engineErr("store through nil pointer (unchecked)"))
	}
	if pz, ok := p.Obj.Val.(Poison); ok && len(p.Path) > 0 {
		ex.lazyInitGlobal(pz, p.Obj)
	}
	ex.setObj(p.Obj, ex.setPath(p.Obj.Val, p.Path, v))
}

// sliceElemPtr gives the pointer to element i (concrete) of s.
func (s Slice) elemPtr(i int) Ptr {
	return s.Base.extend(PathElem{Kind: PEIndex, I: s.Off + i})
}

// sliceElems reads the elements of a slice as values.
func (ex *Exec) sliceElems(s Slice) []Value {
	if s.Len == 0 {
		return nil
	}
	a := ex.load(s.Base).(*Array)
	return a.E[s.Off : s.Off+s.Len]
}

func (ex *Exec) newSliceFrom(elemT types.Type, elems []Value, cap int) Slice {
	if cap < len(elems) {
		cap = len(elems)
	}
	e := make([]Value, cap)
	copy(e, elems)
	if cap > len(elems) {
		z := ex.zero(elemT)
		for i := len(elems); i < cap; i++ {
			e[i] = z
		}
	}
	o := ex.newObj(types.NewArray(elemT, int64(cap)), &Array{e}, "slice")
	return Slice{Base: Ptr{Obj: o}, Off: 0, Len: len(elems), Cap: cap}
}

func (ex *Exec) bytesOfStr(s Str) []Value {
	v := make([]Value, len(s.B))
	for i, b := range s.B {
		v[i] = b
	}
	return v
}

func (ex *Exec) strOfBytes(vs []Value) Str {
	b := make([]*Term, len(vs))
	for i, v := range vs {
		b[i] = v.(*Term)
	}
	return Str{b}
}

func describe(v Value) string {
	switch x := v.(type) {
	case *Term:
		return x.String()
	case Str:
		if s, ok := concreteStr(x); ok {
			return fmt.Sprintf("%q", s)
		}
		return fmt.Sprintf("str[%d]", len(x.B))
	case Ptr:
		if x.Obj == nil {
			return "nil"
		}
		return fmt.Sprintf("&obj%d%v", x.Obj.ID, x.Path)
	case Iface:
		if x.T == nil {
			return "nil-iface"
		}
		return fmt.Sprintf("iface(%s:%s)", x.T, describe(x.V))
	case *Struct:
		var sb strings.Builder
		sb.WriteString("{")
		for i, f := range x.F {
			if i > 0 {
				sb.WriteString(", ")
			}
			if sb.Len() > 400 {
				sb.WriteString("...")
				break
			}
			sb.WriteString(describe(f))
		}
		sb.WriteString("}")
		return sb.String()
	}
	return fmt.Sprintf("%T", v)
}
