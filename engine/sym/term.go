// Package sym is the symbolic executor: Go SSA -> SMT-LIB2.
package sym

import (
	"fmt"
	"math/bits"
	"strings"
)

// Op is a term operator.
type Op uint8

const (
	OpConst Op = iota
	OpVar
	OpNot
	OpAnd
	OpOr
	OpEq
	OpIte
	OpAdd
	OpSub
	OpMul
	OpUDiv
	OpURem
	OpSDiv
	OpSRem
	OpBVAnd
	OpBVOr
	OpBVXor
	OpShl
	OpLShr
	OpAShr
	OpBVNot
	OpNeg
	OpULt
	OpULe
	OpSLt
	OpSLe
	OpZExt
	OpSExt
	OpExtract // val = hi<<8|lo
	OpConcat
	OpUF // name = function name
)

var opNames = map[Op]string{
	OpNot: "not", OpAnd: "and", OpOr: "or", OpEq: "=", OpIte: "ite",
	OpAdd: "bvadd", OpSub: "bvsub", OpMul: "bvmul", OpUDiv: "bvudiv", OpURem: "bvurem",
	OpSDiv: "bvsdiv", OpSRem: "bvsrem", OpBVAnd: "bvand", OpBVOr: "bvor", OpBVXor: "bvxor",
	OpShl: "bvshl", OpLShr: "bvlshr", OpAShr: "bvashr", OpBVNot: "bvnot", OpNeg: "bvneg",
	OpULt: "bvult", OpULe: "bvule", OpSLt: "bvslt", OpSLe: "bvsle", OpConcat: "concat",
}

// Term is a hash-consed SMT term. W == 0 means Bool, otherwise a bit-vector
// of W bits (W <= 64 for everything the executor folds; wider only via
// zext/concat for 128-bit multiply and never constant-folded).
type Term struct {
	ID   int
	Op   Op
	W    int
	Args []*Term
	Val  uint64
	Name string
}

// Ctx owns the term table. One per worker.
type Ctx struct {
	table   map[string]*Term
	terms   []*Term
	True    *Term
	False   *Term
	ufs     map[string]string // name -> declaration
	ufOrd   []string
	lowMemo map[uint64]*Term
}

func NewCtx() *Ctx {
	c := &Ctx{table: map[string]*Term{}, ufs: map[string]string{}, lowMemo: map[uint64]*Term{}}
	c.True = c.mk(OpConst, 0, nil, 1, "")
	c.False = c.mk(OpConst, 0, nil, 0, "")
	return c
}

func (c *Ctx) NumTerms() int { return len(c.terms) }

func (c *Ctx) mk(op Op, w int, args []*Term, val uint64, name string) *Term {
	var sb strings.Builder
	sb.Grow(16 + 8*len(args))
	sb.WriteByte(byte(op))
	sb.WriteByte(byte(w))
	sb.WriteByte(byte(w >> 8))
	for i := 0; i < 8; i++ {
		sb.WriteByte(byte(val >> (8 * i)))
	}
	for _, a := range args {
		id := a.ID
		sb.WriteByte(byte(id))
		sb.WriteByte(byte(id >> 8))
		sb.WriteByte(byte(id >> 16))
		sb.WriteByte(byte(id >> 24))
	}
	sb.WriteString(name)
	k := sb.String()
	if t, ok := c.table[k]; ok {
		return t
	}
	t := &Term{ID: len(c.terms), Op: op, W: w, Args: args, Val: val, Name: name}
	c.terms = append(c.terms, t)
	c.table[k] = t
	return t
}

func mask(w int) uint64 {
	if w >= 64 {
		return ^uint64(0)
	}
	return (uint64(1) << uint(w)) - 1
}

func (t *Term) IsConst() bool { return t.Op == OpConst }
func (t *Term) IsBool() bool  { return t.W == 0 }

// SVal is the constant as a sign-extended int64.
func (t *Term) SVal() int64 {
	if t.W >= 64 || t.W == 0 {
		return int64(t.Val)
	}
	sh := uint(64 - t.W)
	return int64(t.Val<<sh) >> sh
}

func (c *Ctx) Bool(b bool) *Term {
	if b {
		return c.True
	}
	return c.False
}

func (c *Ctx) Const(w int, v uint64) *Term {
	if w == 0 {
		return c.Bool(v != 0)
	}
	if w > 64 {
		panic("const wider than 64")
	}
	return c.mk(OpConst, w, nil, v&mask(w), "")
}

func (c *Ctx) Var(name string, w int) *Term {
	return c.mk(OpVar, w, nil, 0, name)
}

// UF applies an uninterpreted function.
func (c *Ctx) UF(name string, w int, args ...*Term) *Term {
	var sig strings.Builder
	sig.WriteString("(")
	for i, a := range args {
		if i > 0 {
			sig.WriteByte(' ')
		}
		sig.WriteString(sortStr(a.W))
	}
	sig.WriteString(") ")
	sig.WriteString(sortStr(w))
	full := fmt.Sprintf("%s_%d", name, len(args))
	if old, ok := c.ufs[full]; ok {
		if old != sig.String() {
			panic("UF redeclared with different signature: " + full)
		}
	} else {
		c.ufs[full] = sig.String()
		c.ufOrd = append(c.ufOrd, full)
	}
	if len(args) == 0 {
		return c.Var("uf!"+full, w)
	}
	return c.mk(OpUF, w, args, 0, full)
}

func sortStr(w int) string {
	if w == 0 {
		return "Bool"
	}
	return fmt.Sprintf("(_ BitVec %d)", w)
}

func (c *Ctx) Not(a *Term) *Term {
	if a.W != 0 {
		panic("Not on non-bool")
	}
	if a.IsConst() {
		return c.Bool(a.Val == 0)
	}
	if a.Op == OpNot {
		return a.Args[0]
	}
	return c.mk(OpNot, 0, []*Term{a}, 0, "")
}

func (c *Ctx) And(a, b *Term) *Term {
	if a.IsConst() {
		if a.Val == 0 {
			return c.False
		}
		return b
	}
	if b.IsConst() {
		if b.Val == 0 {
			return c.False
		}
		return a
	}
	if a == b {
		return a
	}
	if (a.Op == OpNot && a.Args[0] == b) || (b.Op == OpNot && b.Args[0] == a) {
		return c.False
	}
	if a.ID > b.ID {
		a, b = b, a
	}
	return c.mk(OpAnd, 0, []*Term{a, b}, 0, "")
}

func (c *Ctx) Or(a, b *Term) *Term {
	if a.IsConst() {
		if a.Val != 0 {
			return c.True
		}
		return b
	}
	if b.IsConst() {
		if b.Val != 0 {
			return c.True
		}
		return a
	}
	if a == b {
		return a
	}
	if (a.Op == OpNot && a.Args[0] == b) || (b.Op == OpNot && b.Args[0] == a) {
		return c.True
	}
	if a.ID > b.ID {
		a, b = b, a
	}
	return c.mk(OpOr, 0, []*Term{a, b}, 0, "")
}

func (c *Ctx) AndN(ts ...*Term) *Term {
	r := c.True
	for _, t := range ts {
		r = c.And(r, t)
	}
	return r
}

func (c *Ctx) Implies(a, b *Term) *Term { return c.Or(c.Not(a), b) }

func (c *Ctx) Eq(a, b *Term) *Term {
	if a.W != b.W {
		panic(fmt.Sprintf("Eq width mismatch %d vs %d", a.W, b.W))
	}
	if a == b {
		return c.True
	}
	if a.IsConst() && b.IsConst() {
		return c.Bool(a.Val == b.Val)
	}
	if a.W == 0 {
		if a.IsConst() {
			if a.Val != 0 {
				return b
			}
			return c.Not(b)
		}
		if b.IsConst() {
			if b.Val != 0 {
				return a
			}
			return c.Not(a)
		}
	}
	// ite(c, k1, k2) == k  with constants
	if b.IsConst() && a.Op == OpIte && a.Args[1].IsConst() && a.Args[2].IsConst() {
		t, e := a.Args[1].Val == b.Val, a.Args[2].Val == b.Val
		switch {
		case t && e:
			return c.True
		case t:
			return a.Args[0]
		case e:
			return c.Not(a.Args[0])
		default:
			return c.False
		}
	}
	if a.IsConst() && b.Op == OpIte && b.Args[1].IsConst() && b.Args[2].IsConst() {
		return c.Eq(b, a)
	}
	// zext(x) == const
	if b.IsConst() && a.Op == OpZExt {
		x := a.Args[0]
		if b.Val > mask(x.W) {
			return c.False
		}
		return c.Eq(x, c.Const(x.W, b.Val))
	}
	if a.IsConst() && b.Op == OpZExt {
		return c.Eq(b, a)
	}
	if a.Op == OpZExt && b.Op == OpZExt && a.Args[0].W == b.Args[0].W {
		return c.Eq(a.Args[0], b.Args[0])
	}
	if a.ID > b.ID {
		a, b = b, a
	}
	return c.mk(OpEq, 0, []*Term{a, b}, 0, "")
}

func (c *Ctx) Ne(a, b *Term) *Term { return c.Not(c.Eq(a, b)) }

func (c *Ctx) Ite(cond, a, b *Term) *Term {
	if a.W != b.W {
		panic(fmt.Sprintf("Ite width mismatch %d vs %d", a.W, b.W))
	}
	if cond.IsConst() {
		if cond.Val != 0 {
			return a
		}
		return b
	}
	if a == b {
		return a
	}
	if a.W == 0 {
		if a.IsConst() && b.IsConst() {
			if a.Val != 0 {
				return cond
			}
			return c.Not(cond)
		}
		if a.IsConst() {
			if a.Val != 0 {
				return c.Or(cond, b)
			}
			return c.And(c.Not(cond), b)
		}
		if b.IsConst() {
			if b.Val != 0 {
				return c.Or(c.Not(cond), a)
			}
			return c.And(cond, a)
		}
	}
	if cond.Op == OpNot {
		return c.mk(OpIte, a.W, []*Term{cond.Args[0], b, a}, 0, "")
	}
	return c.mk(OpIte, a.W, []*Term{cond, a, b}, 0, "")
}

func signExt(v uint64, w int) int64 {
	if w >= 64 {
		return int64(v)
	}
	sh := uint(64 - w)
	return int64(v<<sh) >> sh
}

// Bin builds a bit-vector binary operation.
func (c *Ctx) Bin(op Op, a, b *Term) *Term {
	if a.W != b.W || a.W == 0 {
		panic(fmt.Sprintf("Bin %s width mismatch %d vs %d", opNames[op], a.W, b.W))
	}
	w := a.W
	if a.IsConst() && b.IsConst() && w <= 64 {
		x, y := a.Val, b.Val
		m := mask(w)
		var r uint64
		switch op {
		case OpAdd:
			r = x + y
		case OpSub:
			r = x - y
		case OpMul:
			r = x * y
		case OpUDiv:
			if y == 0 {
				r = m
			} else {
				r = x / y
			}
		case OpURem:
			if y == 0 {
				r = x
			} else {
				r = x % y
			}
		case OpSDiv:
			sx, sy := signExt(x, w), signExt(y, w)
			if sy == 0 {
				if sx >= 0 {
					r = m
				} else {
					r = 1
				}
			} else if sy == -1 {
				r = uint64(-sx)
			} else {
				r = uint64(sx / sy)
			}
		case OpSRem:
			sx, sy := signExt(x, w), signExt(y, w)
			if sy == 0 {
				r = x
			} else if sy == -1 {
				r = 0
			} else {
				r = uint64(sx % sy)
			}
		case OpBVAnd:
			r = x & y
		case OpBVOr:
			r = x | y
		case OpBVXor:
			r = x ^ y
		case OpShl:
			if y >= uint64(w) {
				r = 0
			} else {
				r = x << y
			}
		case OpLShr:
			if y >= uint64(w) {
				r = 0
			} else {
				r = x >> y
			}
		case OpAShr:
			sx := signExt(x, w)
			if y >= uint64(w) {
				if sx < 0 {
					r = m
				} else {
					r = 0
				}
			} else {
				r = uint64(sx >> y)
			}
		default:
			panic("Bin: bad op")
		}
		return c.Const(w, r)
	}
	// identities
	switch op {
	case OpAdd:
		if a.IsConst() && a.Val == 0 {
			return b
		}
		if b.IsConst() && b.Val == 0 {
			return a
		}
		if a.IsConst() { // canonical: const on the right
			a, b = b, a
		}
		// (x + k1) + k2
		if b.IsConst() && a.Op == OpAdd && a.Args[1].IsConst() && w <= 64 {
			return c.Bin(OpAdd, a.Args[0], c.Const(w, a.Args[1].Val+b.Val))
		}
	case OpSub:
		if b.IsConst() && b.Val == 0 {
			return a
		}
		if a == b {
			return c.Const64W(w, 0)
		}
		if b.IsConst() && w <= 64 {
			return c.Bin(OpAdd, a, c.Const(w, -b.Val))
		}
	case OpMul:
		if a.IsConst() {
			a, b = b, a
		}
		if b.IsConst() {
			if b.Val == 0 {
				return b
			}
			if b.Val == 1 {
				return a
			}
		}
	case OpBVAnd:
		if a.IsConst() {
			a, b = b, a
		}
		if b.IsConst() && w <= 64 {
			if b.Val == 0 {
				return b
			}
			if b.Val == mask(w) {
				return a
			}
			// x & (2^k-1): only the low k bits of x matter
			if k := lowMaskBits(b.Val); k > 0 && k < w {
				return c.ZExt(c.LowBits(a, k), w)
			}
		}
		if a == b {
			return a
		}
	case OpBVOr:
		if a.IsConst() {
			a, b = b, a
		}
		if b.IsConst() && w <= 64 {
			if b.Val == 0 {
				return a
			}
			if b.Val == mask(w) {
				return b
			}
		}
		if a == b {
			return a
		}
	case OpBVXor:
		if a.IsConst() {
			a, b = b, a
		}
		if b.IsConst() && b.Val == 0 {
			return a
		}
		if a == b {
			return c.Const64W(w, 0)
		}
	case OpShl, OpLShr, OpAShr:
		if b.IsConst() && b.Val == 0 {
			return a
		}
		if b.IsConst() && w <= 64 && b.Val >= uint64(w) && op != OpAShr {
			return c.Const(w, 0)
		}
		// shifts of zext'd bytes by constants: lshr(zext(x)) etc. left to solver
	case OpUDiv:
		if b.IsConst() && b.Val == 1 {
			return a
		}
	}
	return c.mk(op, w, []*Term{a, b}, 0, "")
}

func lowMaskBits(v uint64) int {
	if v == 0 || v&(v+1) != 0 {
		return 0
	}
	return bits.Len64(v)
}

// LowBits returns the low k bits of t as a k-bit term, pushing the
// truncation through operators whose low bits depend only on the operands'
// low bits (so 64-bit index arithmetic under a mask becomes k-bit arithmetic).
func (c *Ctx) LowBits(t *Term, k int) *Term {
	if k >= t.W {
		return t
	}
	key := uint64(t.ID)<<8 | uint64(k)
	if r, ok := c.lowMemo[key]; ok {
		return r
	}
	var r *Term
	switch t.Op {
	case OpConst:
		r = c.Const(k, t.Val)
	case OpAdd, OpSub, OpMul, OpBVAnd, OpBVOr, OpBVXor:
		r = c.Bin(t.Op, c.LowBits(t.Args[0], k), c.LowBits(t.Args[1], k))
	case OpBVNot:
		r = c.BVNot(c.LowBits(t.Args[0], k))
	case OpNeg:
		r = c.Neg(c.LowBits(t.Args[0], k))
	case OpIte:
		r = c.Ite(t.Args[0], c.LowBits(t.Args[1], k), c.LowBits(t.Args[2], k))
	case OpZExt, OpSExt:
		in := t.Args[0]
		if in.W >= k {
			r = c.LowBits(in, k)
		} else if t.Op == OpZExt {
			r = c.ZExt(in, k)
		} else {
			r = c.SExt(in, k)
		}
	case OpShl:
		if t.Args[1].IsConst() && t.W <= 64 {
			sh := t.Args[1].Val
			if sh >= uint64(k) {
				r = c.Const(k, 0)
			} else {
				r = c.Bin(OpShl, c.LowBits(t.Args[0], k), c.Const(k, sh))
			}
		}
	}
	if r == nil {
		r = c.Extract(t, k-1, 0)
	}
	c.lowMemo[key] = r
	return r
}

// Const64W is Const for w<=64 and a zext'd constant above.
func (c *Ctx) Const64W(w int, v uint64) *Term {
	if w <= 64 {
		return c.Const(w, v)
	}
	return c.mk(OpZExt, w, []*Term{c.Const(64, v)}, 0, "")
}

func (c *Ctx) BVNot(a *Term) *Term {
	if a.IsConst() {
		return c.Const(a.W, ^a.Val)
	}
	if a.Op == OpBVNot {
		return a.Args[0]
	}
	return c.mk(OpBVNot, a.W, []*Term{a}, 0, "")
}

func (c *Ctx) Neg(a *Term) *Term {
	if a.IsConst() {
		return c.Const(a.W, -a.Val)
	}
	return c.mk(OpNeg, a.W, []*Term{a}, 0, "")
}

// Cmp builds ult/ule/slt/sle.
func (c *Ctx) Cmp(op Op, a, b *Term) *Term {
	if a.W != b.W || a.W == 0 {
		panic(fmt.Sprintf("Cmp width mismatch %d vs %d", a.W, b.W))
	}
	if a.IsConst() && b.IsConst() {
		switch op {
		case OpULt:
			return c.Bool(a.Val < b.Val)
		case OpULe:
			return c.Bool(a.Val <= b.Val)
		case OpSLt:
			return c.Bool(a.SVal() < b.SVal())
		case OpSLe:
			return c.Bool(a.SVal() <= b.SVal())
		}
	}
	if a == b {
		return c.Bool(op == OpULe || op == OpSLe)
	}
	// both sides zero-extended from the same narrower width: compare there, unsigned
	if a.Op == OpZExt && b.Op == OpZExt && a.Args[0].W == b.Args[0].W && a.Args[0].W < a.W {
		nop := op
		if op == OpSLt {
			nop = OpULt
		} else if op == OpSLe {
			nop = OpULe
		}
		return c.Cmp(nop, a.Args[0], b.Args[0])
	}
	// zext(x) vs constant that fits x's width
	if a.Op == OpZExt && b.IsConst() && a.Args[0].W < a.W && a.W <= 64 {
		iw := a.Args[0].W
		if b.Val <= mask(iw) && (op == OpULt || op == OpULe || b.SVal() >= 0) {
			nop := op
			if op == OpSLt {
				nop = OpULt
			} else if op == OpSLe {
				nop = OpULe
			}
			return c.Cmp(nop, a.Args[0], c.Const(iw, b.Val))
		}
	}
	if b.Op == OpZExt && a.IsConst() && b.Args[0].W < b.W && b.W <= 64 {
		iw := b.Args[0].W
		if a.Val <= mask(iw) && (op == OpULt || op == OpULe || a.SVal() >= 0) {
			nop := op
			if op == OpSLt {
				nop = OpULt
			} else if op == OpSLe {
				nop = OpULe
			}
			return c.Cmp(nop, c.Const(iw, a.Val), b.Args[0])
		}
	}
	switch op {
	case OpULt:
		if b.IsConst() && b.Val == 0 {
			return c.False
		}
		// zext(x) <u const beyond range
		if b.IsConst() && a.Op == OpZExt && b.Val > mask(a.Args[0].W) {
			return c.True
		}
	case OpULe:
		if a.IsConst() && a.Val == 0 {
			return c.True
		}
		if b.IsConst() && a.Op == OpZExt && b.Val >= mask(a.Args[0].W) {
			return c.True
		}
	case OpSLt:
		// zext(x) <s 0  is false ; 0 <=s zext(x) true
		if b.IsConst() && a.Op == OpZExt && a.Args[0].W < a.W {
			if b.SVal() <= 0 {
				return c.False
			}
			if b.SVal() > int64(mask(a.Args[0].W)) {
				return c.True
			}
		}
		if a.IsConst() && b.Op == OpZExt && b.Args[0].W < b.W {
			if a.SVal() < 0 {
				return c.True
			}
			if a.SVal() >= int64(mask(b.Args[0].W)) {
				return c.False
			}
		}
	case OpSLe:
		if a.IsConst() && b.Op == OpZExt && b.Args[0].W < b.W {
			if a.SVal() <= 0 {
				return c.True
			}
			if a.SVal() > int64(mask(b.Args[0].W)) {
				return c.False
			}
		}
		if b.IsConst() && a.Op == OpZExt && a.Args[0].W < a.W {
			if b.SVal() < 0 {
				return c.False
			}
			if b.SVal() >= int64(mask(a.Args[0].W)) {
				return c.True
			}
		}
	}
	return c.mk(op, 0, []*Term{a, b}, 0, "")
}

func (c *Ctx) ZExt(a *Term, w int) *Term {
	if a.W == w {
		return a
	}
	if a.W > w || a.W == 0 {
		panic("ZExt: bad widths")
	}
	if a.IsConst() && w <= 64 {
		return c.Const(w, a.Val)
	}
	if a.Op == OpZExt {
		return c.ZExt(a.Args[0], w)
	}
	return c.mk(OpZExt, w, []*Term{a}, 0, "")
}

func (c *Ctx) SExt(a *Term, w int) *Term {
	if a.W == w {
		return a
	}
	if a.W > w || a.W == 0 {
		panic("SExt: bad widths")
	}
	if a.IsConst() && w <= 64 {
		return c.Const(w, uint64(a.SVal()))
	}
	if a.Op == OpZExt { // sext(zext(x)) with strictly wider zext is zext
		return c.ZExt(a.Args[0], w)
	}
	return c.mk(OpSExt, w, []*Term{a}, 0, "")
}

// Extract bits hi..lo inclusive.
func (c *Ctx) Extract(a *Term, hi, lo int) *Term {
	if hi < lo || hi >= a.W {
		panic(fmt.Sprintf("Extract: bad range %d..%d of %d", hi, lo, a.W))
	}
	w := hi - lo + 1
	if w == a.W {
		return a
	}
	if a.IsConst() {
		return c.Const(w, a.Val>>uint(lo))
	}
	if (a.Op == OpZExt || a.Op == OpSExt) && hi < a.Args[0].W {
		return c.Extract(a.Args[0], hi, lo)
	}
	if a.Op == OpZExt && lo >= a.Args[0].W && w <= 64 {
		return c.Const(w, 0)
	}
	if a.Op == OpConcat {
		lw := a.Args[1].W
		if hi < lw {
			return c.Extract(a.Args[1], hi, lo)
		}
		if lo >= lw {
			return c.Extract(a.Args[0], hi-lw, lo-lw)
		}
	}
	if a.Op == OpExtract {
		ilo := int(a.Val & 0xff)
		return c.Extract(a.Args[0], hi+ilo, lo+ilo)
	}
	return c.mk(OpExtract, w, []*Term{a}, uint64(hi)<<8|uint64(lo), "")
}

// Trunc keeps the low w bits.
func (c *Ctx) Trunc(a *Term, w int) *Term {
	if a.W == w {
		return a
	}
	return c.LowBits(a, w)
}

func (c *Ctx) Concat(hi, lo *Term) *Term {
	w := hi.W + lo.W
	if hi.IsConst() && lo.IsConst() && w <= 64 {
		return c.Const(w, hi.Val<<uint(lo.W)|lo.Val)
	}
	if hi.IsConst() && hi.Val == 0 {
		return c.ZExt(lo, w)
	}
	return c.mk(OpConcat, w, []*Term{hi, lo}, 0, "")
}

// ---- printing ----

func constStr(t *Term) string {
	if t.W == 0 {
		if t.Val != 0 {
			return "true"
		}
		return "false"
	}
	if t.W%4 == 0 {
		return fmt.Sprintf("#x%0*x", t.W/4, t.Val)
	}
	return fmt.Sprintf("#b%0*b", t.W, t.Val)
}

func varName(name string) string { return "|" + name + "|" }

// ref is how a term is referred to from another term's definition.
func ref(t *Term) string {
	switch t.Op {
	case OpConst:
		return constStr(t)
	case OpVar:
		return varName(t.Name)
	}
	return fmt.Sprintf("t%d", t.ID)
}

// body is the SMT-LIB expression of a non-leaf term over refs.
func body(t *Term) string {
	var sb strings.Builder
	switch t.Op {
	case OpZExt:
		fmt.Fprintf(&sb, "((_ zero_extend %d) %s)", t.W-t.Args[0].W, ref(t.Args[0]))
	case OpSExt:
		fmt.Fprintf(&sb, "((_ sign_extend %d) %s)", t.W-t.Args[0].W, ref(t.Args[0]))
	case OpExtract:
		fmt.Fprintf(&sb, "((_ extract %d %d) %s)", t.Val>>8, t.Val&0xff, ref(t.Args[0]))
	case OpUF:
		sb.WriteString("(|" + t.Name + "|")
		for _, a := range t.Args {
			sb.WriteByte(' ')
			sb.WriteString(ref(a))
		}
		sb.WriteByte(')')
	default:
		sb.WriteByte('(')
		sb.WriteString(opNames[t.Op])
		for _, a := range t.Args {
			sb.WriteByte(' ')
			sb.WriteString(ref(a))
		}
		sb.WriteByte(')')
	}
	return sb.String()
}

// String renders a term fully (for diagnostics; exponential on DAGs, capped).
func (t *Term) String() string {
	var sb strings.Builder
	t.str(&sb, 0)
	return sb.String()
}

func (t *Term) str(sb *strings.Builder, depth int) {
	if sb.Len() > 2000 {
		sb.WriteString("...")
		return
	}
	switch t.Op {
	case OpConst:
		sb.WriteString(constStr(t))
		return
	case OpVar:
		sb.WriteString(t.Name)
		return
	}
	sb.WriteByte('(')
	switch t.Op {
	case OpZExt:
		fmt.Fprintf(sb, "zext%d", t.W)
	case OpSExt:
		fmt.Fprintf(sb, "sext%d", t.W)
	case OpExtract:
		fmt.Fprintf(sb, "extract[%d:%d]", t.Val>>8, t.Val&0xff)
	case OpUF:
		sb.WriteString(t.Name)
	default:
		sb.WriteString(opNames[t.Op])
	}
	for _, a := range t.Args {
		sb.WriteByte(' ')
		a.str(sb, depth+1)
	}
	sb.WriteByte(')')
}

// ---- concrete evaluation under a model ----

// Model maps variable names to values. Missing variables read as 0.
type Model map[string]uint64

// Eval evaluates t under m. ok=false if t contains an uninterpreted
// function or a term wider than 64 bits.
func Eval(t *Term, m Model, memo map[int]uint64) (uint64, bool) {
	if t.Op == OpConst {
		return t.Val, true
	}
	if v, ok := memo[t.ID]; ok {
		return v, true
	}
	if t.W > 64 {
		return 0, false
	}
	var r uint64
	switch t.Op {
	case OpVar:
		r = m[t.Name] & mask1(t.W)
	case OpUF:
		return 0, false
	default:
		var av [3]uint64
		for i, a := range t.Args {
			if a.W > 64 {
				return 0, false
			}
			v, ok := Eval(a, m, memo)
			if !ok {
				return 0, false
			}
			if i < 3 {
				av[i] = v
			}
		}
		b2u := func(b bool) uint64 {
			if b {
				return 1
			}
			return 0
		}
		x, y := av[0], av[1]
		var aw int
		if len(t.Args) > 0 {
			aw = t.Args[0].W
		}
		switch t.Op {
		case OpNot:
			r = x ^ 1
		case OpAnd:
			r = x & y
		case OpOr:
			r = x | y
		case OpEq:
			r = b2u(x == y)
		case OpIte:
			if x != 0 {
				r = y
			} else {
				r = av[2]
			}
		case OpBVNot:
			r = ^x
		case OpNeg:
			r = -x
		case OpULt:
			r = b2u(x < y)
		case OpULe:
			r = b2u(x <= y)
		case OpSLt:
			r = b2u(signExt(x, aw) < signExt(y, aw))
		case OpSLe:
			r = b2u(signExt(x, aw) <= signExt(y, aw))
		case OpZExt:
			r = x
		case OpSExt:
			r = uint64(signExt(x, aw))
		case OpExtract:
			r = x >> uint(t.Val&0xff)
		case OpConcat:
			r = x<<uint(t.Args[1].W) | y
		default:
			// binary bv op: reuse the folding code through a scratch ctx-free path
			r = foldBin(t.Op, x, y, aw)
		}
		r &= mask1(t.W)
	}
	memo[t.ID] = r
	return r, true
}

func mask1(w int) uint64 {
	if w == 0 {
		return 1
	}
	return mask(w)
}

func foldBin(op Op, x, y uint64, w int) uint64 {
	m := mask(w)
	switch op {
	case OpAdd:
		return x + y
	case OpSub:
		return x - y
	case OpMul:
		return x * y
	case OpUDiv:
		if y == 0 {
			return m
		}
		return x / y
	case OpURem:
		if y == 0 {
			return x
		}
		return x % y
	case OpSDiv:
		sx, sy := signExt(x, w), signExt(y, w)
		if sy == 0 {
			if sx >= 0 {
				return m
			}
			return 1
		}
		if sy == -1 {
			return uint64(-sx)
		}
		return uint64(sx / sy)
	case OpSRem:
		sx, sy := signExt(x, w), signExt(y, w)
		if sy == 0 {
			return x
		}
		if sy == -1 {
			return 0
		}
		return uint64(sx % sy)
	case OpBVAnd:
		return x & y
	case OpBVOr:
		return x | y
	case OpBVXor:
		return x ^ y
	case OpShl:
		if y >= uint64(w) {
			return 0
		}
		return x << y
	case OpLShr:
		if y >= uint64(w) {
			return 0
		}
		return x >> y
	case OpAShr:
		sx := signExt(x, w)
		if y >= uint64(w) {
			if sx < 0 {
				return m
			}
			return 0
		}
		return uint64(sx >> y)
	}
	panic("foldBin: bad op " + opNames[op])
}

var _ = bits.Len64
