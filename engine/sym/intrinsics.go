package sym

import (
	"fmt"
	"go/types"
	"strings"

	"golang.org/x/tools/go/ssa"
)

type intrinsic func(ex *Exec, caller *frame, fn *ssa.Function, args []Value) (Value, *goPanic)

var intrinsicTable map[string]intrinsic

// noopPrefixes: calls into these packages return zero values (logging, metrics).
var noopPrefixes = []string{
	"github.com/semihalev/zlog/v2.",
	"(*github.com/semihalev/zlog/v2.",
	"(github.com/semihalev/zlog/v2.",
	"github.com/prometheus/",
	"(*github.com/prometheus/",
	"(github.com/prometheus/",
	"github.com/semihalev/sdns/internal/metric.",
	"(*github.com/semihalev/sdns/internal/metric.",
}

// pureIntrinsics may run during speculation (no engine-state effects).
var pureIntrinsics = map[string]bool{}

func init() {
	for _, n := range []string{"internal/bytealg.IndexByte", "internal/bytealg.IndexByteString", "internal/stringslite.IndexByte",
		"strings.IndexByte", "bytes.IndexByte", "strings.LastIndexByte", "bytes.LastIndexByte", "internal/bytealg.LastIndexByteString",
		"internal/bytealg.LastIndexByte", "internal/bytealg.Equal", "bytes.Equal", "internal/bytealg.Compare", "bytes.Compare",
		"internal/bytealg.CompareString", "strings.Compare", "runtime.cmpstring", "internal/bytealg.Count", "internal/bytealg.CountString",
		"internal/bytealg.Index", "internal/bytealg.IndexString", "strings.Index", "bytes.Index", "internal/stringslite.Index",
		"internal/abi.NoEscape", "internal/abi.Escape", "runtime.KeepAlive", "(*strings.Builder).copyCheck",
		"(time.Time).Add", "(time.Time).Sub", "(time.Time).Before", "(time.Time).After", "(time.Time).Equal", "(time.Time).Compare",
		"(time.Time).IsZero", "(time.Time).UnixNano", "(time.Time).Round", "(time.Time).UTC", "(time.Time).Local", "time.Unix",
		"(*sync.Mutex).Lock", "(*sync.Mutex).Unlock", "(*sync.RWMutex).Lock", "(*sync.RWMutex).Unlock", "(*sync.RWMutex).RLock", "(*sync.RWMutex).RUnlock",
		"internal/race.Enable", "internal/race.Disable", "internal/race.Acquire", "internal/race.Release", "internal/race.ReleaseMerge",
		"internal/race.Read", "internal/race.Write", "internal/race.ReadRange", "internal/race.WriteRange",
	} {
		pureIntrinsics[n] = true
	}
}

func lookupIntrinsic(ex *Exec, fn *ssa.Function, name string) (intrinsic, bool) {
	h, ok := lookupIntrinsic2(ex, fn, name)
	if ok && ex.speculating > 0 && !pureIntrinsics[name] {
		if fn.Name() == "vTier" || fn.Name() == "vUF1" || fn.Name() == "vUF2" || isNoopName(ex, name) {
			return h, true
		}
		panic(specAbort{})
	}
	return h, ok
}

func lookupIntrinsic2(ex *Exec, fn *ssa.Function, name string) (intrinsic, bool) {
	if ex.H != nil && ex.H.Real[name] && fn.Blocks != nil {
		return nil, false
	}
	if h, ok := intrinsicTable[name]; ok {
		return h, true
	}
	if h, ok := lookupRT(ex, fn); ok {
		return h, true
	}
	if fn.Origin() != nil {
		// generic instance: match on origin name
		on := fn.Origin().String()
		if h, ok := intrinsicTable[on]; ok {
			return h, true
		}
	}
	if strings.HasPrefix(name, "(*sync/atomic.Pointer[") {
		m := name[strings.LastIndex(name, ".")+1:]
		switch m {
		case "Load":
			return atomicPtrLoad, true
		case "Store":
			return atomicPtrStore, true
		case "Swap":
			return atomicPtrSwap, true
		case "CompareAndSwap":
			return atomicPtrCAS, true
		}
	}
	for _, p := range noopPrefixes {
		if strings.HasPrefix(name, p) {
			return noop, true
		}
	}
	if ex.H != nil {
		for _, p := range ex.H.Noop {
			if strings.HasPrefix(name, p) || strings.HasPrefix(name, "(*"+p) || strings.HasPrefix(name, "("+p) {
				return noop, true
			}
		}
	}
	return nil, false
}

func isNoopName(ex *Exec, name string) bool {
	for _, p := range noopPrefixes {
		if strings.HasPrefix(name, p) {
			return true
		}
	}
	return false
}

func noop(ex *Exec, caller *frame, fn *ssa.Function, args []Value) (Value, *goPanic) {
	return ex.zeroResults(fn), nil
}

func ident0(ex *Exec, caller *frame, fn *ssa.Function, args []Value) (Value, *goPanic) {
	return args[0], nil
}

func atomicPtrLoad(ex *Exec, caller *frame, fn *ssa.Function, args []Value) (Value, *goPanic) {
	p := args[0].(Ptr)
	if p.Obj == nil {
		return nil, ex.rtPanic("nil atomic.Pointer")
	}
	s := ex.load(p).(*Struct)
	// layout: _ [0]*T; _ noCopy; v unsafe.Pointer
	return s.F[len(s.F)-1], nil
}

func atomicPtrStore(ex *Exec, caller *frame, fn *ssa.Function, args []Value) (Value, *goPanic) {
	p := args[0].(Ptr)
	s := ex.load(p).(*Struct)
	ex.store(p.extend(PathElem{Kind: PEField, I: len(s.F) - 1}), args[1])
	return nil, nil
}

func atomicPtrSwap(ex *Exec, caller *frame, fn *ssa.Function, args []Value) (Value, *goPanic) {
	p := args[0].(Ptr)
	s := ex.load(p).(*Struct)
	old := s.F[len(s.F)-1]
	ex.store(p.extend(PathElem{Kind: PEField, I: len(s.F) - 1}), args[1])
	return old, nil
}

func atomicPtrCAS(ex *Exec, caller *frame, fn *ssa.Function, args []Value) (Value, *goPanic) {
	p := args[0].(Ptr)
	s := ex.load(p).(*Struct)
	old := s.F[len(s.F)-1]
	eq := ex.equal(old, args[1])
	if ex.branch(eq) {
		ex.store(p.extend(PathElem{Kind: PEField, I: len(s.F) - 1}), args[2])
		return ex.C.True, nil
	}
	return ex.C.False, nil
}

// atomic integer helpers on a *T
func atomicLoad(ex *Exec, caller *frame, fn *ssa.Function, args []Value) (Value, *goPanic) {
	ex.envStep("atomic.Load")
	return ex.load(args[0].(Ptr)), nil
}
func atomicStore(ex *Exec, caller *frame, fn *ssa.Function, args []Value) (Value, *goPanic) {
	ex.store(args[0].(Ptr), args[1])
	return nil, nil
}
func atomicAdd(ex *Exec, caller *frame, fn *ssa.Function, args []Value) (Value, *goPanic) {
	ex.envStep("atomic.Add")
	p := args[0].(Ptr)
	nv := ex.C.Bin(OpAdd, ex.load(p).(*Term), args[1].(*Term))
	ex.store(p, nv)
	return nv, nil
}
func atomicSwap(ex *Exec, caller *frame, fn *ssa.Function, args []Value) (Value, *goPanic) {
	p := args[0].(Ptr)
	old := ex.load(p)
	ex.store(p, args[1])
	return old, nil
}
func atomicCAS(ex *Exec, caller *frame, fn *ssa.Function, args []Value) (Value, *goPanic) {
	ex.envStep("atomic.CAS")
	p := args[0].(Ptr)
	old := ex.load(p)
	eq := ex.equal(old, args[1])
	if ex.branch(eq) {
		ex.store(p, args[2])
		return ex.C.True, nil
	}
	return ex.C.False, nil
}
func atomicAnd(ex *Exec, caller *frame, fn *ssa.Function, args []Value) (Value, *goPanic) {
	p := args[0].(Ptr)
	old := ex.load(p).(*Term)
	ex.store(p, ex.C.Bin(OpBVAnd, old, args[1].(*Term)))
	return old, nil
}
func atomicOr(ex *Exec, caller *frame, fn *ssa.Function, args []Value) (Value, *goPanic) {
	p := args[0].(Ptr)
	old := ex.load(p).(*Term)
	ex.store(p, ex.C.Bin(OpBVOr, old, args[1].(*Term)))
	return old, nil
}

// envStep lets a harness-provided interference function run before an atomic step.
func (ex *Exec) envStep(what string) {
	if ex.H == nil || ex.H.EnvStep == nil || ex.inEnv {
		return
	}
	ex.inEnv = true
	defer func() { ex.inEnv = false }()
	_, pan := ex.callFunction(ex.H.EnvStep, nil, nil, nil)
	if pan != nil {
		panic(engineErr("interference step panicked: %s", pan.msg))
	}
}

func (ex *Exec) lockDelta(d int) {
	ex.locksHeld += d
	if ex.locksHeld > ex.maxLocks {
		ex.maxLocks = ex.locksHeld
	}
}

func init() {
	t := map[string]intrinsic{}
	intrinsicTable = t

	// --- sync ---
	lock := func(ex *Exec, caller *frame, fn *ssa.Function, args []Value) (Value, *goPanic) {
		ex.lockDelta(1)
		return nil, nil
	}
	unlock := func(ex *Exec, caller *frame, fn *ssa.Function, args []Value) (Value, *goPanic) {
		ex.lockDelta(-1)
		return nil, nil
	}
	tryLock := func(ex *Exec, caller *frame, fn *ssa.Function, args []Value) (Value, *goPanic) {
		ex.lockDelta(1)
		return ex.C.True, nil
	}
	for _, n := range []string{"(*sync.Mutex).Lock", "(*sync.RWMutex).Lock", "(*sync.RWMutex).RLock"} {
		t[n] = lock
	}
	for _, n := range []string{"(*sync.Mutex).Unlock", "(*sync.RWMutex).Unlock", "(*sync.RWMutex).RUnlock"} {
		t[n] = unlock
	}
	for _, n := range []string{"(*sync.Mutex).TryLock", "(*sync.RWMutex).TryLock", "(*sync.RWMutex).TryRLock"} {
		t[n] = tryLock
	}
	t["(*sync.Once).Do"] = func(ex *Exec, caller *frame, fn *ssa.Function, args []Value) (Value, *goPanic) {
		p := args[0].(Ptr)
		s := ex.load(p).(*Struct)
		// layout: _ noCopy; done atomic.Uint32{_ noCopy; v uint32}; m Mutex
		doneP := p.extend(PathElem{Kind: PEField, I: 1}).extend(PathElem{Kind: PEField, I: 1})
		_ = s
		done := ex.load(doneP).(*Term)
		if ex.branch(ex.C.Eq(done, ex.C.Const(32, 0))) {
			ex.store(doneP, ex.C.Const(32, 1))
			_, pan := ex.callValue(caller, args[1], nil, nil)
			return nil, pan
		}
		return nil, nil
	}
	t["(*sync.WaitGroup).Add"] = noop
	t["(*sync.WaitGroup).Done"] = noop
	t["(*sync.WaitGroup).Wait"] = noop
	t["(*sync.Pool).Get"] = func(ex *Exec, caller *frame, fn *ssa.Function, args []Value) (Value, *goPanic) {
		p := args[0].(Ptr)
		key := fmt.Sprintf("pool:%d", p.Obj.ID)
		if lst, ok := ex.ghost[key].([]Value); ok && len(lst) > 0 {
			v := lst[len(lst)-1]
			ex.ghost[key] = lst[:len(lst)-1]
			return v, nil
		}
		s := ex.load(p).(*Struct)
		newFn := s.F[len(s.F)-1]
		if cl, ok := newFn.(*Closure); ok && cl != nil {
			return ex.callValue(caller, cl, nil, nil)
		}
		return Iface{}, nil
	}
	t["(*sync.Pool).Put"] = func(ex *Exec, caller *frame, fn *ssa.Function, args []Value) (Value, *goPanic) {
		p := args[0].(Ptr)
		key := fmt.Sprintf("pool:%d", p.Obj.ID)
		lst, _ := ex.ghost[key].([]Value)
		ex.ghost[key] = append(append([]Value{}, lst...), args[1])
		return nil, nil
	}

	// --- sync/atomic functions ---
	for _, ty := range []string{"Int32", "Int64", "Uint32", "Uint64", "Uintptr", "Pointer"} {
		t["sync/atomic.Load"+ty] = atomicLoad
		t["sync/atomic.Store"+ty] = atomicStore
		t["sync/atomic.Swap"+ty] = atomicSwap
		t["sync/atomic.CompareAndSwap"+ty] = atomicCAS
		if ty != "Pointer" {
			t["sync/atomic.Add"+ty] = atomicAdd
			t["sync/atomic.And"+ty] = atomicAnd
			t["sync/atomic.Or"+ty] = atomicOr
		}
	}
	t["(*sync/atomic.Value).Load"] = func(ex *Exec, caller *frame, fn *ssa.Function, args []Value) (Value, *goPanic) {
		p := args[0].(Ptr)
		key := fmt.Sprintf("atomicValue:%d:%v", p.Obj.ID, p.Path)
		if v, ok := ex.ghost[key]; ok {
			return v, nil
		}
		return Iface{}, nil
	}
	t["(*sync/atomic.Value).Store"] = func(ex *Exec, caller *frame, fn *ssa.Function, args []Value) (Value, *goPanic) {
		p := args[0].(Ptr)
		key := fmt.Sprintf("atomicValue:%d:%v", p.Obj.ID, p.Path)
		ex.ghost[key] = args[1]
		return nil, nil
	}

	// --- internal/abi, runtime ---
	t["internal/abi.NoEscape"] = ident0
	t["internal/abi.Escape"] = ident0
	t["runtime.KeepAlive"] = noop
	t["runtime.SetFinalizer"] = noop
	t["runtime.Gosched"] = noop
	t["internal/race.Enable"] = noop
	t["internal/race.Disable"] = noop
	t["internal/race.Acquire"] = noop
	t["internal/race.Release"] = noop
	t["internal/race.ReleaseMerge"] = noop
	t["internal/race.Read"] = noop
	t["internal/race.Write"] = noop
	t["internal/race.ReadRange"] = noop
	t["internal/race.WriteRange"] = noop

	// --- bytealg ---
	indexByte := func(ex *Exec, caller *frame, fn *ssa.Function, args []Value) (Value, *goPanic) {
		var bs []*Term
		switch x := args[0].(type) {
		case Str:
			bs = x.B
		case Slice:
			for _, e := range ex.sliceElems(x) {
				bs = append(bs, e.(*Term))
			}
		}
		c := args[1].(*Term)
		r := ex.C.Const(64, ^uint64(0))
		for i := len(bs) - 1; i >= 0; i-- {
			r = ex.C.Ite(ex.C.Eq(bs[i], c), ex.C.Const(64, uint64(i)), r)
		}
		return r, nil
	}
	t["internal/bytealg.IndexByte"] = indexByte
	t["internal/bytealg.IndexByteString"] = indexByte
	t["internal/stringslite.IndexByte"] = indexByte
	t["strings.IndexByte"] = indexByte
	t["bytes.IndexByte"] = indexByte
	lastIndexByte := func(ex *Exec, caller *frame, fn *ssa.Function, args []Value) (Value, *goPanic) {
		var bs []*Term
		switch x := args[0].(type) {
		case Str:
			bs = x.B
		case Slice:
			for _, e := range ex.sliceElems(x) {
				bs = append(bs, e.(*Term))
			}
		}
		c := args[1].(*Term)
		r := ex.C.Const(64, ^uint64(0))
		for i := 0; i < len(bs); i++ {
			r = ex.C.Ite(ex.C.Eq(bs[i], c), ex.C.Const(64, uint64(i)), r)
		}
		return r, nil
	}
	t["strings.LastIndexByte"] = lastIndexByte
	t["bytes.LastIndexByte"] = lastIndexByte
	t["internal/bytealg.LastIndexByteString"] = lastIndexByte
	t["internal/bytealg.LastIndexByte"] = lastIndexByte
	bytesOf := func(ex *Exec, v Value) []*Term {
		switch x := v.(type) {
		case Str:
			return x.B
		case Slice:
			var bs []*Term
			for _, e := range ex.sliceElems(x) {
				bs = append(bs, e.(*Term))
			}
			return bs
		}
		panic(engineErr("bytesOf %T", v))
	}
	t["internal/bytealg.Equal"] = func(ex *Exec, caller *frame, fn *ssa.Function, args []Value) (Value, *goPanic) {
		a, b := bytesOf(ex, args[0]), bytesOf(ex, args[1])
		return ex.equal(Str{a}, Str{b}), nil
	}
	t["bytes.Equal"] = t["internal/bytealg.Equal"]
	t["internal/bytealg.Compare"] = func(ex *Exec, caller *frame, fn *ssa.Function, args []Value) (Value, *goPanic) {
		a, b := Str{bytesOf(ex, args[0])}, Str{bytesOf(ex, args[1])}
		lt := ex.strLess(a, b, false)
		eq := ex.equal(a, b)
		return ex.C.Ite(lt, ex.C.Const(64, ^uint64(0)), ex.C.Ite(eq, ex.C.Const(64, 0), ex.C.Const(64, 1))), nil
	}
	t["bytes.Compare"] = t["internal/bytealg.Compare"]
	t["internal/bytealg.CompareString"] = t["internal/bytealg.Compare"]
	t["strings.Compare"] = t["internal/bytealg.Compare"]
	t["runtime.cmpstring"] = t["internal/bytealg.Compare"]
	count := func(ex *Exec, caller *frame, fn *ssa.Function, args []Value) (Value, *goPanic) {
		bs := bytesOf(ex, args[0])
		c := args[1].(*Term)
		r := ex.C.Const(64, 0)
		for _, b := range bs {
			r = ex.C.Bin(OpAdd, r, ex.C.Ite(ex.C.Eq(b, c), ex.C.Const(64, 1), ex.C.Const(64, 0)))
		}
		return r, nil
	}
	t["internal/bytealg.Count"] = count
	t["internal/bytealg.CountString"] = count
	t["internal/bytealg.MakeNoZero"] = func(ex *Exec, caller *frame, fn *ssa.Function, args []Value) (Value, *goPanic) {
		n := ex.concretize(args[0].(*Term), 0, 4096)
		s := ex.newSliceFrom(types.Typ[types.Uint8], nil, n)
		s.Len = n
		return s, nil
	}
	// substring search, concrete-shape: position of first match as ite chain
	indexStr := func(ex *Exec, caller *frame, fn *ssa.Function, args []Value) (Value, *goPanic) {
		a, b := bytesOf(ex, args[0]), bytesOf(ex, args[1])
		r := ex.C.Const(64, ^uint64(0))
		for i := len(a) - len(b); i >= 0; i-- {
			m := ex.equal(Str{a[i : i+len(b)]}, Str{b})
			r = ex.C.Ite(m, ex.C.Const(64, uint64(i)), r)
		}
		return r, nil
	}
	t["internal/bytealg.Index"] = indexStr
	t["internal/bytealg.IndexString"] = indexStr
	t["strings.Index"] = indexStr
	t["bytes.Index"] = indexStr
	t["internal/stringslite.Index"] = indexStr

	// --- strings: ASCII models where the real code goes through unicode tables ---
	t["strings.ToLower"] = func(ex *Exec, caller *frame, fn *ssa.Function, args []Value) (Value, *goPanic) {
		s := args[0].(Str)
		out := make([]*Term, len(s.B))
		for i, b := range s.B {
			if !b.IsConst() || b.Val >= 0x80 {
				ex.needASCII(b, "strings.ToLower")
			}
			isUp := ex.C.And(ex.C.Cmp(OpULe, ex.C.Const(8, 'A'), b), ex.C.Cmp(OpULe, b, ex.C.Const(8, 'Z')))
			out[i] = ex.C.Ite(isUp, ex.C.Bin(OpAdd, b, ex.C.Const(8, 32)), b)
		}
		return Str{out}, nil
	}
	t["strings.ToUpper"] = func(ex *Exec, caller *frame, fn *ssa.Function, args []Value) (Value, *goPanic) {
		s := args[0].(Str)
		out := make([]*Term, len(s.B))
		for i, b := range s.B {
			if !b.IsConst() || b.Val >= 0x80 {
				ex.needASCII(b, "strings.ToUpper")
			}
			isLo := ex.C.And(ex.C.Cmp(OpULe, ex.C.Const(8, 'a'), b), ex.C.Cmp(OpULe, b, ex.C.Const(8, 'z')))
			out[i] = ex.C.Ite(isLo, ex.C.Bin(OpSub, b, ex.C.Const(8, 32)), b)
		}
		return Str{out}, nil
	}
	t["strings.EqualFold"] = func(ex *Exec, caller *frame, fn *ssa.Function, args []Value) (Value, *goPanic) {
		a, b := args[0].(Str), args[1].(Str)
		if len(a.B) != len(b.B) {
			// only equal-length strings can fold-equal in ASCII; non-ASCII needs the assumption
			for _, x := range append(append([]*Term{}, a.B...), b.B...) {
				ex.needASCII(x, "strings.EqualFold")
			}
			return ex.C.False, nil
		}
		r := ex.C.True
		for i := range a.B {
			ex.needASCII(a.B[i], "strings.EqualFold")
			ex.needASCII(b.B[i], "strings.EqualFold")
			r = ex.C.And(r, ex.C.Eq(ex.lowerASCII(a.B[i]), ex.lowerASCII(b.B[i])))
		}
		return r, nil
	}
	t["(*strings.Builder).copyCheck"] = noop

	// --- errors / fmt ---
	t["fmt.Errorf"] = func(ex *Exec, caller *frame, fn *ssa.Function, args []Value) (Value, *goPanic) {
		format, _ := concreteStr(args[0].(Str))
		va := ex.sliceElems(args[1].(Slice))
		// find %w operands
		var wrapped []Value
		ai := 0
		for i := 0; i < len(format); i++ {
			if format[i] != '%' {
				continue
			}
			i++
			for i < len(format) && strings.IndexByte("+-# 0123456789.*[]", format[i]) >= 0 {
				i++
			}
			if i >= len(format) {
				break
			}
			if format[i] == '%' {
				continue
			}
			if format[i] == 'w' && ai < len(va) {
				wrapped = append(wrapped, va[ai])
			}
			ai++
		}
		msg := "fmt.Errorf(" + format + ")"
		if len(wrapped) == 1 {
			if w, ok := wrapped[0].(Iface); ok && w.T != nil {
				return ex.wrapErr(msg, w), nil
			}
		}
		return ex.opaqueError(msg), nil
	}
	sprintf := func(ex *Exec, caller *frame, fn *ssa.Function, args []Value) (Value, *goPanic) {
		return ex.mkStr("<fmt>"), nil
	}
	t["fmt.Sprintf"] = func(ex *Exec, caller *frame, fn *ssa.Function, args []Value) (Value, *goPanic) {
		format, ok := concreteStr(args[0].(Str))
		if !ok {
			return ex.mkStr("<fmt>"), nil
		}
		va := ex.sliceElems(args[1].(Slice))
		var out []*Term
		lit := func(s string) {
			for i := 0; i < len(s); i++ {
				out = append(out, ex.C.Const(8, uint64(s[i])))
			}
		}
		ai := 0
		for i := 0; i < len(format); i++ {
			c := format[i]
			if c != '%' {
				out = append(out, ex.C.Const(8, uint64(c)))
				continue
			}
			i++
			if i >= len(format) {
				return ex.mkStr("<fmt>"), nil
			}
			verb := format[i]
			if verb == '%' {
				lit("%")
				continue
			}
			if ai >= len(va) {
				return ex.mkStr("<fmt>"), nil
			}
			iv, _ := va[ai].(Iface)
			ai++
			switch verb {
			case 'd', 's', 'v':
				switch x := iv.V.(type) {
				case Str:
					out = append(out, x.B...)
				case *Term:
					if !x.IsConst() || x.W == 0 {
						ex.noteAssumption("fmt.Sprintf of a symbolic number rendered as an opaque string")
						return ex.mkStr("<fmt>"), nil
					}
					if isUnsigned(iv.T) {
						lit(fmt.Sprintf("%d", x.Val))
					} else {
						lit(fmt.Sprintf("%d", x.SVal()))
					}
				default:
					return ex.mkStr("<fmt>"), nil
				}
			default:
				return ex.mkStr("<fmt>"), nil
			}
		}
		return Str{out}, nil
	}
	t["fmt.Sprint"] = sprintf
	t["fmt.Sprintln"] = sprintf
	t["fmt.Fprintf"] = noop
	t["fmt.Fprintln"] = noop
	t["fmt.Fprint"] = noop
	t["fmt.Printf"] = noop
	t["fmt.Println"] = noop
	t["errors.Is"] = func(ex *Exec, caller *frame, fn *ssa.Function, args []Value) (Value, *goPanic) {
		return ex.errorsIs(caller, args[0].(Iface), args[1].(Iface), 0)
	}
	t["errors.As"] = func(ex *Exec, caller *frame, fn *ssa.Function, args []Value) (Value, *goPanic) {
		return ex.errorsAs(caller, args[0].(Iface), args[1].(Iface), 0)
	}

	// --- unique ---
	t["unique.Make"] = func(ex *Exec, caller *frame, fn *ssa.Function, args []Value) (Value, *goPanic) {
		// Handle[T]{value *T}: canonical object per distinct concrete value
		key := "unique:" + fn.String() + ":" + describe(args[0])
		o, ok := ex.uniq[key]
		if !ok {
			save := ex.persistMode
			ex.persistMode = true
			o = ex.newObj(fn.Signature.Params().At(0).Type(), args[0], key)
			ex.persistMode = save
			ex.uniq[key] = o
		}
		return &Struct{[]Value{Ptr{Obj: o}}}, nil
	}

	// --- time ---
	registerTime(t)
	// --- verif runtime primitives ---
	registerRT(t)
	// --- hashes, sort, misc ---
	registerMisc(t)
}

func (ex *Exec) lowerASCII(b *Term) *Term {
	isUp := ex.C.And(ex.C.Cmp(OpULe, ex.C.Const(8, 'A'), b), ex.C.Cmp(OpULe, b, ex.C.Const(8, 'Z')))
	r := ex.C.Ite(isUp, ex.C.Bin(OpAdd, b, ex.C.Const(8, 32)), b)
	if ex.asciiKnown[b] || (b.IsConst() && b.Val < 0x80) {
		ex.asciiKnown[r] = true // lowering an ASCII byte gives an ASCII byte
	}
	return r
}

// needASCII restricts the path to b < 0x80 and records the assumption; a
// path on which b >= 0x80 is feasible ends as "outside the ASCII model".
func (ex *Exec) needASCII(b *Term, who string) {
	if b.IsConst() {
		if b.Val >= 0x80 {
			panic(engineErr("%s on concrete non-ASCII byte", who))
		}
		return
	}
	if ex.asciiKnown[b] {
		return
	}
	c := ex.C.Cmp(OpULt, b, ex.C.Const(8, 0x80))
	if ex.speculating > 0 {
		panic(specAbort{})
	}
	defer func() { ex.asciiKnown[b] = true }()
	if !ex.branch(c) {
		ex.noteAssumption(who + ": inputs with bytes >= 0x80 are outside the ASCII model (paths cut)")
		panic(pathAbort{"non-ascii:" + who})
	}
}

func (ex *Exec) wrapErr(msg string, inner Iface) Value {
	// *fmt.wrapError{msg string; err error}
	for _, p := range ex.Prog.AllPackages() {
		if p.Pkg.Path() == "fmt" {
			if tn := p.Type("wrapError"); tn != nil {
				o := ex.newObj(tn.Type(), &Struct{[]Value{ex.mkStr(msg), inner}}, "wrapError")
				return Iface{T: types.NewPointer(tn.Type()), V: Ptr{Obj: o}}
			}
		}
	}
	return ex.opaqueError(msg)
}

func (ex *Exec) methodOf(t types.Type, name string) *ssa.Function {
	ms := ex.Prog.MethodSets.MethodSet(t)
	for i := 0; i < ms.Len(); i++ {
		sel := ms.At(i)
		if sel.Obj().Name() == name {
			return ex.Prog.MethodValue(sel)
		}
	}
	return nil
}

func (ex *Exec) errorsIs(caller *frame, err, target Iface, depth int) (Value, *goPanic) {
	if depth > 16 {
		panic(engineErr("errors.Is chain too deep"))
	}
	if err.T == nil || target.T == nil {
		return ex.C.Bool(err.T == nil && target.T == nil), nil
	}
	for {
		if types.Identical(err.T, target.T) && types.Comparable(err.T) {
			eq := ex.equal(err.V, target.V)
			if ex.branch(eq) {
				return ex.C.True, nil
			}
		}
		if m := ex.methodOf(err.T, "Is"); m != nil && m.Signature.Params().Len() == 1 && m.Signature.Results().Len() == 1 {
			r, pan := ex.callFunction(m, []Value{err.V, target}, nil, caller)
			if pan != nil {
				return nil, pan
			}
			if ex.branch(r.(*Term)) {
				return ex.C.True, nil
			}
		}
		m := ex.methodOf(err.T, "Unwrap")
		if m == nil || m.Signature.Params().Len() != 0 || m.Signature.Results().Len() != 1 {
			return ex.C.False, nil
		}
		r, pan := ex.callFunction(m, []Value{err.V}, nil, caller)
		if pan != nil {
			return nil, pan
		}
		switch u := r.(type) {
		case Iface:
			if u.T == nil {
				return ex.C.False, nil
			}
			err = u
		case Slice:
			for _, e := range ex.sliceElems(u) {
				ie := e.(Iface)
				if ie.T == nil {
					continue
				}
				v, pan := ex.errorsIs(caller, ie, target, depth+1)
				if pan != nil {
					return nil, pan
				}
				if v.(*Term).Val != 0 {
					return ex.C.True, nil
				}
			}
			return ex.C.False, nil
		default:
			return ex.C.False, nil
		}
	}
}

func (ex *Exec) errorsAs(caller *frame, err, target Iface, depth int) (Value, *goPanic) {
	if target.T == nil {
		return nil, &goPanic{msg: "errors: target cannot be nil"}
	}
	pt, ok := under(target.T).(*types.Pointer)
	if !ok {
		return nil, &goPanic{msg: "errors: target must be a non-nil pointer"}
	}
	tt := pt.Elem()
	tp := target.V.(Ptr)
	for err.T != nil {
		if it, isIface := under(tt).(*types.Interface); isIface {
			if types.Implements(err.T, it) {
				ex.store(tp, err)
				return ex.C.True, nil
			}
		} else if types.Identical(err.T, tt) {
			ex.store(tp, err.V)
			return ex.C.True, nil
		}
		if m := ex.methodOf(err.T, "As"); m != nil && m.Signature.Params().Len() == 1 {
			r, pan := ex.callFunction(m, []Value{err.V, target}, nil, caller)
			if pan != nil {
				return nil, pan
			}
			if ex.branch(r.(*Term)) {
				return ex.C.True, nil
			}
		}
		m := ex.methodOf(err.T, "Unwrap")
		if m == nil || m.Signature.Params().Len() != 0 || m.Signature.Results().Len() != 1 {
			return ex.C.False, nil
		}
		r, pan := ex.callFunction(m, []Value{err.V}, nil, caller)
		if pan != nil {
			return nil, pan
		}
		u, ok := r.(Iface)
		if !ok {
			return ex.C.False, nil
		}
		err = u
	}
	return ex.C.False, nil
}
