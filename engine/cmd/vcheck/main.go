// vcheck: solver-based checking of sdns properties (Go SSA -> SMT-LIB2).
package main

import (
	"encoding/json"
	"flag"
	"fmt"
	"os"
	"path/filepath"
	"runtime"
	"sort"
	"strconv"
	"strings"
	"time"

	"verif/engine/sym"
)

func env(k, def string) string {
	if v := os.Getenv(k); v != "" {
		return v
	}
	return def
}

func main() {
	if len(os.Args) < 2 {
		fmt.Fprintln(os.Stderr, "usage: vcheck run|replay ...")
		os.Exit(2)
	}
	switch os.Args[1] {
	case "run":
		os.Exit(cmdRun(os.Args[2:]))
	case "replay":
		os.Exit(cmdReplay(os.Args[2:]))
	default:
		fmt.Fprintln(os.Stderr, "unknown command", os.Args[1])
		os.Exit(2)
	}
}

type evidence struct {
	PropertyID  string                 `json:"property_id"`
	Tier        string                 `json:"tier"`
	Seed        int                    `json:"seed"`
	Level       string                 `json:"level"`
	Coverage    map[string]interface{} `json:"coverage"`
	Assumptions []string               `json:"assumptions"`
	WallS       float64                `json:"wall_s"`
	Violations  int                    `json:"violations"`
}

func cmdRun(args []string) int {
	fs := flag.NewFlagSet("run", flag.ExitOnError)
	prop := fs.String("prop", "", "property id")
	tier := fs.String("tier", env("VERIF_TIER", "quick"), "quick|thorough")
	repo := fs.String("repo", env("VERIF_REPO", "/repo"), "repository root")
	vdir := fs.String("verif", env("VERIF_DIR", "/verif"), "verif root")
	workers := fs.Int("workers", runtime.NumCPU(), "worker count")
	only := fs.String("only", "", "run only entries whose name contains this")
	slog := fs.String("solverlog", "", "prefix for solver transcripts")
	tmo := fs.Int("qtimeout", 60, "per-query timeout (s)")
	budget := fs.Int("budget", 0, "wall-clock budget in seconds (0: 1500 quick / 5400 thorough)")
	noEvidence := fs.Bool("no-evidence", false, "do not write the evidence file")
	verbose := fs.Bool("v", false, "verbose")
	failFast := fs.Bool("fail-fast", false, "stop at the first violation (mutant regressions only; implies --no-evidence)")
	fs.Parse(args)
	if *failFast {
		*noEvidence = true
	}
	if *prop == "" {
		fmt.Fprintln(os.Stderr, "--prop required")
		return 2
	}
	seed, _ := strconv.Atoi(env("VERIF_SEED", "0"))
	start := time.Now()
	if *budget == 0 {
		*budget = 1500
		if *tier == "thorough" {
			*budget = 5400
		}
	}
	inconclusive := func(reason string) int {
		fmt.Printf("INCONCLUSIVE property=%s reason=%s\n", *prop, reason)
		return 2
	}

	hs, pkgFiles, err := sym.LoadHarnessFiles(filepath.Join(*vdir, "harness"), *prop)
	if err != nil {
		return inconclusive("harness-parse: " + err.Error())
	}
	var sel []*sym.Harness
	pkgNames := map[string]string{}
	for _, h := range hs {
		pkgNames[h.PkgDir] = h.PkgName
		if !h.Tiers[*tier] {
			continue
		}
		if *only != "" && !strings.Contains(h.Entry, *only) {
			continue
		}
		sel = append(sel, h)
	}
	if len(sel) == 0 {
		return inconclusive("no harness selected")
	}
	t0 := time.Now()
	p, err := sym.LoadProgram(*repo, *vdir, pkgFiles, pkgNames)
	if err != nil {
		return inconclusive(strings.ReplaceAll(err.Error(), "\n", " "))
	}
	loadS := time.Since(t0).Seconds()
	for _, h := range sel {
		if err := h.Resolve(p); err != nil {
			return inconclusive("harness-does-not-build: " + err.Error())
		}
	}
	if err := sym.CheckStubTargets(p, sel); err != nil {
		return inconclusive("harness-does-not-build: " + err.Error())
	}
	cfg := &sym.RunConfig{FailFast: *failFast, Workers: *workers, Tier: *tier, TimeoutS: *tmo, SolverLog: *slog,
		Deadline: start.Add(time.Duration(*budget) * time.Second), Verbose: *verbose}
	if mp := os.Getenv("VERIF_MODEL"); mp != "" {
		var doc sym.ReplayDoc
		b, err := os.ReadFile(mp)
		if err == nil {
			err = json.Unmarshal(b, &doc)
		}
		if err != nil {
			return inconclusive("cannot read VERIF_MODEL: " + err.Error())
		}
		sym.FixedModel = sym.Model(doc.Values)
	}
	if mp := os.Getenv("VERIF_EVALMODEL"); mp != "" {
		var doc sym.ReplayDoc
		b, err := os.ReadFile(mp)
		if err == nil {
			err = json.Unmarshal(b, &doc)
		}
		if err != nil {
			return inconclusive("cannot read VERIF_EVALMODEL: " + err.Error())
		}
		sym.EvalModel = sym.Model(doc.Values)
	}
	if os.Getenv("VERIF_QSITES") != "" {
		sym.QuerySites = map[string]int{}
	}
	results := sym.RunHarnesses(p, sel, cfg)
	if sym.QuerySites != nil {
		var ks []string
		for k := range sym.QuerySites {
			ks = append(ks, k)
		}
		sort.Slice(ks, func(i, j int) bool { return sym.QuerySites[ks[i]] > sym.QuerySites[ks[j]] })
		for _, k := range ks {
			fmt.Fprintf(os.Stderr, "QSITE %6d %s\n", sym.QuerySites[k], k)
		}
	}

	known := sym.LoadKnownFindings(filepath.Join(*vdir, "KNOWN_FINDINGS.txt"))
	exit := 0
	var lines []string
	totalViol := 0
	cov := map[string]interface{}{}
	var harnessCov []map[string]interface{}
	var samples []interface{}
	queries, obligations, discharged, nontrivial, paths := 0, 0, 0, 0, 0
	solverS := 0.0
	funcs := map[string]int{}
	assumptions := map[string]bool{}
	for _, r := range results {
		st := r.Stats
		queries += r.Queries
		obligations += st.Obligations
		discharged += st.Discharged
		nontrivial += st.Discharged - st.Trivial
		paths += st.Paths
		solverS += r.SolverTime.Seconds()
		for f, n := range st.Funcs {
			funcs[f] = n
		}
		for _, a := range r.H.Assumptions() {
			assumptions[r.H.Entry+": "+a] = true
		}
		for _, o := range r.H.Outside {
			assumptions[r.H.Entry+": outside the claim: "+o] = true
		}
		var stubs, intr []string
		for s := range st.Stubs {
			stubs = append(stubs, s)
		}
		for s := range st.Intrinsics {
			intr = append(intr, s)
		}
		sort.Strings(stubs)
		sort.Strings(intr)
		hc := map[string]interface{}{
			"entry": r.H.Entry, "package": r.H.PkgDir, "bound": r.H.Bound, "solver_profile": r.H.Profile,
			"paths": st.Paths, "aborted_paths": st.AbortedPaths, "abort_reasons": st.AbortReasons,
			"obligations": st.Obligations, "discharged": st.Discharged, "trivially_true": st.Trivial,
			"forks": st.Forks, "merged_branches": st.MergedBranch, "model_cache_hits": st.ModelHits, "implied_cache_hits": st.CacheHits,
			"queries": r.Queries, "sat": r.SatN, "unsat": r.UnsatN, "unknown": r.UnknownN,
			"solver_s": round3(r.SolverTime.Seconds()), "wall_s": round3(r.Wall.Seconds()), "terms": r.Terms,
			"functions_encoded": len(st.Funcs), "reached": st.Reached, "stubs": stubs, "intrinsics": intr,
			"violations": len(r.Violations), "inconclusive": r.Inconclusive,
		}
		harnessCov = append(harnessCov, hc)
		for _, s := range st.Samples {
			if len(samples) < 24 {
				samples = append(samples, s)
			}
		}
		for _, v := range r.Violations {
			path, rerr := sym.WriteReplay(*vdir, *prop, r.H, &v)
			if rerr != nil {
				r.Inconclusive = append(r.Inconclusive, "cannot write replay: "+rerr.Error())
				continue
			}
			if k := known.Match(*prop, r.H.Entry, v.ID); k != "" {
				lines = append(lines, fmt.Sprintf("KNOWN-FINDING: property=%s %s", *prop, k))
				continue
			}
			// replay against the real build before reporting
			outcome := sym.NativeReplay(*repo, *vdir, p, r.H, path)
			switch {
			case strings.HasPrefix(outcome, "VIOLATED"), strings.HasPrefix(outcome, "PANIC"):
				totalViol++
				lines = append(lines, fmt.Sprintf("VIOLATION property=%s replay=%s", *prop, path))
				lines = append(lines, fmt.Sprintf("  harness=%s assertion=%s kind=%s: %s (native replay: %s)", r.H.Entry, v.ID, v.Kind, v.Msg, outcome))
			case strings.HasPrefix(outcome, "UNAVAILABLE"):
				totalViol++
				lines = append(lines, fmt.Sprintf("VIOLATION property=%s replay=%s", *prop, path))
				lines = append(lines, fmt.Sprintf("  harness=%s assertion=%s kind=%s: %s (replay-kind=interpreter; native replay %s)", r.H.Entry, v.ID, v.Kind, v.Msg, outcome))
			default:
				r.Inconclusive = append(r.Inconclusive, fmt.Sprintf("replay-mismatch: %s/%s solver model did not reproduce natively (%s); replay=%s", r.H.Entry, v.ID, outcome, path))
			}
		}
		if len(r.Inconclusive) > 0 {
			for _, m := range r.Inconclusive {
				lines = append(lines, fmt.Sprintf("INCONCLUSIVE property=%s harness=%s reason=%s", *prop, r.H.Entry, strings.ReplaceAll(m, "\n", " | ")))
			}
			if exit == 0 {
				exit = 2
			}
		}
		if *verbose {
			b, _ := json.MarshalIndent(hc, "", " ")
			fmt.Println(string(b))
		}
	}
	if totalViol > 0 {
		exit = 1
	}
	var fnames []string
	for f := range funcs {
		fnames = append(fnames, f)
	}
	sort.Strings(fnames)
	var fl []string
	for _, f := range fnames {
		if strings.Contains(f, "semihalev/sdns") || strings.Contains(f, "miekg/dns") {
			fl = append(fl, fmt.Sprintf("%s (%d instrs)", f, funcs[f]))
		}
	}
	as := []string{
		"bounded claim: holds for every value of the symbolic inputs inside each harness's stated bound; nothing is claimed outside it",
		"single-threaded execution model: sync.Mutex/RWMutex are no-ops with a lock counter, sync/atomic operations are sequentially consistent cell operations",
		"integers are bit-vectors of their Go width (wrap-around exact); slice/string lengths are concrete shapes, contents symbolic",
	}
	for a := range assumptions {
		as = append(as, a)
	}
	sort.Strings(as)
	cov["explanation"] = "Each harness is an in-package Go function executed symbolically by /verif/engine (Go SSA -> SMT-LIB2): nondeterministic inputs are SMT variables, every feasible path is explored (branches decided by the solver), and every vAssert is discharged by an unsat answer to path-condition AND NOT assertion. 'obligations' counts assertion instances over all paths; 'discharged' those proven (unsat or syntactically true); bounds are per harness in 'harnesses[].bound'. Encoding is regenerated from the /repo working tree on every run."
	cov["harnesses"] = harnessCov
	cov["obligations"] = obligations
	cov["discharged"] = discharged
	cov["evaluations"] = queries + obligations
	cov["distinct_nontrivial"] = nontrivial
	cov["rule"] = "an obligation is one (harness, path, assertion) instance; non-trivial = its negation was not folded away syntactically and needed a solver query that returned unsat"
	cov["paths"] = paths
	cov["solver_queries"] = queries
	cov["solver_time_s"] = round3(solverS)
	cov["load_ssa_s"] = round3(loadS)
	cov["functions_encoded"] = fl
	cov["samples"] = samples
	cov["checker_cmd"] = "/verif/bin/vcheck run --prop " + *prop + " --tier " + *tier
	cov["trusted_base"] = []string{"golang.org/x/tools/go/ssa lowering", "/verif/engine symbolic executor and intrinsic models", "z3 4.8.12 / cvc5 1.0.3", "harness reference specifications"}
	ev := evidence{PropertyID: *prop, Tier: *tier, Seed: seed, Level: "other", Coverage: cov, Assumptions: as,
		WallS: round3(time.Since(start).Seconds()), Violations: totalViol}
	if !*noEvidence {
		os.MkdirAll(filepath.Join(*vdir, "evidence"), 0o755)
		b, _ := json.MarshalIndent(ev, "", " ")
		if err := os.WriteFile(filepath.Join(*vdir, "evidence", *prop+".json"), b, 0o644); err != nil {
			fmt.Fprintln(os.Stderr, "cannot write evidence:", err)
			if exit == 0 {
				exit = 2
			}
		}
	}
	for _, l := range lines {
		fmt.Println(l)
	}
	fmt.Printf("SUMMARY property=%s tier=%s harnesses=%d paths=%d obligations=%d discharged=%d queries=%d solver_s=%.1f wall_s=%.1f exit=%d\n",
		*prop, *tier, len(results), paths, obligations, discharged, queries, solverS, time.Since(start).Seconds(), exit)
	return exit
}

func round3(f float64) float64 { return float64(int64(f*1000+0.5)) / 1000 }

func cmdReplay(args []string) int {
	fs := flag.NewFlagSet("replay", flag.ExitOnError)
	repo := fs.String("repo", env("VERIF_REPO", "/repo"), "repository root")
	vdir := fs.String("verif", env("VERIF_DIR", "/verif"), "verif root")
	fs.Parse(args)
	if fs.NArg() != 1 {
		fmt.Fprintln(os.Stderr, "usage: vcheck replay <replay.json>")
		return 2
	}
	out, err := sym.ReplayFile(*repo, *vdir, fs.Arg(0))
	if err != nil {
		fmt.Fprintln(os.Stderr, err)
		return 2
	}
	fmt.Println(out)
	if strings.HasPrefix(out, "VIOLATED") || strings.HasPrefix(out, "PANIC") {
		return 1
	}
	return 0
}
