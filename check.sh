#!/bin/sh
# usage: check.sh <property> <quick|thorough>
# exit 0 = held on everything explored; 1 = VIOLATION (replayed); 2 = INCONCLUSIVE
cd "$(dirname "$0")"
export GOFLAGS=-mod=mod GOPROXY=off
unset GOSUMDB
[ -x bin/vcheck ] || ./setup.sh >/dev/null || exit 2
exec ./bin/vcheck run --prop "$1" --tier "${2:-quick}"
