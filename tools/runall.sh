#!/bin/sh
# usage: tools/runall.sh [quick|thorough]  - runs every property's check and validates the evidence files
cd "$(dirname "$0")/.."
tier=${1:-quick}
rc=0
for p in $(python3 -c "import json;print(' '.join(c['property_id'] for c in json.load(open('MANIFEST.json'))['checks']))"); do
  out=$(./check.sh $p $tier 2>&1); e=$?
  echo "$p exit=$e $(echo "$out" | grep '^SUMMARY' | sed 's/.*harnesses=/harnesses=/')"
  [ $e -ne 0 ] && { rc=1; echo "$out" | grep -v '^SUMMARY' | cut -c1-300 | head -5; }
done
python3-vt - <<'PY'
import json,jsonschema,glob
sch=json.load(open('/root/.vp/EVIDENCE.schema.json'))
for f in sorted(glob.glob('evidence/*.json')):
    try:
        jsonschema.validate(json.load(open(f)), sch)
    except Exception as ex:
        print('EVIDENCE INVALID', f, str(ex)[:200])
print('evidence files validated:', len(glob.glob('evidence/*.json')))
PY
exit $rc
