#!/bin/bash
# DEVELOPMENT RECORD: confirms a sub-agent round-3 seeded change in its scratch worktree under /tmp/seed3 (removed after the round); kept to show what "confirmed" meant.
# demo passes on the original, fails with the patch; touched packages' existing tests pass with the patch.
id=$1; S=${SEEDDIR:-/tmp/seed3}; wt=$S/$id; out=$S/out/$id
export GOFLAGS=-mod=mod GOPROXY=off
cd $wt || exit 2
git checkout -q -- . ; git clean -fdq
demo=$(cat $out/demo_path.txt); demofile=$(basename $demo); pkg=./$(dirname $demo)
cp $out/$demofile $wt/$demo
democmd=$(python3 -c "import json;print(json.load(open('$out/meta.json')).get('demo_cmd',''))")
runpat=$(echo "$democmd" | grep -o "\-run [^ ]*" | head -1 | tr -d "'\"")
[ -z "$runpat" ] && runpat="-run Demo"
rm -rf /tmp/sdns_temp*
echo "== demo on original (expect PASS)"; go test -vet=off -count=1 $runpat $pkg 2>&1 | tail -3; r1=${PIPESTATUS[0]}
git apply $out/patch.diff || { echo "PATCH DOES NOT APPLY"; exit 2; }
echo "== build with patch"; go build ./... 2>&1 | tail -3; rb=${PIPESTATUS[0]}
echo "== demo with patch (expect FAIL)"; go test -vet=off -count=1 $runpat $pkg 2>&1 | tail -4; r2=${PIPESTATUS[0]}
rm -f $wt/$demo
pkgs=$(git diff --name-only | xargs -n1 dirname | sort -u | sed 's#^#./#')
extra=$(python3 -c "import json;print(' '.join(p if p.startswith('./') else './'+p.strip('/') for p in json.load(open('$out/meta.json')).get('packages_tested',[]) if '...' not in p))" 2>/dev/null)
echo "== existing tests with patch: $pkgs $extra"; go test -vet=off -count=1 -p 3 $pkgs $extra 2>&1 | tail -8; r3=${PIPESTATUS[0]}
git checkout -q -- . ; git clean -fdq
echo "RESULT $id demo_orig=$r1 build=$rb demo_patched=$r2 tests_patched=$r3"
