#!/bin/sh
# usage: tools/mutant_w.sh <scratch-worktree> <prop> <only-pattern> <patch...>
# development helper: applies each patch in a scratch worktree (never /repo) and runs one harness there.
W=$1; P=$2; O=$3; shift 3
cd "$(dirname "$0")/.."
export GOFLAGS=-mod=mod GOPROXY=off
for m in "$@"; do
  if ! git -C $W apply "$PWD/$m" 2>/dev/null; then echo "$m: DOES-NOT-APPLY"; continue; fi
  out=$(timeout 900 ./bin/vcheck run --repo $W --prop $P --tier ${TIER:-quick} --no-evidence --workers ${WORKERS:-4} ${O:+--only $O} 2>&1); rc=$?
  git -C $W checkout -- .
  echo "$m: exit=$rc $(echo "$out" | grep -c '^VIOLATION') violations; $(echo "$out" | grep '^VIOLATION' | head -2 | cut -c1-150 | tr '\n' ' ') $(echo "$out" | grep '^INCONCLUSIVE' | head -1 | cut -c1-200)"
done
