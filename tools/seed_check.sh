#!/bin/bash
# usage: tools/seed_check.sh C07 [tier] - applies a seeded patch to /repo, runs the property's check, restores /repo
id=$1; tier=${2:-quick}
src=/verif/seeded/$id; [ -f $src/patch.diff ] || src=/tmp/seed/out/$id
cd /verif
git -C /repo apply $src/patch.diff || { echo "$id: DOES-NOT-APPLY"; exit 2; }
out=$(timeout 2400 ./bin/vcheck run --prop $id --tier $tier --no-evidence 2>&1); rc=$?
git -C /repo checkout -- .
echo "$id[$tier]: exit=$rc $(echo "$out" | grep -c '^VIOLATION') violations; $(echo "$out" | grep '^SUMMARY' | sed 's/.*wall_s=/wall_s=/')"
echo "$out" | grep "^VIOLATION\|^  harness\|^INCONCLUSIVE" | cut -c1-220 | head -6
