#!/bin/bash
# usage: tools/seed3_check.sh C07 [tier] - applies a round-3 seeded patch to a scratch worktree (VERIF_REPO, default /tmp/repo-x),
# runs the property's check there, restores the worktree. /repo is never touched.
id=$1; tier=${2:-quick}; R=${VERIF_REPO:-/tmp/repo-x}
src=/verif/seeded/$id-r3; [ -z "$SEEDDIR" ] && [ -f $src/patch.diff ] || src=${SEEDDIR:-/tmp/seed3}/out/$id
cd /verif
git -C $R apply $src/patch.diff || { echo "$id: DOES-NOT-APPLY"; exit 2; }
out=$(GOFLAGS=-mod=mod GOPROXY=off timeout 2400 ./bin/vcheck run --repo $R ${WORKERS:+--workers $WORKERS} --prop $id --tier $tier --no-evidence ${FAILFAST:+--fail-fast} 2>&1); rc=$?
git -C $R checkout -- .
echo "$id[$tier]: exit=$rc $(echo "$out" | grep -c '^VIOLATION') violations; $(echo "$out" | grep '^SUMMARY' | sed 's/.*wall_s=/wall_s=/')"
echo "$out" | grep "^VIOLATION\|^  harness\|^INCONCLUSIVE" | cut -c1-220 | head -6
