#!/bin/sh
# usage: tools/mutants.sh [PROP...]  - applies each /verif/mutants/<PROP>-*.patch to /repo in turn,
# runs the quick check, expects exit 1 (VIOLATION). /repo is restored after each.
cd "$(dirname "$0")/.."
props="$*"
[ -z "$props" ] && props=$(ls mutants/*.patch | sed 's#mutants/##; s#-.*##' | sort -u)
for p in $props; do
  for m in mutants/$p-*.patch; do
    [ -f "$m" ] || continue
    if ! git -C /repo apply "$PWD/$m" 2>/dev/null; then echo "$m: DOES-NOT-APPLY"; continue; fi
    out=$(timeout 1500 ./bin/vcheck run --prop $p --tier ${TIER:-quick} --no-evidence 2>&1); rc=$?
    git -C /repo checkout -- .
    v=$(echo "$out" | grep -c '^VIOLATION')
    echo "$m: exit=$rc violations=$v $(echo "$out" | grep '^SUMMARY' | sed 's/.*wall_s=\([0-9.]*\).*/wall=\1s/') $(echo "$out" | grep '^INCONCLUSIVE' | head -1 | cut -c1-160)"
  done
done
