#!/bin/sh
# usage: tools/mutants.sh [PROP...]  - applies each /verif/mutants/<PROP>-*.patch to /repo in turn,
# runs the quick check, expects exit 1 (VIOLATION). The tree is restored after each.
# VERIF_REPO=<scratch worktree> keeps /repo untouched; WORKERS=n limits the engine's workers;
# FAILFAST=1 stops each run at its first violation (much faster; the detecting harness is still reported).
cd "$(dirname "$0")/.."
R=${VERIF_REPO:-/repo}
props="$*"
[ -z "$props" ] && props=$(ls mutants/*.patch | sed 's#mutants/##; s#-.*##' | sort -u)
for p in $props; do
  for m in mutants/$p-*.patch; do
    [ -f "$m" ] || continue
    if ! git -C $R apply "$PWD/$m" 2>/dev/null; then echo "$m: DOES-NOT-APPLY"; continue; fi
    out=$(timeout 1500 ./bin/vcheck run --repo $R ${WORKERS:+--workers $WORKERS} --prop $p --tier ${TIER:-quick} --no-evidence ${FAILFAST:+--fail-fast} 2>&1); rc=$?
    git -C $R checkout -- .
    v=$(echo "$out" | grep -c '^VIOLATION')
    by=$(echo "$out" | grep '^VIOLATION' | sed 's#.*replay/[A-Z0-9]*-##; s#\.json##' | sort -u | head -3 | tr '\n' ' ')
    echo "$m: exit=$rc violations=$v $(echo "$out" | grep '^SUMMARY' | sed 's/.*wall_s=\([0-9.]*\).*/wall=\1s/') by=[$by] $(echo "$out" | grep '^INCONCLUSIVE' | head -1 | cut -c1-160)"
  done
done
