#!/usr/bin/env python3
"""Regenerates /verif/MANIFEST.json from the table below (kept valid at all times)."""
import json, os, sys
ROOT = os.path.dirname(os.path.dirname(os.path.abspath(__file__)))
TECH = "bounded symbolic execution of the real Go SSA (own SSA->SMT-LIB2 executor) + z3/cvc5; counterexamples replayed natively via go test overlay"
# id -> (level text, level note, design ref)
CLAIMED = {
 "C17": ("Every path of the real ipset.Set.add/compile/Contains (and the netip code below it) is executed symbolically for all prefix lists up to the stated size and every address; the stabbing query is proven equal to a naive scan with the standard library's own Prefix.Contains by unsat answers. Bounded: it is not a proof for longer lists.",
         "Trusted: go/ssa lowering, the /verif/engine executor and its intrinsic models (sort.Slice as the n<=12 insertion-sort regime, unique.Make), z3; the reference is net/netip's Prefix.Masked().Contains.", "DESIGN.md §5 C17"),
}
CLAIMED["C16"] = ("One inductive step of the real open-addressing table (Put, PutIfNotExists, Del, EvictKeysAt, grow, Clear, Get, Has): from an arbitrary table satisfying the representation invariant R (DESIGN.md A.1), with symbolic 64-bit keys/values/arguments, the solver proves R is re-established and that Get, Has and a full scan agree with map semantics for a fresh symbolic probe key, with the hash replaced by an uninterpreted function (so for every hash). Bounded to N=4 (quick) / N=8 (thorough) slots incl. growth; concurrency is outside the claim.",
  "Trusted: engine, solver, invariant R being reachable-state sound (a spurious pre-state would give a false alarm, not a false pass); primaryIndex abstracted to an uninterpreted function of the key.", "DESIGN.md §5 C16")
CLAIMED["C20"] = ("The real embedIPv4 / extractIPv4 / validatePrefix are executed symbolically for all six legal prefix lengths, every prefix byte value, all 2^32 IPv4 addresses and all 2^128 IPv6 addresses: octets land at the RFC 6052 positions (table written independently in the harness), octet 8 and the suffix are zero, extract inverts embed, extract accepts exactly the conformant addresses, illegal lengths are refused.",
  "Trusted: engine, solver, the RFC 6052 position table in the harness. Dispatch (WriteMsg) and gating kernels are added as they are built.", "DESIGN.md §5 C20")
CLAIMED["C03"] = ("Wire/presentation key identity: for every uncompressed wire name within the bound the bytes hashed by KeyWire/KeyWireWithPrefix are proven identical to those hashed by Key/KeyString/KeyWithPrefix for the presentation name that the DNS library's own UnpackDomainName (executed symbolically) decodes from the same octets, for all 256 octet values; WireNameEqualsPresentation accepts a stored name exactly when it equals the decoded name up to ASCII case. xxhash is an uninterpreted function of the recorded preimage, so equality of keys is shown through equality of preimages.",
  "Trusted: engine, solver; dns.escapeByte replaced by its arithmetic form after the solver proves the two equal for all 256 octets (VerifC03_EscapeLemma). Collision-verification of stored entries and lookup routes are added as built; interleavings are outside the claim.", "DESIGN.md §5 C03")
CLAIMED["C13"] = ("Backoff envelope and one record step of the real FailureCache: for every admissible (initial,max) configuration at nanosecond resolution and every 32-bit streak the solver proves min<=backoff<=max, backoff(1)=min, at most doubling, monotone; NewFailureCache admits exactly the documented range; one record() from an arbitrary stored state (absent / same key / colliding different key, any streak, any clock) is idempotent while active, advances the streak by at most one, resets after a long idle, and always waits within [min,max].",
  "Trusted: engine, solver, time model (instants as int64 ns); the bounded table behind the cache is a one-cell map model here (its own behaviour is C16).", "DESIGN.md §5 C13")
CLAIMED["C14"] = ("Differential check of sdns's streaming KeyTag (incl. the RSAMD5 derivation) against the DNS library's DNSKEY.KeyTag with both executed symbolically on the same key: real encoding/base64 decoder, symbolic window over all 256 byte values (valid alphabet, padding, CR/LF, garbage) at short-key positions and straddling the 256-character chunk boundary, all flags/protocol/algorithm values; equal tags wherever the library does not panic, and no panic on sdns's side.",
  "Trusted: engine, solver. Signature mathematics, DS digest and canonical form are outside this check until their harnesses are built.", "DESIGN.md §5 C14")
CLAIMED["C19"] = ("Policy.Clamp, Policy.ClampScope and Build executed symbolically over every policy byte, option family/netmask/scope and address (4/16 bytes, mismatches included): forwarded netmask <= ceiling and <= client's, all host bits zero, network bits unchanged, SCOPE 0, family kept, fresh storage; cache scope = min(authority scope, forwarded source, floor) with the address truncated; any out-of-range setting yields no policy at all.",
  "Trusted: engine, solver, net/netip executed as real code. Option stripping in SetEdns0 and the shared-denial bypass are separate harnesses (added as built).", "DESIGN.md §5 C19")

def claim(pid, text, note):
    CLAIMED[pid] = (text, note, "DESIGN.md §5 " + pid)

claim("C01", "Two kernels of the validator's structural soundness: (1) NameInZone - 'owner is at or below the signer zone' - is proven, for all names in the bound in the library's canonical presentation spelling, to be exactly label-wise suffix containment and to agree with the library's IsSubDomain (so a key for example.com. never covers foo\\.example.com. or notexample.com.); (2) the edns writer's AD discipline: for every combination of client facts and upstream message in the bound, AD leaves only if the upstream set it and the client did not opt out (CD, or neither DO nor AD), and never on a truncated reply. Signature mathematics, DS-chain walking and the end-to-end SERVFAIL mapping are outside this check.",
      "Trusted: engine, solver; dns.escapeByte replaced by its arithmetic form (proven equal for all 256 octets by VerifC03_EscapeLemma); Msg.Len verdict and cookie digest stubbed in the edns harness.")
claim("C02", "Canonical order: CanonicalCompare is proven equal to the RFC 4034 section 6.1 order of the decoded labels for every pair of names in the bound, in all three escape spellings of every octet value, and antisymmetric; the NSEC interval test nsecCovers is proven, over an arbitrary total order (names mapped to symbolic ranks), to be exactly 'strictly inside (owner,next)' with apex wrap-around and the single-name sentinel. NSEC3 hashing, closest-encloser proofs end to end and the aggressive-use classifier are outside this check.",
      "Trusted: engine, solver, the reference order written on label arrays in the harness.")
claim("C04", "Lifetime arithmetic on the real code with symbolic instants/TTLs: remaining() is exactly min(ttl expiry, delegation cut) and never grows as the clock advances; TTL()/IsExpired()/ToMsg (library Pack/Unpack executed symbolically) never show more than what remained before the call and serve nothing once it is over; CalculateCacheTTL stays in [5 s, 24 h] and never exceeds the smallest record TTL, negative SOA minimum or time to RRSIG expiry; BoundCutFor only ever shortens the request's delegation cut. Alias-chase composition, prefetch races and the late-write guard are outside this check.",
      "Trusted: engine, solver (cvc5 bit-vectors-as-integers for the divisions by 10^9), time model (instants = int64 ns on one line; every clock reading a fresh non-decreasing variable), float conversion of Duration.Seconds modelled as exact truncation.")
claim("C05", "Raw-packet admission: Request.ParseWire is executed on arbitrary symbolic packets (every byte value) and proven to accept exactly the documented grammar (DESIGN.md A.3, written as an independent recogniser), never to panic, to leave no facts behind on refusal, and to record every fact (id, flags, question region, OPT size/DO/version, ECS/NSID/keepalive presence, cookie region) as the grammar reads it. Cache-ladder equivalence and byte-built OPT parity are outside this check.",
      "Trusted: engine, solver, the grammar recogniser in the harness. Bounds: packet lengths per harness (<= 22/30 bytes fully arbitrary; option payloads to 42 bytes with consistent framing).")
claim("C06", "Header verdict for all 2^96 headers equals the documented rule and the DNS library's accept function, and the in-place rejection is a bare header echoing ID/opcode/RD with QR and the right rcode; the edns writer, for every combination of negotiated facts and upstream message in the bound, emits no OPT unless the client sent one, echoes the client's DO, strips RRSIG/NSEC/NSEC3 without DO (unless RRSIG was asked), never returns client-subnet or an upstream keepalive, returns the cookie only against a client cookie, clears AD for opted-out clients, and a truncated reply holds only question and OPT.",
      "Trusted: engine, solver; the size measurement (Msg.Len) is a symbolic verdict, the cookie digest a fixed string. TCP/DoH/DoQ entry code and BADVERS are outside this check.")
claim("C07", "Transaction guard of the upstream client: for every script of replies in the bound (symbolic ids, 0-2 questions, symbolic type/class/name characters) on datagram and stream transports, Exchange returns success only for a reply carrying the query's ID and exactly its question (name compared ASCII-case-insensitively); datagram mismatches are skipped, a stream mismatch is an error. Referral/glue/bailiwick filtering in the resolver is outside this check.",
      "Trusted: engine, solver, ASCII model of strings.ToLower (non-ASCII name bytes cut and listed). ReadMsg/WriteMsg are scripted stubs.")
claim("C08", "Lease storage of the delegation cache: SetUntil stores an absolute expiry verbatim, capped at now+12 h, never later than requested, not at all when already over; Set never applies a lower clamp; Get returns an entry only strictly before its expiry - for arbitrary symbolic clocks, expiries and keys. Lease derivation in processDelegation and propagation of the cut into answers are outside this check (the cut fold itself is C04's BoundCutFor kernel).",
      "Trusted: engine, solver, time model; the table behind the cache is a one-cell map model (C16).")
claim("C09", "atomicGobWrite over a symbolic file system: with an error possible at every CreateTemp/Encode/Sync/Close/Rename/dir-sync call and the invariant asserted after every step (= every crash point), the state file is always the previous or the new complete content, success implies new content with the directory entry synced, failures before the rename clean up; sameKeyExceptRevoke accepts exactly the same key material with only the REVOKE bit differing (never by tag). The RFC 5011 state machine in AutoTA is outside this check.",
      "Trusted: engine, solver, the 3-cell file-system model in the harness (rename of an unsynced temp may tear the target).")
claim("C10", "Stream framing of the TCP/DoT engine: from drain-buffer fill levels at every boundary, staging a reply is proven to append exactly len16(reply)||reply after everything already queued, whether it fits, forces a flush first or goes out alone, with earlier replies untouched and first; flush writes exactly the staged bytes once; a write failure is sticky. Real goroutine interleavings, UDP slab reuse and DoH/DoQ are outside this check.",
      "Trusted: engine, solver; the socket is a recording stub with symbolic failures.")
claim("C11", "Safety kernels of 'exactly one reply': bounded model check of the dedup generations over every sequence of join / leader-done / follower-regroup / deadline-fires by 3 callers (at most one leader per generation, finished generations not retained, one shared next generation per cohort, timed-out generations never re-led); and the chain writer reaches the transport at most once under every sequence of Write/WriteMsg/WriteWire/BeginWire+CommitWire with symbolic transport/decoder/packer outcomes. Liveness, latency and quiescence are not decidable with this technique and are outside the claim.",
      "Trusted: engine, solver; context.WithTimeout replaced by a flag-and-fire model; operations are atomic exactly as the mutex makes them.")
claim("C12", "Work-ledger debit as an inductive step with interference: from an arbitrary ledger state satisfying 'counter <= limit', one Debit - with other successful debitors allowed to act at any of this caller's atomic operations (rely = guarantee) - never publishes a counter above its limit in enforce mode, counts exactly once when accepted, leaves the counter alone and latches the first rejected dimension when refused; shadow mode only counts and never refuses; CheckLocal allows exactly used < limit. Debit-before-send placement in the resolver and depth/loop caps are outside this check.",
      "Trusted: engine, solver; sync/atomic modelled as sequentially consistent cell operations with an environment step before each.")
claim("C15", "Differential check of the pooled packer against the library: TryPack and dns.Msg.Pack are both executed symbolically on the same message (every header bit and rcode as any int, symbolic ttl/class/address/option bytes, compressible names, 0-2 OPTs, Compress on/off, fresh or dirty pool state); whenever TryPack handles a message the bytes are proven identical to the library's, the slice has no spare capacity, the message and its OPT are untouched; nil, typed-nil and foreign records are declined before any output.",
      "Trusted: engine, solver, reflect modelled through go/types for TypeOf/Kind/Elem/PkgPath/IsNil, sync.Pool as a LIFO of harness-seeded objects. Record types beyond A/CNAME/OPT and 4096-byte boundary sizes are outside the bound.")
claim("C18", "Blocklist matching vs the label-wise rule: for every set of plain/wildcard/whitelist entries and query in the bound (any ASCII label character, mixed case, with/without trailing dot) Exists equals 'name or a parent is plain, or a strict parent is wildcard, and neither it nor a parent is whitelisted'; persistence over a symbolic file system: two snapshots reaching persist() in either order with arbitrary I/O failures leave a complete file that never goes backwards and matches the bookkeeping.",
      "Trusted: engine, solver, ASCII model of strings.ToLower, the file-system model. Names with escapes and the reload parser are outside the bound.")

NA_REASON = "no check registered yet: the solver-based harness for this property is still being built in this session (see DESIGN.md §5 for the plan)"
def main():
    props = [json.loads(l) for l in open(os.path.join(ROOT, "properties.jsonl"))]
    checks, na = [], []
    for p in props:
        pid = p["id"]
        if pid in CLAIMED:
            text, note, ref = CLAIMED[pid]
            checks.append({
                "property_id": pid,
                "quick_cmd": f"./check.sh {pid} quick",
                "thorough_cmd": f"./check.sh {pid} thorough",
                "evidence_file": f"/verif/evidence/{pid}.json",
                "replay_cmd_template": "./bin/vcheck replay {path}",
                "engine": "vcheck",
                "level_claimed": {"category": "other", "text": text, "design_ref": ref},
                "level_note": note,
                "technique": TECH,
            })
        else:
            na.append({"property_id": pid, "reason": NA.get(pid, NA_REASON)})
    m = {
        "version": 1,
        "setup_cmd": "./setup.sh",
        "hooks": {"guard": "verif", "enable": "harnesses and the rt primitives are overlaid into the package under test at load time (go/packages Overlay, -tags verif); nothing is written under /repo",
                  "baseline_off_cmd": "cd /repo && GOFLAGS=-mod=mod GOPROXY=off go test -vet=off -count=1 -timeout 25m ./...",
                  "source_commits": [], "add_only": True},
        "engines": [{"name": "vcheck", "path": "/verif/engine", "serves_properties": sorted(CLAIMED),
                     "kind_free_text": "Go SSA -> SMT-LIB2 symbolic executor (path exploration by re-execution, z3 -in / cvc5 --incremental over a pipe)"}],
        "checks": checks,
        "not_applicable": na,
        "notes": "Exit codes: 0 held within bounds; 1 VIOLATION (counterexample replayed against the real build); 2 INCONCLUSIVE (engine/solver/budget/vacuity problem - never reported as success).",
    }
    json.dump(m, open(os.path.join(ROOT, "MANIFEST.json"), "w"), indent=1)
    print("claimed:", sorted(CLAIMED), "na:", len(na))
NA = {}
if __name__ == "__main__":
    main()
