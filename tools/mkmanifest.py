#!/usr/bin/env python3
"""Regenerates /verif/MANIFEST.json from the table below (kept valid at all times)."""
import json, os, sys
ROOT = os.path.dirname(os.path.dirname(os.path.abspath(__file__)))
TECH = "bounded symbolic execution of the real Go SSA (own SSA->SMT-LIB2 executor) + z3/cvc5; counterexamples replayed natively via go test overlay"
# id -> (level text, level note, design ref)
CLAIMED = {
 "C17": ("Every path of the real ipset.Set.add/compile/Contains (and the netip code below it) is executed symbolically for all prefix lists up to the stated size and every address; the stabbing query is proven equal to a naive scan with the standard library's own Prefix.Contains by unsat answers. Bounded: it is not a proof for longer lists.",
         "Trusted: go/ssa lowering, the /verif/engine executor and its intrinsic models (sort.Slice as the n<=12 insertion-sort regime, unique.Make), z3; the reference is net/netip's Prefix.Masked().Contains.", "DESIGN.md §5 C17"),
}
CLAIMED["C16"] = ("One inductive step of the real open-addressing table (Put, PutIfNotExists, Del, EvictKeysAt, grow, Clear, Get, Has): from an arbitrary table satisfying the representation invariant R (DESIGN.md A.1), with symbolic 64-bit keys/values/arguments, the solver proves R is re-established and that Get, Has and a full scan agree with map semantics for a fresh symbolic probe key, with the hash replaced by an uninterpreted function (so for every hash). Bounded to N=4 (quick) / N=8 (thorough) slots incl. growth; concurrency is outside the claim.",
  "Trusted: engine, solver, invariant R being reachable-state sound (a spurious pre-state would give a false alarm, not a false pass); primaryIndex abstracted to an uninterpreted function of the key.", "DESIGN.md §5 C16")
CLAIMED["C20"] = ("The real embedIPv4 / extractIPv4 / validatePrefix are executed symbolically for all six legal prefix lengths, every prefix byte value, all 2^32 IPv4 addresses and all 2^128 IPv6 addresses: octets land at the RFC 6052 positions (table written independently in the harness), octet 8 and the suffix are zero, extract inverts embed, extract accepts exactly the conformant addresses, illegal lengths are refused.",
  "Trusted: engine, solver, the RFC 6052 position table in the harness. Dispatch (WriteMsg) and gating kernels are added as they are built.", "DESIGN.md §5 C20")
CLAIMED["C03"] = ("Wire/presentation key identity: for every uncompressed wire name within the bound the bytes hashed by KeyWire/KeyWireWithPrefix are proven identical to those hashed by Key/KeyString/KeyWithPrefix for the presentation name that the DNS library's own UnpackDomainName (executed symbolically) decodes from the same octets, for all 256 octet values; WireNameEqualsPresentation accepts a stored name exactly when it equals the decoded name up to ASCII case. xxhash is an uninterpreted function of the recorded preimage, so equality of keys is shown through equality of preimages.",
  "Trusted: engine, solver; dns.escapeByte replaced by its arithmetic form after the solver proves the two equal for all 256 octets (VerifC03_EscapeLemma). Collision-verification of stored entries and lookup routes are added as built; interleavings are outside the claim.", "DESIGN.md §5 C03")
CLAIMED["C13"] = ("Backoff envelope and one record step of the real FailureCache: for every admissible (initial,max) configuration at nanosecond resolution and every 32-bit streak the solver proves min<=backoff<=max, backoff(1)=min, at most doubling, monotone; NewFailureCache admits exactly the documented range; one record() from an arbitrary stored state (absent / same key / colliding different key, any streak, any clock) is idempotent while active, advances the streak by at most one, resets after a long idle, and always waits within [min,max].",
  "Trusted: engine, solver, time model (instants as int64 ns); the bounded table behind the cache is a one-cell map model here (its own behaviour is C16).", "DESIGN.md §5 C13")
CLAIMED["C14"] = ("Differential check of sdns's streaming KeyTag (incl. the RSAMD5 derivation) against the DNS library's DNSKEY.KeyTag with both executed symbolically on the same key: real encoding/base64 decoder, symbolic window over all 256 byte values (valid alphabet, padding, CR/LF, garbage) at short-key positions and straddling the 256-character chunk boundary, all flags/protocol/algorithm values; equal tags wherever the library does not panic, and no panic on sdns's side.",
  "Trusted: engine, solver. Signature mathematics, DS digest and canonical form are outside this check until their harnesses are built.", "DESIGN.md §5 C14")
CLAIMED["C19"] = ("Policy.Clamp, Policy.ClampScope and Build executed symbolically over every policy byte, option family/netmask/scope and address (4/16 bytes, mismatches included): forwarded netmask <= ceiling and <= client's, all host bits zero, network bits unchanged, SCOPE 0, family kept, fresh storage; cache scope = min(authority scope, forwarded source, floor) with the address truncated; any out-of-range setting yields no policy at all.",
  "Trusted: engine, solver, net/netip executed as real code. Option stripping in SetEdns0 and the shared-denial bypass are separate harnesses (added as built).", "DESIGN.md §5 C19")
NA_REASON = "no check registered yet: the solver-based harness for this property is still being built in this session (see DESIGN.md §5 for the plan)"
def main():
    props = [json.loads(l) for l in open(os.path.join(ROOT, "properties.jsonl"))]
    checks, na = [], []
    for p in props:
        pid = p["id"]
        if pid in CLAIMED:
            text, note, ref = CLAIMED[pid]
            checks.append({
                "property_id": pid,
                "quick_cmd": f"./check.sh {pid} quick",
                "thorough_cmd": f"./check.sh {pid} thorough",
                "evidence_file": f"/verif/evidence/{pid}.json",
                "replay_cmd_template": "./bin/vcheck replay {path}",
                "engine": "vcheck",
                "level_claimed": {"category": "other", "text": text, "design_ref": ref},
                "level_note": note,
                "technique": TECH,
            })
        else:
            na.append({"property_id": pid, "reason": NA.get(pid, NA_REASON)})
    m = {
        "version": 1,
        "setup_cmd": "./setup.sh",
        "hooks": {"guard": "verif", "enable": "harnesses and the rt primitives are overlaid into the package under test at load time (go/packages Overlay, -tags verif); nothing is written under /repo",
                  "baseline_off_cmd": "cd /repo && GOFLAGS=-mod=mod GOPROXY=off go test -vet=off -count=1 -timeout 25m ./...",
                  "source_commits": [], "add_only": True},
        "engines": [{"name": "vcheck", "path": "/verif/engine", "serves_properties": sorted(CLAIMED),
                     "kind_free_text": "Go SSA -> SMT-LIB2 symbolic executor (path exploration by re-execution, z3 -in / cvc5 --incremental over a pipe)"}],
        "checks": checks,
        "not_applicable": na,
        "notes": "Exit codes: 0 held within bounds; 1 VIOLATION (counterexample replayed against the real build); 2 INCONCLUSIVE (engine/solver/budget/vacuity problem - never reported as success).",
    }
    json.dump(m, open(os.path.join(ROOT, "MANIFEST.json"), "w"), indent=1)
    print("claimed:", sorted(CLAIMED), "na:", len(na))
NA = {}
if __name__ == "__main__":
    main()
