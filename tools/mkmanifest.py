#!/usr/bin/env python3
"""Regenerates /verif/MANIFEST.json from the table below (kept valid at all times)."""
import json, os, sys
ROOT = os.path.dirname(os.path.dirname(os.path.abspath(__file__)))
TECH = "bounded symbolic execution of the real Go SSA (own SSA->SMT-LIB2 executor) + z3/cvc5; counterexamples replayed natively via go test overlay"
# id -> (level text, level note, design ref)
CLAIMED = {
 "C17": ("Every path of the real ipset.Set.add/compile/Contains (and the netip code below it) is executed symbolically for all prefix lists up to the stated size and every address; the stabbing query is proven equal to a naive scan with the standard library's own Prefix.Contains by unsat answers. Bounded: it is not a proof for longer lists.",
         "Trusted: go/ssa lowering, the /verif/engine executor and its intrinsic models (sort.Slice as the n<=12 insertion-sort regime, unique.Make), z3; the reference is net/netip's Prefix.Masked().Contains.", "DESIGN.md §5 C17"),
}
CLAIMED["C16"] = ("One inductive step of the real open-addressing table (Put, PutIfNotExists, Del, EvictKeysAt, grow, Clear, Get, Has): from an arbitrary table satisfying the representation invariant R (DESIGN.md A.1), with symbolic 64-bit keys/values/arguments, the solver proves R is re-established and that Get, Has and a full scan agree with map semantics for a fresh symbolic probe key, with the hash replaced by an uninterpreted function (so for every hash). Bounded to N=4 slots incl. growth to 8 (N=8 tables exceeded the budget and are outside the claim); concurrency is outside the claim.",
  "Trusted: engine, solver, invariant R being reachable-state sound (a spurious pre-state would give a false alarm, not a false pass); primaryIndex abstracted to an uninterpreted function of the key.", "DESIGN.md §5 C16")
CLAIMED["C20"] = ("The real embedIPv4 / extractIPv4 / validatePrefix are executed symbolically for all six legal prefix lengths, every prefix byte value, all 2^32 IPv4 addresses and all 2^128 IPv6 addresses: octets land at the RFC 6052 positions (table written independently in the harness), octet 8 and the suffix are zero, extract inverts embed, extract accepts exactly the conformant addresses, illegal lengths are refused.",
  "Trusted: engine, solver, the RFC 6052 position table in the harness. Dispatch (WriteMsg) and gating kernels are added as they are built.", "DESIGN.md §5 C20")
CLAIMED["C03"] = ("Wire/presentation key identity: for every uncompressed wire name within the bound the bytes hashed by KeyWire/KeyWireWithPrefix are proven identical to those hashed by Key/KeyString/KeyWithPrefix for the presentation name that the DNS library's own UnpackDomainName (executed symbolically) decodes from the same octets, for all 256 octet values; WireNameEqualsPresentation accepts a stored name exactly when it equals the decoded name up to ASCII case. xxhash is an uninterpreted function of the recorded preimage, so equality of keys is shown through equality of preimages.",
  "Trusted: engine, solver; dns.escapeByte replaced by its arithmetic form after the solver proves the two equal for all 256 octets (VerifC03_EscapeLemma). Collision-verification of stored entries and lookup routes are added as built; interleavings are outside the claim.", "DESIGN.md §5 C03")
CLAIMED["C13"] = ("Backoff envelope and one record step of the real FailureCache: for every admissible (initial,max) configuration at nanosecond resolution and every 32-bit streak the solver proves min<=backoff<=max, backoff(1)=min, at most doubling, monotone; NewFailureCache admits exactly the documented range; one record() from an arbitrary stored state (absent / same key / colliding different key, any streak, any clock) is idempotent while active, advances the streak by at most one, resets after a long idle, and always waits within [min,max].",
  "Trusted: engine, solver, time model (instants as int64 ns); the bounded table behind the cache is a one-cell map model here (its own behaviour is C16).", "DESIGN.md §5 C13")
CLAIMED["C14"] = ("Differential check of sdns's streaming KeyTag (incl. the RSAMD5 derivation) against the DNS library's DNSKEY.KeyTag with both executed symbolically on the same key: real encoding/base64 decoder, symbolic window over all 256 byte values (valid alphabet, padding, CR/LF, garbage) at short-key positions and straddling the 256-character chunk boundary, all flags/protocol/algorithm values; equal tags wherever the library does not panic, and no panic on sdns's side.",
  "Trusted: engine, solver. Signature mathematics, DS digest and canonical form are outside this check until their harnesses are built.", "DESIGN.md §5 C14")
CLAIMED["C19"] = ("Policy.Clamp, Policy.ClampScope and Build executed symbolically over every policy byte, option family/netmask/scope and address (4/16 bytes, mismatches included): forwarded netmask <= ceiling and <= client's, all host bits zero, network bits unchanged, SCOPE 0, family kept, fresh storage; cache scope = min(authority scope, forwarded source, floor) with the address truncated; any out-of-range setting yields no policy at all.",
  "Trusted: engine, solver, net/netip executed as real code. Option stripping in SetEdns0 and the shared-denial bypass are separate harnesses (added as built).", "DESIGN.md §5 C19")

def claim(pid, text, note):
    CLAIMED[pid] = (text, note, "DESIGN.md §5 " + pid)

claim("C01", "Two kernels of the validator's structural soundness: (1) NameInZone - 'owner is at or below the signer zone' - is proven, for all names in the bound in the library's canonical presentation spelling, to be exactly label-wise suffix containment and to agree with the library's IsSubDomain (so a key for example.com. never covers foo\\.example.com. or notexample.com.); (2) the edns writer's AD discipline: for every combination of client facts and upstream message in the bound, AD leaves only if the upstream set it and the client did not opt out (CD, or neither DO nor AD), and never on a truncated reply. Signature mathematics, DS-chain walking and the end-to-end SERVFAIL mapping are outside this check.",
      "Trusted: engine, solver; dns.escapeByte replaced by its arithmetic form (proven equal for all 256 octets by VerifC03_EscapeLemma); Msg.Len verdict and cookie digest stubbed in the edns harness.")
claim("C02", "Canonical order: CanonicalCompare is proven equal to the RFC 4034 section 6.1 order of the decoded labels for every pair of names in the bound, in all three escape spellings of every octet value, and antisymmetric; the NSEC interval test nsecCovers is proven, over an arbitrary total order (names mapped to symbolic ranks), to be exactly 'strictly inside (owner,next)' with apex wrap-around and the single-name sentinel. NSEC3 hashing, closest-encloser proofs end to end and the aggressive-use classifier are outside this check.",
      "Trusted: engine, solver, the reference order written on label arrays in the harness.")
claim("C04", "Lifetime arithmetic on the real code with symbolic instants/TTLs: remaining() is exactly min(ttl expiry, delegation cut) and never grows as the clock advances; TTL()/IsExpired()/ToMsg (library Pack/Unpack executed symbolically) never show more than what remained before the call and serve nothing once it is over; CalculateCacheTTL stays in [5 s, 24 h] and never exceeds the smallest record TTL, negative SOA minimum or time to RRSIG expiry; BoundCutFor only ever shortens the request's delegation cut. Alias-chase composition, prefetch races and the late-write guard are outside this check.",
      "Trusted: engine, solver (cvc5 bit-vectors-as-integers for the divisions by 10^9), time model (instants = int64 ns on one line; every clock reading a fresh non-decreasing variable), float conversion of Duration.Seconds modelled as exact truncation.")
claim("C05", "Raw-packet admission: Request.ParseWire is executed on arbitrary symbolic packets (every byte value) and proven to accept exactly the documented grammar (DESIGN.md A.3, written as an independent recogniser), never to panic, to leave no facts behind on refusal, and to record every fact (id, flags, question region, OPT size/DO/version, ECS/NSID/keepalive presence, cookie region) as the grammar reads it. Cache-ladder equivalence and byte-built OPT parity are outside this check.",
      "Trusted: engine, solver, the grammar recogniser in the harness. Bounds: packet lengths per harness (<= 22/30 bytes fully arbitrary; option payloads to 42 bytes with consistent framing).")
claim("C06", "Header verdict for all 2^96 headers equals the documented rule and the DNS library's accept function, and the in-place rejection is a bare header echoing ID/opcode/RD with QR and the right rcode; the edns writer, for every combination of negotiated facts and upstream message in the bound, emits no OPT unless the client sent one, echoes the client's DO, strips RRSIG/NSEC/NSEC3 without DO (unless RRSIG was asked), never returns client-subnet or an upstream keepalive, returns the cookie only against a client cookie, clears AD for opted-out clients, and a truncated reply holds only question and OPT.",
      "Trusted: engine, solver; the size measurement (Msg.Len) is a symbolic verdict, the cookie digest a fixed string. TCP/DoH/DoQ entry code and BADVERS are outside this check.")
claim("C07", "Transaction guard of the upstream client: for every script of replies in the bound (symbolic ids, 0-2 questions, symbolic type/class/name characters) on datagram and stream transports, Exchange returns success only for a reply carrying the query's ID and exactly its question (name compared ASCII-case-insensitively); datagram mismatches are skipped, a stream mismatch is an error. Referral/glue/bailiwick filtering in the resolver is outside this check.",
      "Trusted: engine, solver, ASCII model of strings.ToLower (non-ASCII name bytes cut and listed). ReadMsg/WriteMsg are scripted stubs.")
claim("C08", "Lease storage of the delegation cache: SetUntil stores an absolute expiry verbatim, capped at now+12 h, never later than requested, not at all when already over; Set never applies a lower clamp; Get returns an entry only strictly before its expiry - for arbitrary symbolic clocks, expiries and keys. Lease derivation in processDelegation and propagation of the cut into answers are outside this check (the cut fold itself is C04's BoundCutFor kernel).",
      "Trusted: engine, solver, time model; the table behind the cache is a one-cell map model (C16).")
claim("C09", "atomicGobWrite over a symbolic file system: with an error possible at every CreateTemp/Encode/Sync/Close/Rename/dir-sync call and the invariant asserted after every step (= every crash point), the state file is always the previous or the new complete content, success implies new content with the directory entry synced, failures before the rename clean up; sameKeyExceptRevoke accepts exactly the same key material with only the REVOKE bit differing (never by tag). The RFC 5011 state machine in AutoTA is outside this check.",
      "Trusted: engine, solver, the 3-cell file-system model in the harness (rename of an unsynced temp may tear the target).")
claim("C10", "Stream framing of the TCP/DoT engine: from drain-buffer fill levels at every boundary, staging a reply is proven to append exactly len16(reply)||reply after everything already queued, whether it fits, forces a flush first or goes out alone, with earlier replies untouched and first; flush writes exactly the staged bytes once; a write failure is sticky. Real goroutine interleavings, UDP slab reuse and DoH/DoQ are outside this check.",
      "Trusted: engine, solver; the socket is a recording stub with symbolic failures.")
claim("C11", "Safety kernels of 'exactly one reply': bounded model check of the dedup generations over every sequence of join / leader-done / follower-regroup / deadline-fires by 3 callers (at most one leader per generation, finished generations not retained, one shared next generation per cohort, timed-out generations never re-led); and the chain writer reaches the transport at most once under every sequence of Write/WriteMsg/WriteWire/BeginWire+CommitWire with symbolic transport/decoder/packer outcomes. Liveness, latency and quiescence are not decidable with this technique and are outside the claim.",
      "Trusted: engine, solver; context.WithTimeout replaced by a flag-and-fire model; operations are atomic exactly as the mutex makes them.")
claim("C12", "Work-ledger debit as an inductive step with interference: from an arbitrary ledger state satisfying 'counter <= limit', one Debit - with other successful debitors allowed to act at any of this caller's atomic operations (rely = guarantee) - never publishes a counter above its limit in enforce mode, counts exactly once when accepted, leaves the counter alone and latches the first rejected dimension when refused; shadow mode only counts and never refuses; CheckLocal allows exactly used < limit. Debit-before-send placement in the resolver and depth/loop caps are outside this check.",
      "Trusted: engine, solver; sync/atomic modelled as sequentially consistent cell operations with an environment step before each.")
claim("C15", "Differential check of the pooled packer against the library: TryPack and dns.Msg.Pack are both executed symbolically on the same message (every header bit and rcode as any int, symbolic ttl/class/address/option bytes, compressible names, 0-2 OPTs, Compress on/off, fresh or dirty pool state); whenever TryPack handles a message the bytes are proven identical to the library's, the slice has no spare capacity, the message and its OPT are untouched; nil, typed-nil and foreign records are declined before any output.",
      "Trusted: engine, solver, reflect modelled through go/types for TypeOf/Kind/Elem/PkgPath/IsNil, sync.Pool as a LIFO of harness-seeded objects. Record types beyond A/CNAME/OPT and 4096-byte boundary sizes are outside the bound.")
claim("C18", "Blocklist matching vs the label-wise rule: for every set of plain/wildcard/whitelist entries and query in the bound (any ASCII label character, mixed case, with/without trailing dot) Exists equals 'name or a parent is plain, or a strict parent is wildcard, and neither it nor a parent is whitelisted'; persistence over a symbolic file system: two snapshots reaching persist() in either order with arbitrary I/O failures leave a complete file that never goes backwards and matches the bookkeeping.",
      "Trusted: engine, solver, ASCII model of strings.ToLower, the file-system model. Names with escapes and the reload parser are outside the bound.")

# ---- deepened claims (replace the thin first versions above) ----
claim("C01", "Kernels of the validator's structural soundness, each decided on the real code for all inputs in its bound: (1) NameInZone = label-wise suffix containment = the library's IsSubDomain (a key for example.com. never covers foo\\.example.com. or notexample.com.); (2) isSynthesizedCNAME accepts an unsigned CNAME on a DNAME's signature only for a proper descendant with the exact RFC 6672 substitution; (3) AD discipline of the edns writer and of the wire-composed alias reply: AD leaves only if every part was validated and the client did not opt out, never on a truncated reply. Signature mathematics, DS-chain walking and the end-to-end SERVFAIL mapping are outside this check.",
      "Trusted: engine, solver; dns.escapeByte replaced by its arithmetic form (proven equal for all 256 octets by VerifC03_EscapeLemma); Msg.Len verdict and cookie digest stubbed in the edns harness.")
claim("C02", "CanonicalCompare equals the RFC 4034 section 6.1 order of the decoded labels for every pair of names in the bound in all three escape spellings, and is antisymmetric; nsecCovers (over an arbitrary total order) and aggressiveNSEC3Covers (over symbolic hash octets) are exactly 'strictly inside the ring interval' with apex wrap-around and the single-record sentinel, so an existing owner or next name is never covered. NSEC3 hashing, closest-encloser proofs end to end and the aggressive-use classifier are outside this check.",
      "Trusted: engine, solver, the reference order written on label arrays in the harness.")
claim("C03", "Wire/presentation key identity (hashed preimages byte-identical on both routes, the library's UnpackDomainName executed symbolically, all 256 octet values; ECS suffix of the key exact) and collision safety: with the table forced to return the stored entry for ANY key, LookupByKeyVerified and the wire verifier hit only for the same name up to ASCII case, same type/class, same CD partition and the same normalised ECS audience (byte serving only for unscoped entries), and never miss their own question.",
      "Trusted: engine, solver; xxhash = uninterpreted function of the recorded preimage; dns.escapeByte replaced after VerifC03_EscapeLemma. Interleavings of stores/purges and the alias-chase lookup route are outside this check.")
claim("C04", "Lifetime arithmetic on the real code with symbolic instants/TTLs: remaining() = min(ttl expiry, delegation cut), never growing; TTL()/IsExpired()/ToMsg (library Pack/Unpack executed symbolically) never show more than what remained before the call and serve nothing once over; CalculateCacheTTL stays in [5 s, 24 h] and never exceeds the smallest record TTL, negative SOA minimum or time to RRSIG expiry; BoundCutFor only shortens the request's cut; the alias chase (additionalAnswer with the sub-pipeline stubbed) folds the sub-query's lifetime into the composed answer whenever it uses its records or adopts its terminal NXDOMAIN. Prefetch races and the late-write guard are outside this check.",
      "Trusted: engine, solver (cvc5 bit-vectors-as-integers for divisions by 10^9), time model, float conversion of Duration.Seconds modelled as exact truncation.")
claim("C05", "Raw-packet admission: Request.ParseWire on arbitrary symbolic packets accepts exactly the documented grammar (independent recogniser), never panics, leaves no facts on refusal and records every fact as the grammar reads it; and the header of a wire-composed alias reply (composeWireChase) is what the decoded path says: id/opcode/RD/CD echoed, QR set, AA clear, counts right, AD only if every hop was validated and CD is clear. Cache-ladder equivalence and byte-built OPT parity are outside this check.",
      "Trusted: engine, solver, the grammar recogniser in the harness. Bounds per harness (<= 22/30 bytes fully arbitrary; option payloads to 42 bytes with consistent framing; chase hops without answer records).")
claim("C06", "Header verdict for all 2^96 headers = documented rule = the DNS library's accept function, with a bare-header rejection echoing ID/opcode/RD; the edns writer emits no OPT unless the client sent one, echoes the client's DO, strips DNSSEC records without DO, never returns client-subnet / upstream keepalive / foreign options, clears AD for opted-out clients, truncates to question+OPT; and SetEdns0 strips every client option for EVERY EDNS version (so the BADVERS reply cannot reflect them), leaving at most one policy-clamped ECS.",
      "Trusted: engine, solver; Msg.Len verdict symbolic, cookie digest a fixed string. TCP/DoH/DoQ entry code and the BADVERS writer itself are outside this check.")
claim("C07", "Transaction guard (Exchange returns success only for the query's ID and exactly its question, datagram vs stream) and the referral rule: progressingReferral/validReferral accept a referral only for a zone strictly below the asked zone and at or above the query name, in the query's class, from a coherent NS set - for names in any letter case. Glue filtering and answer bailiwick filtering are outside this check.",
      "Trusted: engine, solver, ASCII model of strings.ToLower/EqualFold/dns.CanonicalName (non-ASCII bytes cut and listed). ReadMsg/WriteMsg are scripted stubs.")
claim("C08", "Lease storage (SetUntil/Set/Get of the delegation cache) and lease derivation: processDelegation executed as function-with-stubs (validation, glue, NS-address lookups, caches and continuations are stubs/sinks) - every lease it publishes or hands down (answer-cache cut, delegation-cache expiry, cut for NS lookups, cut for cached and fresh descent) ends no later than the FIRST clock reading of the call + min NS TTL, + min DS TTL when a DS is retained, and the inherited ancestor cut; non-progressing referrals publish nothing. Multi-level histories are covered inductively (inherited cut is a symbolic input); prefetch timing is outside this check.",
      "Trusted: engine, solver (cvc5 profile), time model with every time.Now() a fresh non-decreasing variable and a clock log; the table behind the cache is a one-cell model.")
claim("C09", "atomicGobWrite over a symbolic file system (error at every call, invariant after every step = every crash point); sameKeyExceptRevoke exact; and one RFC 5011 refresh (AutoTA) as an inductive step with symbolic disk state, configuration, fetched DNSKEY set (colliding tags), authentication / self-signature oracles, clock and write failures: a revocation already on record is never trusted again (restart included), corrupt tombstones fail closed, unauthenticated responses write nothing, a new key is trusted only after being pending and fully authenticated, revocation-only responses seed nothing, a revocation needs the revoked key published and self-signed, tombstones are written before state and are permanent.",
      "Trusted: engine, solver, the file-system model, crypto verdicts as symbolic oracles, KeyTag as a fixed function with a forced collision; one refresh assumed to take < 1 h of clock time; non-corrupt tombstone read errors (documented as 'proceed with empty set') are outside the bound.")
claim("C11", "Safety kernels of 'exactly one reply': BMC of the dedup generations over every sequence of join / leader-done / follower-regroup / deadline-fires by 3 callers; the chain writer reaches the transport at most once under every sequence of Write/WriteMsg/WriteWire/BeginWire+CommitWire; the per-zone in-flight limiter never leaks a slot (refusal leaves the count, release restores it). Liveness, latency and quiescence under real scheduling are not decidable with this technique and are outside the claim.",
      "Trusted: engine, solver; context.WithTimeout replaced by a flag-and-fire model; operations atomic exactly as the mutex makes them.")
claim("C12", "Work-ledger debit as an inductive step with interference (rely = guarantee; placement of other debitors' acts symbolic): enforce mode never publishes a counter above its limit, counts once when accepted, latches the first rejected dimension when refused; shadow only counts; CheckLocal allows exactly used < limit; and processDelegation's continuations (fresh, cached, and the un-minimised restart) keep the request's work ledger. Depth/loop caps and debit-before-send in exchange() are outside this check.",
      "Trusted: engine, solver; sync/atomic as sequentially consistent cell operations with an environment step before each.")
claim("C13", "Backoff envelope and record step for every admissible configuration and streak; NewFailureCache admits exactly the documented range; and partition exactness under forced key collisions: Lookup hits a question failure only for the same name/type/class/CD, a zone failure only for a label-wise ancestor-or-self in the same class (escaped dots inside labels included), and never an expired entry.",
      "Trusted: engine, solver, time model; the table is a one-cell always-colliding model (C16); ASCII model of dns.CanonicalName.")
claim("C14", "KeyTag (incl. RSAMD5) differential against the library with the real base64 decoder on symbolic windows over all 256 byte values; and the structure of the wide-exponent RSA verifier with big-integer operations as oracles: acceptance requires exact modulus width, the range check s < n consulted and honoured, exponentiation on the signature mod n, and the full-width EMSA-PKCS1-v1_5 comparison.",
      "Trusted: engine, solver. math/big is out of the encoder's reach: RSA/ECDSA/Ed25519 verdict equality on real numbers, DS digest and canonical form are outside this check.")
claim("C15", "Differential check of the pooled packer against the library (both executed symbolically): identical bytes whenever TryPack handles a message, no spare capacity, message and OPT untouched, nil/typed-nil/foreign records declined before output; and a message the packer gives up on half-way leaves nothing in the pooled state - the next message still gets the library's bytes.",
      "Trusted: engine, solver, reflect modelled through go/types, sync.Pool as a LIFO of objects. Record types beyond A/CNAME/OPT and 4096-byte boundary sizes are outside the bound.")
claim("C18", "Exists = the label-wise rule for every entry set and query in the bound; persistence over a symbolic file system: two snapshots in either order with arbitrary I/O failures leave a complete, never-regressing file; and a writer of an older snapshot that is overtaken at the save lock by a newer snapshot's writer does not roll the file back (the one interleaving the mutex allows, modelled by running the other writer at Lock).",
      "Trusted: engine, solver, ASCII model of dns.CanonicalName, the file-system model. Names with escapes and the reload parser are outside the bound.")
claim("C19", "Clamp/ClampScope/Build arithmetic for every policy byte and option; SetEdns0 leaves no client option but one clamped ECS when allowed, for every EDNS version; the edns writer never returns ECS; and Cache.ServeDNS hands the ECS policy the unmapped client address (an IPv4-mapped client is treated as IPv4, as the edns layer treats it).",
      "Trusted: engine, solver, net/netip executed as real code. Scoped-entry TTL cap and the shared-denial bypass are outside this check.")
claim("C20", "RFC 6052 embed/extract bijection for all legal lengths, prefixes and addresses; illegal lengths refused; and the dispatch of responseWriter.WriteMsg with a stubbed secondary lookup: NXDOMAIN, any DNSSEC-failure Extended DNS Error at any position, and cached failures are passed through untouched without a lookup; native AAAA is not replaced; every synthesised AAAA is the embedding of an A record with its owner and a TTL within the A TTL and the negative TTL; rewritten replies never carry AD.",
      "Trusted: engine, solver, the RFC 6052 position table. ServeDNS gates and PTR handling are outside this check.")

# ---- second deepening round: further kernels per property (appended to the claim above) ----
def extend(pid, more, outside=None):
    text, note, ref = CLAIMED[pid]
    CLAIMED[pid] = (text.rstrip() + " ALSO: " + more, note if outside is None else note.rstrip() + " " + outside, ref)

extend("C02", "the denial-proof index's own canonical ordering (denialProofNameOrder.compare over denialProofCanonicalWireLabels, the order its snapshots are sorted and bisected by) equals the RFC 4034 6.1 order of the decoded labels for every octet value, escapes included.")
extend("C06", "the chain's own rcode replies (CancelWithRcode: BADVERS, REFUSED, SERVFAIL ...) carry QR, the query's id and opcode, echo the question for every rcode but FORMERR/NOTIMP, add no OPT the client did not send, and leave AD clear when the client set CD or neither DO nor AD.")
extend("C07", "the glue filter (Resolver.checkGlueRR with usableAddr, for every 32-/128-bit address): an additional-section address becomes a nameserver address only if its owner is a listed NS host inside the delegating zone label-wise, the address is the record's own, not loopback (IPv4-mapped included) and not a local interface address, and it is filed under its own name; and filterCacheableAnswer keeps exactly the records owned by the question, DNAMEs and signatures over DNAMEs.")
extend("C10", "UDP slab hygiene: udpJob.release from each owned state parks the slab exactly once, with no staged reply length or written mark left (a later silent request cannot send the previous client's bytes), returns the lease, and a release by a non-owner parks nothing; udpJob.Write stages exactly the reply's own bytes and length and refuses an oversized reply with nothing staged.")
extend("C12", "a pipeline whose handler re-enters the same pipeline unconditionally terminates: nesting never exceeds the recursion cap, enforce mode runs at most the internal-query budget and surfaces the over-budget result as an error, shadow mode behaves exactly like firewall-off; and budget / deadline / cancellation / best-effort failures are refused by the cache writer's admission filter (shared with C13).")
extend("C13", "request-local failures never become shared state at either door: the cache writer's SERVFAIL write-back (real ResponseWriter.WriteMsg + cacheableResolutionFailure, with context cancellation, a lazily expired deadline, the best-effort mark, a latched work-ledger rejection, and a per-response request-local mark with 9 causes incl. wrapped ones) and the resolver's recordResolutionZoneFailure (12 causes) record nothing for a local cause and exactly the failing question / zone otherwise.")
extend("C14", "DS digest: dsDigestMatches vs the library's DNSKEY.ToDS with both run against a recording hash - identical hashed octets (canonical owner | flags | protocol | algorithm | decoded key) for every flags/protocol/algorithm value, owner case and base64 window, acceptance only for digest types 1/2/4 and exactly when the wanted digest equals the hash output; the oversize pre-check never refuses a wrapped key the library can still hash; VerifyDS declares a match only through a (DS, DNSKEY) pair bound by key tag, algorithm, class, owner, protocol 3 and the ZONE flag, with the parent's own digest.", "SHA-1/SHA-2 compression functions are stubbed by a recording hash with one symbolic output.")
extend("C16", "the segmented wrapper (2 segments, arbitrary R-states plus 'an entry lives in the segment its key selects'): Set/Del keep the global count equal to the sum of segment sizes and map semantics per key; SetWithCap never evicts the key it writes, adds at most one entry, stays within capacity from within capacity (or holds only the new key), does not grow from the one-over state, never holds two segment locks; CompareAndSwap / CompareAndDelete act exactly when the identical current value is present and touch no other key.")
extend("C17", "deny is silent: for the list as ipset.New compiles it (host bits, an unparsable entry), accesslist.ServeDNS neither writes a reply nor lets anything downstream run for an outside client (IPv4, IPv4-mapped, IPv6), always continues for an inside client, and never subjects a resolver-internal sub-query to the list.")
extend("C18", "blocked replies: BlockList.ServeDNS over a plain / wildcard / whitelist list, every query type and id - a blocked name never reaches cache or upstream and gets exactly one authoritative NOERROR reply (null-route A, v6 null-route AAAA, empty answer for other types) echoing id and question; every other name (near-miss suffix, wildcard apex, whitelisted, below a whitelisted parent) is passed on untouched.")
extend("C19", "scoped entries: Store.setFromResponseWithKey files an audience-scoped answer with ttl <= the scoped cap (also when the cap is below the minimum TTL), under its masked scope, never prefetch-eligible, and a shared answer with no scope; Cache.handleCacheHit never queues a background refresh for a scoped entry.")
extend("C20", "the ServeDNS gates: the AAAA rewrite is armed only for a recursion-desired, non-CD, class-IN AAAA query from an eligible client for a non-excluded zone (zone match case-insensitive), the query continues exactly once and the wrapper is removed afterwards.")

# sentences of the earlier claims that the second round made stale
_STALE = {
 "C06": [("TCP/DoH/DoQ entry code and the BADVERS writer itself are outside this check.", "TCP/DoH/DoQ entry code is outside this check.")],
 "C07": [("Glue filtering and answer bailiwick filtering are outside this check.", "clearAdditional / filterAuthorityRecords on the client-facing reply are outside this check.")],
 "C10": [("Real goroutine interleavings, UDP slab reuse and DoH/DoQ are outside this check.", "Real goroutine interleavings, the shared-lookup copy and DoH/DoQ are outside this check.")],
 "C12": [("Depth/loop caps and debit-before-send in exchange() are outside this check.", "The resolver's own loop caps (checkLoop, DNAME depth) and debit-before-send in exchange() are outside this check.")],
 "C14": [("RSA/ECDSA/Ed25519 verdict equality on real numbers, DS digest and canonical form are outside this check.", "RSA/ECDSA/Ed25519 verdict equality on real numbers and the canonical signed-data form are outside this check.")],
 "C19": [("Scoped-entry TTL cap and the shared-denial bypass are outside this check.", "The shared-denial bypass is outside this check.")],
 "C20": [("ServeDNS gates and PTR handling are outside this check.", "PTR handling is outside this check.")],
}
for _pid, _subs in _STALE.items():
    _t, _n, _r = CLAIMED[_pid]
    for _a, _b in _subs:
        assert _a in _t or _a in _n, (_pid, _a)
        _t, _n = _t.replace(_a, _b), _n.replace(_a, _b)
    CLAIMED[_pid] = (_t, _n, _r)

# ---- third round ----
extend("C01", "a reply rebuilt from a cache entry (CacheEntry.ToMsg) carries AD only if the stored answer had it and the client did not set CD, and is the client's own reply (QR, id, opcode, question).")
extend("C04", "denialProofExpiry: a denial proof's lifetime is in the future, within the configured ceiling, the delegation lease, every record TTL, the SOA minimum, the RRSIG original TTL and expiration - with no floor: a proof with any spent part is refused (bound: one record per set; two-record sets were solver-unknown).")
extend("C05", "wire.ApplyReply stamps exactly the header the message path builds (Unpack, SetReply, cache shaping, Pack) for every stored header and request id/RD/CD; the byte path's failure lookup (FailureCache.LookupWire) obeys the same partition as the decoded lookup.")
extend("C08", "descending through a cached delegation (resolveWithCachedNameservers) keeps the shorter of the cached and the inherited lease, folds it into the answer-cache cut, and always spends depth (stops when depth is exhausted).")
extend("C09", "two-pass authentication (verifyFetchedKeysWithWork with the signature verifier as an arbitrary oracle and every key tag colliding): only current KSK anchors reach the verifier in pass 1, only revoked copies of current anchors with identical key material in pass 2; a pass-2 success is reported as revocation-only; no success without a verifier success.")
extend("C13", "FailureCache.LookupWire under forced collisions: same question only (never an audience-scoped entry), label-wise ancestor zone in the same class only, never an expired entry.")
extend("C15", "the library fallback (libraryPackImmutable, used by PackClone and whenever the pooled packer declines) returns the library's bytes / error and leaves the message and its OPT untouched for every rcode incl. extended ones and an OPT aliased across sections.")
extend("C20", "PTR: the ip6.arpa name of every synthesised address (six prefix lengths, every IPv4) maps back to the same IPv4 address in a CNAME owned by the question, and a reverse name outside the configured prefix is left to ordinary resolution.")
_STALE2 = {
 "C20": [("PTR handling is outside this check.", "The best-effort PTR chase behind the CNAME is outside this check.")],
}
for _pid, _subs in _STALE2.items():
    _t, _n, _r = CLAIMED[_pid]
    for _a, _b in _subs:
        assert _a in _t or _a in _n, (_pid, _a)
        _t, _n = _t.replace(_a, _b), _n.replace(_a, _b)
    CLAIMED[_pid] = (_t, _n, _r)

# ---- fourth round ----
extend("C02", "zone-model soundness of the exact-response NSEC verifiers: for a signed zone with an apex, plain owner, alias, insecure and signed delegations, a DNAME, and a wildcard below an empty non-terminal, and EVERY subset of its genuine NSEC chain, VerifyNameErrorNSEC never accepts an NXDOMAIN for a name that exists (owner, empty non-terminal, wildcard match, below a zone cut or DNAME) and VerifyNODATANSEC never accepts a NODATA for a present type or, at a zone cut, for anything but DS (RFC 6840 4.1); the NSEC3 exact-match NODATA obeys the same bitmap rules. (Two genuine defects were found here and fixed: KNOWN_FINDINGS.txt.)")
extend("C17", "views: a client is answered from the first view in declaration order whose networks contain it (same containment rule, IPv4-mapped = IPv4), never from a later one even when the first has no matching record; clients in no view and internal sub-queries pass through untouched.")
_STALE3 = {
 "C02": [("NSEC3 hashing, closest-encloser proofs end to end and the aggressive-use classifier are outside this check.", "NSEC3 hashing, NSEC3 closest-encloser proofs end to end and the aggressive-use classifier are outside this check.")],
}
for _pid, _subs in _STALE3.items():
    _t, _n, _r = CLAIMED[_pid]
    for _a, _b in _subs:
        if _a in _t or _a in _n:
            _t, _n = _t.replace(_a, _b), _n.replace(_a, _b)
    CLAIMED[_pid] = (_t, _n, _r)

# ---- fifth round (after the second set of seeded changes) ----
extend("C01", "dnssec.ValidateSigner - the gate in front of every DS lookup - accepts a signer exactly when it is the query name or a label-wise ancestor of it (every octet value, either case, escaped dots).")
extend("C03", "the longest-prefix probe (Cache.scopedLookup) only ever asks for scopes that contain the client's disclosed prefix: never narrower than what the client disclosed whatever the policy floor, the client's own prefix shortened, longest first, reporting the scope it found.")
extend("C04", "late-write guard under interleaving: with a client-path Add allowed to run before any lock acquisition of a background refresh's CompareAndSwap / CompareAndDelete, the key afterwards holds the newer data - the refresh never overwrites it and reports its outcome truthfully.")
extend("C05", "the byte path's datagram (edns.ResponseWriter.WriteWire) stays within the negotiated UDP size for every body length near the ceiling with cookie, NSID and Extended DNS Error appended, or declines to the message path.")
extend("C06", "the byte path obeys the same UDP ceiling, adds no OPT for a client without EDNS and clears AD for an opted-out client (VerifC06_WireReplyWithinUDPCeiling).")
extend("C08", "the provisional delegation published while glueless nameserver addresses are looked up (Resolver.lookupV4Nss) never outlives the parent's lease - an already elapsed lease included - nor one minute.")
extend("C09", "add hold-down: a pending key is promoted (trusted, or written Valid/Missing) only by a fully authenticated refresh that still publishes that very key more than 30 days after it was first seen - tag collisions included (a genuine defect was found here and fixed).")
extend("C10", "the idle slab cache never hands one slab to two owners: for every shard length and spare capacity a popped slab is gone from the shard, the rest stays parked in order, and a parked slab comes back exactly once.")
extend("C11", "a request elected dedup leader in Cache.ServeDNS releases its generation exactly once on every way out (alive, cancelled, deadline passed; ordinary miss or failure-probe key) and starts no resolution when its context is already over.")
extend("C12", "a DNAME ping-pong between two zones is followed at most the DNAME cap and ends in an error, on a plain context and on the LazyDeadline request carrier with any number of pin slots taken.")
extend("C14", "no DS match for an owner name that does not fit 255 wire octets (the library cannot produce a DS for it).")
extend("C20", "PTR translation with an overlapping shorter prefix listed first still reaches the prefix the address was synthesised under.")

# ---- sixth round ----
extend("C02", "the RFC 8198 classifier (EvaluateAggressiveNSEC), whose verdicts become shared negative-cache state, is sound on the same zone model for every subset of the chain; shared denial state is neither consulted nor created by ECS/CD requests or their trees (shared with C19).")
extend("C05", "the OPT the byte path appends decodes to the OPT the message path attaches for the same client facts (size, DO, version, options incl. a server cookie over the same hashed octets, NSID, keepalive, Extended DNS Error) and AD is shaped alike.")
extend("C13", "kill switch: with rfc9520 off none of the Store's nine doors to failure state records, resets or serves anything; with it on each reaches the table once.")
extend("C19", "a query that carried ECS or CD - or belongs to a tree that did - never consults the subtree-cut or aggressive-proof indexes, and a validated negative answer is published to them only from a plain tree, with local provenance and RFC 8198 eligibility.")
_STALE4 = {
 "C19": [("The shared-denial bypass is outside this check.", "The wire path's own shared-denial gate is outside this check.")],
}
for _pid, _subs in _STALE4.items():
    _t, _n, _r = CLAIMED[_pid]
    for _a, _b in _subs:
        if _a in _t or _a in _n:
            _t, _n = _t.replace(_a, _b), _n.replace(_a, _b)
    CLAIMED[_pid] = (_t, _n, _r)

# ---- seventh round ----
extend("C01", "VerifyRRSIGWithWork (per-signature check as an arbitrary oracle) declares a reply validated only if every RRset inside the signer zone - as a whole set, across answer and authority - was verified by a signature over that owner and type, and no record owned outside the zone sits in the answer section.")
extend("C07", "the authority and additional sections an upstream attached to a positive answer do not reach the client (only the client's own OPT survives) and a negative answer keeps only SOA/NSEC/NSEC3/RRSIG.")
extend("C10", "a lookup result shared by several callers of one singleflight is copied per caller with the caller's own query id, the shared message left untouched (scheduler outcomes arbitrary).")
_STALE5 = {
 "C01": [("Signature mathematics, DS-chain walking and the end-to-end SERVFAIL mapping are outside this check.", "Signature mathematics (C14), DS-chain walking across zones and the end-to-end SERVFAIL mapping are outside this check.")],
 "C07": [("clearAdditional / filterAuthorityRecords on the client-facing reply are outside this check.", "The call sites of clearAdditional / filterAuthorityRecords inside the network-driven resolve loop are outside this check.")],
 "C10": [("Real goroutine interleavings, the shared-lookup copy and DoH/DoQ are outside this check.", "Real goroutine interleavings and DoH/DoQ are outside this check.")],
}
for _pid, _subs in _STALE5.items():
    _t, _n, _r = CLAIMED[_pid]
    for _a, _b in _subs:
        if _a in _t or _a in _n:
            _t, _n = _t.replace(_a, _b), _n.replace(_a, _b)
    CLAIMED[_pid] = (_t, _n, _r)

# ---- eighth round ----
extend("C02", "the NSEC3 twin of the zone model (hashes from a collision-free table in place of SHA-1; ring preparation, match/cover lookup, closest-encloser search and the proof rules are the real code): for every subset of a 9-record genuine NSEC3 chain the exact-response verifiers and the RFC 8198 NSEC3 classifier never deny a name that exists nor a present type (DS only at a zone cut), and with Opt-Out set nothing accepted through a next-closer cover is reported secure (thorough tier); an RFC 8020 subtree cut answers a query only at or below the denied name, label by label, in the same class, while alive - on the decoded index and on the hash-keyed byte-path index under arbitrary collisions.")
extend("C03", "a background refresh (Store.ReplaceIfCurrent) stores its result in the partition of the entry it replaces - that entry's CD value and ECS audience, not the refreshed response's - with the refresh's delegation lease, and only through the identity compare-and-swap against the claimed entry.")
extend("C13", "a useful answer (FailureCache.ResetMatching) clears only the failure history it disproves - that very question, and ancestor-zone failures of the same class - even when every key collides (thorough tier).")
_STALE6 = {
 "C02": [("NSEC3 hashing, NSEC3 closest-encloser proofs end to end and the aggressive-use classifier are outside this check.", "The SHA-1 NSEC3 hash itself (iterations, salt, collisions) is outside this check.")],
 "C03": [("Interleavings of stores/purges and the alias-chase lookup route are outside this check.", "Purges and the alias-chase lookup route are outside this check.")],
}
for _pid, _subs in _STALE6.items():
    _t, _n, _r = CLAIMED[_pid]
    for _a, _b in _subs:
        if _a in _t or _a in _n:
            _t, _n = _t.replace(_a, _b), _n.replace(_a, _b)
    CLAIMED[_pid] = (_t, _n, _r)

# ninth round
extend("C18", "reload: after any history in the bound of Set / Remove / SetBatch / RemoveBatch over entries that cover one another, what the real snapshot+persist code wrote to <dir>/local is read back by the real loadInitial / readBlocklists / parseHostFile into exactly the in-memory list, entry for entry (file system and line scanner replaced by a lines-in, lines-out model).")
extend("C14", "RRSIG check: verifySignature vs the library's RRSIG.Verify with the Ed25519 verifier replaced by a recorder - identical key, signature and signed octets (canonical owner with wildcard restoration for every Labels value, original TTL, lower-cased embedded names, RDATA order, duplicate collapse), acceptance only if the library accepts, refusal of a library-accepted signature only where the signer is no label-wise ancestor of the owner.", "Ed25519 arithmetic is a recording stub with one symbolic verdict; RSA/ECDSA dispatch is outside.")

extend("C13", "one probe generation after expiry: FailureCache.RetryKey yields a key exactly when no matching failure is active and some matching one has expired, never for a query Lookup serves, the key of the closest expired ancestor-zone failure else the question's own - so different names below one failed authority share the probe - and a failure in another class plays no part.")

extend("C17", "internal queries and client policy: ratelimit.ServeDNS and reflex.ServeDNS let a resolver-internal sub-query continue exactly once without a reply and without touching any per-client state (every qtype, source address, cookie shape); and Pipeline.autoWire hands the consumers of internal queries pipelines that contain no handler declaring itself client-only, for every combination of handlers that do.")

extend("C01", "a failed resolution carries no data: DNSHandler.handle, with the resolution replaced by a stub that returns any mix of a data-bearing message and an error (validation error with any EDE code, wrapped, deadline, cancellation, exhausted budget, plain), answers SERVFAIL with no answer/authority/additional record, no AD, the client's id and question, and an Extended DNS Error exactly when the client sent an OPT.")

extend("C12", "the alias chase on cache write-back (Cache.additionalAnswer over scripted follow-up responses): never-ending chains and loops back to the question, to an earlier target or to itself, in any letter case, end after a bounded number of follow-up questions with a message; and the completed answer claims AD only if the answer it started from and every follow-up response it merged were authenticated (shared with C01).")

extend("C10", "chain rebinding: Chain.Reset / ResetWire from an arbitrary left-over state (written or not, held message / wire lease, rcode, internal and direct-pack marks, a writer still wrapped by a middleware, cancelled or mid-chain, inline-only / handoff / replay marks, a meta with cut bound and ledgers, a pending detach cleanup) yields the chain's own writer bound to the new client, unwritten and empty, the new request, fresh marks and meta, the previous cleanup run once - and the first write reaches the new client only.")

extend("C06", "the stream listeners' in-place FORMERR/NOTIMP rejection (tcpJob.rejectInPlace through the real stream staging), for all 2^96 request headers and any left-over transmit-buffer contents: one frame of exactly twelve octets echoing id and opcode with QR set, the verdict's rcode, no AD the client did not send and all counts zero.")

extend("C01", "unsigned data only below a proven insecure delegation: Resolver.provenInsecureDelegation / authenticatedDelegationDS over scripted outcomes of the DS sub-query, the signature check and the delegation proof at each zone-cut candidate - true only if every cut above was a verified secure delegation and this cut's DS answer verified and holds no usable DS, or none with a verified delegation proof from the signer's own zone; every DS answer is checked against the zone directly above; any failed lookup, failed/errored check, foreign-zone or missing proof keeps the data bogus.")

# tenth round (after the third set of independently seeded changes)
extend("C01", "missing signatures are tolerated only without a usable DS: Resolver.isZoneSecure (the DS walk below an ancestor's DS stubbed) says 'unsigned' only if the DS set in hand holds no usable DS in any position, or that DS is an ancestor's and the validated walk to the zone ends without one; a failing walk keeps the zone signed.")
extend("C02", "RFC 8020 stop: Resolver.processAuthoritySection ends the resolution on a minimised NXDOMAIN only when that very response carries local validation provenance marked aggressive, with an NXDOMAIN proof, and no NSEC3 of the zone in it has Opt-Out; otherwise the walk continues.")
extend("C03", "the byte path's alias chase (Cache.collectWireChase) takes an entry found under a hop's key into the reply only if it was stored for that target name, type and class, in the client's CD partition and for no ECS audience.")
extend("C11", "the inline pass over a datagram (udpEngine.serveInline with a scripted pipeline that stages / declines / panics) ends in exactly one of: reply in the reader's burst, job handed back unanswered and marked for replay, job released - and a staged reply is always terminal.")
extend("C13", "a SERVFAIL served from the failure cache (Cache.handleFailureHit) is marked as a cached failure in the request tree's own meta - also when that is a detached one and not the chain's - while it passes the writers above, so wrappers treat it as terminal; EDE 13 for EDNS clients.")

# eleventh round (second batch of the third seeding round)
extend("C04", "a hit folds the entry's whole lifetime into the request: boundRequestToEntryLifetime / boundRequestTo leave the request tree's bound no later than stored+ttl and the entry's own cut, and never later than it was.")
extend("C08", "the write-back (cache.ResponseWriter.WriteMsg with every store as a recording sink) files the entry - shared or scoped - and any denial proof / subtree cut with exactly the lease accumulated in the request tree's meta; the alias chase before it inherits the sub-query's lease (VerifC04_ChaseInheritsLifetime, also registered here).")
extend("C09", "the revocation store read: readTombstones reports 'nothing revoked' only for a missing file, 'corrupt' for every decode failure of an existing one (end-of-file at once included), an error for an unopenable one; and AutoTA fails closed for an unopenable store exactly as for a corrupt one.")
extend("C12", "every transport attempt is debited first: in Resolver.exchange (dials and exchanges as counting stubs; retries, TCP fallback and exploration probes) the number of dials never exceeds the outbound debits the ledger accepted, and a spent budget means no dial and a request-local error.")
extend("C18", "the reload model includes the root name as an entry.")
# ---- round 3 batch c ----
extend("C10", "the edns writer a UDP/TCP job slab owns: (*EDNS).serveWire run twice on one slot with two symbolic wire-born requests - the writer the second client's handlers see carries only the second request's cookie, flags and transport, no cached cookie text and no request OPT, and the idle slot holds no client reference.")
extend("C15", "the selected OPT aliased by the same pointer in the answer or authority section is part of the quick tier as well.")
extend("C16", "CompareAndSwap with the replacement drawn from {A, B, fresh C}, so swapping an entry for itself against an absent or different current value is covered.")

NA_REASON = "no check registered yet: the solver-based harness for this property is still being built in this session (see DESIGN.md §5 for the plan)"
def main():
    props = [json.loads(l) for l in open(os.path.join(ROOT, "properties.jsonl"))]
    checks, na = [], []
    for p in props:
        pid = p["id"]
        if pid in CLAIMED:
            text, note, ref = CLAIMED[pid]
            checks.append({
                "property_id": pid,
                "quick_cmd": f"./check.sh {pid} quick",
                "thorough_cmd": f"./check.sh {pid} thorough",
                "evidence_file": f"/verif/evidence/{pid}.json",
                "replay_cmd_template": "./bin/vcheck replay {path}",
                "engine": "vcheck",
                "level_claimed": {"category": "other", "text": text, "design_ref": ref},
                "level_note": note,
                "technique": TECH,
            })
        else:
            na.append({"property_id": pid, "reason": NA.get(pid, NA_REASON)})
    m = {
        "version": 1,
        "setup_cmd": "./setup.sh",
        "hooks": {"guard": "verif", "enable": "harnesses and the rt primitives are overlaid into the package under test at load time (go/packages Overlay, -tags verif); nothing is written under /repo",
                  "baseline_off_cmd": "cd /repo && GOFLAGS=-mod=mod GOPROXY=off go test -vet=off -count=1 -timeout 25m ./...",
                  "source_commits": [], "add_only": True},
        "engines": [{"name": "vcheck", "path": "/verif/engine", "serves_properties": sorted(CLAIMED),
                     "kind_free_text": "Go SSA -> SMT-LIB2 symbolic executor (path exploration by re-execution, z3 -in / cvc5 --incremental over a pipe)"}],
        "checks": checks,
        "not_applicable": na,
        "notes": "Exit codes: 0 held within bounds; 1 VIOLATION (counterexample replayed against the real build); 2 INCONCLUSIVE (engine/solver/budget/vacuity problem - never reported as success).",
    }
    json.dump(m, open(os.path.join(ROOT, "MANIFEST.json"), "w"), indent=1)
    print("claimed:", sorted(CLAIMED), "na:", len(na))
NA = {}
if __name__ == "__main__":
    main()
