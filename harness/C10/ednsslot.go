//go:build verif

//verif:pkg middleware/edns
package edns

import (
	"context"
	"net"
	"net/netip"

	"github.com/miekg/dns"
	"github.com/semihalev/sdns/internal/ecs"
	"github.com/semihalev/sdns/middleware"
)

// the parsed facts of one wire-born request (what ParseWire leaves in the
// Request), symbolic
type c10eFacts struct {
	hasOPT, do, nsid, keepalive, cd, ad bool
	udpSize                             uint16
	hasCookie                           bool
	cookie                              [8]byte
}

// what the handlers behind edns see on the writer while a request is served
type c10eSeen struct {
	hasCookieRaw bool
	cookieRaw    [8]byte
	cookie       string
	opt          *dns.OPT
	do, nsid, keepalive, noedns, noad bool
	client       middleware.ResponseWriter
}

var (
	c10eReq  [2]c10eFacts
	c10eCur  int
	c10eSlot *ResponseWriter
	c10eSaw  [2]c10eSeen
	c10eUsed [2]bool // the handler behind edns built a reply OPT (lazy cookie text cached)
)

//verif:stub (*middleware.Request).HasECS = c10eFalse
//verif:stub (*middleware.Request).HasOPT = c10eHasOPT
//verif:stub (*middleware.Request).UDPSize = c10eUDPSize
//verif:stub (*middleware.Request).DO = c10eDO
//verif:stub (*middleware.Request).HasNSID = c10eNSID
//verif:stub (*middleware.Request).HasTCPKeepalive = c10eKeepalive
//verif:stub (*middleware.Request).CD = c10eCD
//verif:stub (*middleware.Request).AD = c10eAD
//verif:stub (*middleware.Request).ClientCookie = c10eCookie
//verif:stub (*middleware.Request).EDNSWriterSlot = c10eWriterSlot
//verif:stub (*middleware.Request).RecordEDNSNormalization = c10eRecord
//verif:stub (*middleware.Chain).Next = c10eNext
func c10eFalse(r *middleware.Request) bool       { return false }
func c10eHasOPT(r *middleware.Request) bool      { return c10eReq[c10eCur].hasOPT }
func c10eUDPSize(r *middleware.Request) uint16   { return c10eReq[c10eCur].udpSize }
func c10eDO(r *middleware.Request) bool          { return c10eReq[c10eCur].do }
func c10eNSID(r *middleware.Request) bool        { return c10eReq[c10eCur].nsid }
func c10eKeepalive(r *middleware.Request) bool   { return c10eReq[c10eCur].keepalive }
func c10eCD(r *middleware.Request) bool          { return c10eReq[c10eCur].cd }
func c10eAD(r *middleware.Request) bool          { return c10eReq[c10eCur].ad }
func c10eWriterSlot(r *middleware.Request) any   { return c10eSlot }
func c10eCookie(r *middleware.Request) []byte {
	f := &c10eReq[c10eCur]
	if !f.hasCookie {
		return nil
	}
	return f.cookie[:]
}
func c10eRecord(r *middleware.Request, p *ecs.Policy, client netip.Addr) {}

// the rest of the pipeline: looks at the writer edns installed and, like
// WriteMsg's OPT build, may cache the client cookie's text form on it
func c10eNext(ch *middleware.Chain, ctx context.Context) {
	rw, ok := ch.Writer.(*ResponseWriter)
	if !ok {
		return
	}
	c10eSaw[c10eCur] = c10eSeen{hasCookieRaw: rw.hasCookieRaw, cookieRaw: rw.cookieRaw, cookie: rw.cookie, opt: rw.opt,
		do: rw.do, nsid: rw.nsid, keepalive: rw.keepalive, noedns: rw.noedns, noad: rw.noad, client: rw.ResponseWriter}
	if c10eUsed[c10eCur] && rw.cookie == "" && rw.hasCookieRaw {
		rw.cookie = "0102030405060708"
	}
}

type c10eClient struct {
	middleware.ResponseWriter
	tcp bool
	ip  net.IP
}

func (c *c10eClient) Proto() string {
	if c.tcp {
		return "tcp"
	}
	return "udp"
}
func (c *c10eClient) RemoteIP() net.IP { return c.ip }

func c10eFactsOf(tag string) c10eFacts {
	f := c10eFacts{hasOPT: vBool(tag + ".opt"), do: vBool(tag + ".do"), nsid: vBool(tag + ".nsid"), keepalive: vBool(tag + ".keepalive"),
		cd: vBool(tag + ".cd"), ad: vBool(tag + ".ad"), udpSize: vU16(tag + ".size"), hasCookie: vBool(tag + ".has.cookie")}
	copy(f.cookie[:], vBytes(tag+".cookie", 8))
	return f
}

// VerifC10_JobOwnedEdnsWriterCarriesNothingOver: the edns writer a UDP/TCP job
// slab owns (Request.EDNSWriterSlot) is used for one client after another.
// Whatever the first request carried (cookie or none, DO, NSID, keepalive) and
// whatever the pipeline cached on the writer while answering it, the writer
// the second client's handlers see is determined by the second request alone:
// its cookie (or none), no cached cookie text, no request OPT, its own flags,
// its own transport; and between requests the slot holds no reference to the
// previous client's transport.
//
//verif:entry tier=quick,thorough
//verif:expect second-client-sees-only-its-own-cookie no-cached-cookie-text-or-opt-carried-over second-client-flags-are-its-own writer-is-bound-to-the-second-client idle-slot-holds-no-client
//verif:bound two consecutive wire-born requests on one job-owned slot; each with/without OPT, DO, NSID, keepalive, CD, AD, any advertised size, with or without an 8-octet client cookie (bytes symbolic); UDP or TCP clients; the first reply built with or without an OPT (lazy cookie text cached or not)
//verif:outside the Request accessors (stubbed to the symbolic facts; ParseWire is C06/C11 ground); pool-drawn writers (zeroed before Put, VerifC06_*); ECS marking
func VerifC10_JobOwnedEdnsWriterCarriesNothingOver() {
	e := &EDNS{cookiesecret: "s", nsidstr: ""}
	c10eSlot = new(ResponseWriter)
	c10eReq[0], c10eReq[1] = c10eFactsOf("first"), c10eFactsOf("second")
	c10eUsed[0] = vBool("first.reply.built.opt")
	a := &c10eClient{tcp: vBool("first.tcp"), ip: net.IP{198, 51, 100, 7}}
	b := &c10eClient{tcp: vBool("second.tcp"), ip: net.IP{203, 0, 113, 9}}

	ch := middleware.NewChain([]middleware.Handler{e})
	c10eCur = 0
	ch.Request, ch.Writer = new(middleware.Request), a
	e.serveWire(context.Background(), ch)
	vAssert("idle-slot-holds-no-client", c10eSlot.ResponseWriter == nil && c10eSlot.opt == nil && ch.Writer == middleware.ResponseWriter(a))

	c10eCur = 1
	ch.Request, ch.Writer = new(middleware.Request), b
	e.serveWire(context.Background(), ch)

	saw, want := c10eSaw[1], c10eReq[1]
	vAssert("second-client-sees-only-its-own-cookie", saw.hasCookieRaw == want.hasCookie && (!want.hasCookie || saw.cookieRaw == want.cookie))
	vAssert("no-cached-cookie-text-or-opt-carried-over", saw.cookie == "" && saw.opt == nil)
	vAssert("second-client-flags-are-its-own", saw.do == want.do && saw.nsid == want.nsid && saw.noedns == !want.hasOPT &&
		saw.keepalive == (want.keepalive && b.tcp) && saw.noad == (want.cd || (!want.ad && !want.do)))
	vAssert("writer-is-bound-to-the-second-client", saw.client == middleware.ResponseWriter(b))
}
