//go:build verif

//verif:pkg server
package server

// VerifC10_SlabHasOneOwner: the idle cache never hands one slab to two
// owners - a slab that leaves through pop is gone from the shard, whatever
// the shard's length and spare capacity, and what stays parked is exactly
// what was parked. (Two owners of one slab are two clients sharing one
// receive/transmit buffer.)
//
//verif:entry tier=quick,thorough
//verif:also C11
//verif:expect popped-slab-is-no-longer-parked the-rest-stays-parked-in-order two-pops-give-two-slabs parked-slab-comes-back-once
//verif:bound one shard with 0, 1, 2, 3, 15, 16, 17 or 33 parked slabs in a backing array of exactly that size, 64 or 128 entries (a drained burst); operations: pop, pop again, put then pop
//verif:outside concurrent callers (the shard mutex serialises them; lock discipline is not modelled here)
func VerifC10_SlabHasOneOwner() {
	n := []int{0, 1, 2, 3, 15, 16, 17, 33}[vChoice("parked", 8)]
	c := n
	switch vChoice("capacity", 3) {
	case 1:
		c = 64
	case 2:
		c = 128
	}
	cache := new(slabCache[udpJob])
	s := &cache.shards[3]
	s.idle = make([]*udpJob, n, c)
	before := make([]*udpJob, n)
	for i := range s.idle {
		s.idle[i] = new(udpJob)
		before[i] = s.idle[i]
	}
	x := s.pop()
	if n == 0 {
		vAssert("popped-slab-is-no-longer-parked", x == nil && len(s.idle) == 0)
		return
	}
	gone := x == before[n-1]
	for _, p := range s.idle {
		gone = gone && p != x
	}
	vAssert("popped-slab-is-no-longer-parked", gone)
	same := len(s.idle) == n-1
	for i := 0; same && i < n-1; i++ {
		same = s.idle[i] == before[i]
	}
	vAssert("the-rest-stays-parked-in-order", same)
	y := s.pop()
	vAssert("two-pops-give-two-slabs", y != x && (n == 1) == (y == nil))
	z := new(udpJob)
	cache.put(3, z)
	first, second := cache.get(3), cache.get(3)
	vAssert("parked-slab-comes-back-once", first == z && second != z && second != x && (y == nil || second != y))
}
