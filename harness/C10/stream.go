//go:build verif

//verif:pkg server
package server

import (
	"net"
	"time"
)

// c10Conn records, in order, every byte the stream hands to the socket.
type c10Conn struct {
	out    []byte
	writes int
}

func (c *c10Conn) Read(b []byte) (int, error) { return 0, errVerif }
func (c *c10Conn) Write(b []byte) (int, error) {
	c.writes++
	if vBool("conn.write.err") {
		return 0, errVerif
	}
	c.out = append(c.out, b...)
	return len(b), nil
}
func (c *c10Conn) Close() error                       { return nil }
func (c *c10Conn) LocalAddr() net.Addr                { return nil }
func (c *c10Conn) RemoteAddr() net.Addr               { return nil }
func (c *c10Conn) SetDeadline(t time.Time) error      { return vErr("conn.deadline.err") }
func (c *c10Conn) SetReadDeadline(t time.Time) error  { return nil }
func (c *c10Conn) SetWriteDeadline(t time.Time) error { return nil }

func c10Pattern(i int) byte { return byte(i*7 + 1) }

// VerifC10_StageFraming: staging a reply appends exactly len16(reply)||reply
// after everything already queued for this connection, whether it fits, forces
// a flush first, or goes out on its own - so replies leave whole, one per
// query, in order, and never interleave.
//
//verif:entry tier=quick,thorough
//verif:bound drain buffer pre-filled to held in {0, 4, cap-need-1, cap-need, cap-need+1, cap}; payload of 0 / 3 symbolic bytes (quick), also 1 / 8 (thorough), or an oversized payload (cap-1 bytes, first 2 symbolic); symbolic write and deadline failures
func VerifC10_StageFraming() {
	s := new(tcpStream)
	conn := new(c10Conn)
	s.conn = conn
	plens := []int{0, 3, 1, 8}
	np := 2
	if vTier() > 0 {
		np = 4
	}
	big := vChoice("oversized", 2) == 1
	var payload []byte
	if big {
		payload = make([]byte, len(s.drain)-1)
		copy(payload, vBytes("payload", 2))
	} else {
		payload = vBytes("payload", plens[vChoice("plen", np)])
	}
	need := 2 + len(payload)
	capD := len(s.drain)
	var helds []int
	if big {
		helds = []int{0, 4, capD}
	} else {
		helds = []int{0, 4, capD - need - 1, capD - need, capD - need + 1, capD}
	}
	held0 := helds[vChoice("held", len(helds))]
	for i := 0; i < held0; i++ {
		s.drain[i] = c10Pattern(i)
	}
	s.held = held0
	err := s.stage(payload)
	vAssert("held-in-range", s.held >= 0 && s.held <= capD)
	if err != nil {
		// a failed connection is finished: the error is sticky and nothing more is staged
		if s.werr != nil {
			vAssert("sticky-error-refuses-later-replies", s.stage([]byte{1}) != nil)
		}
		return
	}
	// logical byte stream = what reached the socket, then what is still staged
	total := len(conn.out) + s.held
	vAssert("stream-grew-by-one-frame", total == held0+need)
	at := func(i int) byte {
		if i < len(conn.out) {
			return conn.out[i]
		}
		return s.drain[i-len(conn.out)]
	}
	ok := true
	for i := 0; i < held0; i++ {
		ok = ok && at(i) == c10Pattern(i)
	}
	vAssert("earlier-replies-untouched-and-first", ok)
	vAssert("length-prefix", at(held0) == byte(len(payload)>>8) && at(held0+1) == byte(len(payload)))
	same := true
	for i := range payload {
		same = same && at(held0+2+i) == payload[i]
	}
	vAssert("payload-follows-its-prefix", same)
}

// VerifC10_Flush: a flush writes exactly the staged bytes once and empties
// the buffer; a failed write poisons the connection.
//
//verif:entry tier=quick,thorough
//verif:bound held in {0, 1, 5, cap}; staged bytes symbolic at both ends; symbolic write/deadline failure
func VerifC10_Flush() {
	s := new(tcpStream)
	conn := new(c10Conn)
	s.conn = conn
	capD := len(s.drain)
	held0 := []int{0, 1, 5, capD}[vChoice("held", 4)]
	for i := 0; i < held0; i++ {
		s.drain[i] = c10Pattern(i)
	}
	if held0 > 0 {
		s.drain[0], s.drain[held0-1] = vU8("first"), vU8("last")
	}
	first, last := s.drain[0], byte(0)
	if held0 > 0 {
		last = s.drain[held0-1]
	}
	s.held = held0
	s.deadline = vNow()
	err := s.flush()
	if held0 == 0 {
		vAssert("nothing-staged-nothing-written", err == nil && conn.writes == 0)
		return
	}
	if err != nil {
		vAssert("failure-is-sticky", s.werr != nil && s.flush() != nil)
		return
	}
	vAssert("one-write-of-exactly-the-staged-bytes", conn.writes == 1 && len(conn.out) == held0 && conn.out[0] == first && conn.out[held0-1] == last && s.held == 0)
}
