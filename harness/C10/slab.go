//go:build verif

//verif:pkg server
package server

// c10Parked: the slabs sitting in the idle cache
func c10Parked(e *udpEngine) []*udpJob {
	var out []*udpJob
	for i := range e.cache.shards {
		out = append(out, e.cache.shards[i].idle...)
	}
	return out
}

// VerifC10_ReleaseScrubs: a slab that goes back to the pool carries no
// staged reply (so a later request that ends in silence cannot send the
// previous client's bytes to the new client's address), goes back exactly
// once and gives its lease back; a release by anyone but the state's owner
// parks nothing - a slab in two hands is two clients sharing one buffer.
//
//verif:entry tier=quick,thorough
//verif:also C11
//verif:expect wrong-owner-parks-nothing parked-once-and-free no-leftover-reply lease-returned
//verif:bound job in any of the four states with arbitrary staged length / flags / receive length; release attempted from each of the three owned states
func VerifC10_ReleaseScrubs() {
	e := new(udpEngine)
	j := &udpJob{engine: e}
	state0 := uint8(vChoice("state", 4))
	j.state = state0
	j.txLen, j.rxLen, j.pktinfoLen = vInt("txLen"), vInt("rxLen"), vInt("pktinfoLen")
	vAssume(j.txLen >= 0 && j.txLen <= len(j.tx) && j.rxLen >= 0 && j.rxLen <= len(j.rx) && j.pktinfoLen >= 0 && j.pktinfoLen <= len(j.pktinfo))
	j.written, j.replay = vBool("written"), vBool("replay")
	from := uint8(1 + vChoice("from", 3))
	e.leased.Store(5)
	e.inFlight.Store(3)
	panicked := vTry(func() { j.release(from) })
	if from != state0 {
		vAssert("wrong-owner-parks-nothing", len(c10Parked(e)) == 0)
		return
	}
	if !panicked {
		vAssert("parked-once-and-free", len(c10Parked(e)) == 1 && c10Parked(e)[0] == j && j.state == udpJobFree)
		vAssert("no-leftover-reply", j.txLen == 0 && !j.written)
		vAssert("lease-returned", e.leased.Load() == 4)
	}
}

// VerifC10_WriteStagesOwnBytes: a reply written through the job is staged in
// the job's own buffer, byte for byte, with its length - the caller's buffer is
// not retained.
//
//verif:entry tier=quick,thorough
//verif:bound reply of 0-6 symbolic bytes, or the job's own lease (already in tx), or an oversized reply; staged in burst mode
func VerifC10_WriteStagesOwnBytes() {
	j := &udpJob{burst: new(udpTXBurst)}
	for i := 0; i < 8; i++ {
		j.tx[i] = 0xEE // a previous client's bytes
	}
	switch vChoice("kind", 3) {
	case 0:
		n := vChoice("len", 7)
		b := vBytes("reply", n)
		w, err := j.Write(b)
		vAssert("staged-length", err == nil && w == n && j.txLen == n && j.written)
		same := true
		for i := 0; i < n; i++ {
			same = same && j.tx[i] == b[i]
		}
		vAssert("staged-bytes-are-the-reply", same)
		if n > 0 {
			b[0] ^= 0xff
			vAssert("callers-buffer-not-retained", j.tx[0] == b[0]^0xff)
		}
	case 1:
		lease := j.LeaseWire(16)
		lease = append(lease, vBytes("reply", 4)...)
		w, err := j.Write(lease)
		vAssert("lease-staged-by-length", err == nil && w == 4 && j.txLen == 4 && j.tx[0] == lease[0] && j.tx[3] == lease[3])
	default:
		big := make([]byte, len(j.tx)+1)
		_, err := j.Write(big)
		vAssert("oversized-refused-nothing-staged", err != nil && j.txLen == 0)
	}
}
