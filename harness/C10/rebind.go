//go:build verif

//verif:pkg middleware
package middleware

import (
	"net"
	"time"

	"github.com/miekg/dns"
)

type c10rTransport struct {
	ip       net.IP
	port     int
	tcp      bool
	internal bool
	writes   int
}

func (t *c10rTransport) LocalAddr() net.Addr { return nil }
func (t *c10rTransport) RemoteAddr() net.Addr {
	if t.tcp {
		return &net.TCPAddr{IP: t.ip, Port: t.port}
	}
	return &net.UDPAddr{IP: t.ip, Port: t.port}
}
func (t *c10rTransport) WriteMsg(m *dns.Msg) error   { t.writes++; return nil }
func (t *c10rTransport) Write(b []byte) (int, error) { t.writes++; return len(b), nil }
func (t *c10rTransport) Close() error                { return nil }
func (t *c10rTransport) Internal() bool              { return t.internal }

// a wrapper a middleware left in place (it panicked past its restore)
type c10rWrapper struct{ ResponseWriter }

// VerifC10_RebindCarriesNothingOver: a pooled chain that is rebound to the
// next request keeps nothing of the previous one, whatever state that one
// left it in: the writer is the chain's own, bound to the new client's
// transport and address, unwritten, with no message, wire lease, rcode,
// internal mark or direct-pack capability of the previous request; the request
// is the new one; the per-request marks (inline-only, handoff, replay,
// cancelled, position) and the response meta (delegation-cut bound, request
// ledgers) start afresh; a pending detach cleanup of the previous request has
// run exactly once.
//
//verif:entry tier=quick,thorough
//verif:expect rebound-writer-is-the-chains-own-and-serves-the-new-client rebound-writer-is-unwritten-and-empty rebound-writer-has-no-inherited-capability rebound-request-is-the-new-one rebound-marks-start-afresh rebound-meta-starts-afresh previous-detach-cleanup-ran-once first-write-goes-to-the-new-client
//verif:bound previous request: writer written or not, with or without a held message / wire lease, any rcode, internal and direct-pack marks symbolic, writer possibly still wrapped by a middleware; chain cancelled or at any position, inline-only / handoff / replay symbolic; meta with a delegation-cut bound and request ledgers; a pending detach cleanup or none. Next request: message-born (Reset) or wire-born (ResetWire), UDP or TCP client with a symbolic address, internal or not
//verif:outside transport job slabs (VerifC10_ReleaseScrubs, VerifC10_SlabHasOneOwner); handlers' own wrappers
func VerifC10_RebindCarriesNothingOver() {
	handlers := []Handler{nil, nil, nil}
	ch := NewChain(handlers)
	old := &c10rTransport{ip: net.IP{198, 51, 100, 7}, port: 4444, internal: vBool("old.internal")}
	oldReq := new(dns.Msg)
	oldReq.SetQuestion("old.example.", dns.TypeA)
	ch.Reset(old, oldReq)
	// whatever the previous request left behind
	if vBool("old.written") {
		ch.base.size = int(vU16("old.size"))
		ch.base.rcode = int(vU8("old.rcode"))
	}
	if vBool("old.holds.msg") {
		ch.base.msg = oldReq
	}
	if vBool("old.holds.wire") {
		ch.base.wire = []byte{1, 2, 3}
	}
	ch.base.directPack = vBool("old.directpack")
	if vBool("old.writer.still.wrapped") {
		ch.Writer = &c10rWrapper{ch.Writer}
	}
	ch.pos, ch.count = int(vU8("old.pos")&3), int(vU8("old.count")&3)
	ch.inlineOnly, ch.handoff, ch.replay = vBool("old.inline"), vBool("old.handoff"), vBool("old.replay")
	ch.Meta.BoundCutFor(time.Unix(1000, 0), 7)
	ch.Meta.ensureLedgerHost()
	cleanups := 0
	pending := vBool("old.detach.pending")
	if pending {
		ch.detachCleanup = func() { cleanups++ }
	}

	next := &c10rTransport{ip: net.IP(vBytes("next.ip", 4)), port: 1 + int(vU16("next.port")&0x7fff), tcp: vBool("next.tcp"), internal: vBool("next.internal")}
	newReq := new(dns.Msg)
	newReq.SetQuestion("new.example.", dns.TypeAAAA)
	wireReq := &Request{raw: []byte{0, 1}, id: 9}
	wireBorn := vBool("next.wire.born")
	if wireBorn {
		ch.ResetWire(next, wireReq)
	} else {
		ch.Reset(next, newReq)
	}

	base, own := ch.Writer.(*responseWriter)
	vAssert("rebound-writer-is-the-chains-own-and-serves-the-new-client", own && base == &ch.base && base.Transport == Transport(next) && base.remoteip.Equal(next.ip))
	vAssert("rebound-writer-is-unwritten-and-empty", !ch.Writer.Written() && ch.Writer.Msg() == nil && base.wire == nil && ch.Writer.Rcode() == dns.RcodeSuccess)
	wantProto := "udp"
	if next.tcp {
		wantProto = "tcp"
	}
	vAssert("rebound-writer-has-no-inherited-capability", !base.directPack && ch.Writer.Internal() == next.internal && ch.Writer.Proto() == wantProto)
	if wireBorn {
		vAssert("rebound-request-is-the-new-one", ch.Request == wireReq)
	} else {
		vAssert("rebound-request-is-the-new-one", ch.Request == &ch.reqStorage && ch.Request.decoded() == newReq && ch.Request.raw == nil)
	}
	vAssert("rebound-marks-start-afresh", ch.pos == 0 && ch.count == len(handlers) && !ch.inlineOnly && !ch.handoff && !ch.replay)
	vAssert("rebound-meta-starts-afresh", ch.Meta.CutUntil().IsZero() && ch.Meta.ledgerHost() == nil)
	if pending {
		vAssert("previous-detach-cleanup-ran-once", cleanups == 1 && ch.detachCleanup == nil)
	} else {
		vReach("previous-detach-cleanup-ran-once")
	}
	reply := new(dns.Msg)
	reply.SetReply(newReq)
	_ = ch.Writer.WriteMsg(reply)
	vAssert("first-write-goes-to-the-new-client", next.writes == 1 && old.writes == 0)
}
