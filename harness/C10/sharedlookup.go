//go:build verif

//verif:pkg middleware/resolver
package resolver

import (
	"context"
	"net"

	"github.com/miekg/dns"
	"github.com/semihalev/sdns/internal/authority"
	"github.com/semihalev/sdns/internal/cache"
	"github.com/semihalev/sdns/middleware"
)

var c10s struct {
	shared  *dns.Msg
	calls   int
	outcome []int // per call: 0 = answer, 1 = a request-local error of the leader, 2 = an upstream error
	isShare []bool
	leader  []bool
	leaderQ *dns.Msg
}

// The singleflight group is the scheduler's part: which caller leads, whether
// the result is shared with other callers and what the leader's lookup
// returned are arbitrary. The one result object stands for the message every
// caller of the same flight is handed.
//
//verif:stub (*middleware/resolver.SingleflightWrapper).TimedDoChanWithRole = c10sFlight
//verif:stub internal/cache.Key = c10sKey
//verif:stub (*internal/authority.Servers).Fingerprint = c10sFingerprint
func c10sFlight(w *SingleflightWrapper, ctx context.Context, key string, fn func() (any, error)) (any, bool, bool, error) {
	i := c10s.calls
	c10s.calls++
	if i >= len(c10s.outcome) {
		// a follower keeps regrouping while leaders keep failing locally and
		// its own context is alive: bounded by that context in reality, by
		// three flights here
		vCut("more regroups than modelled")
	}
	switch c10s.outcome[i] {
	case 1:
		return nil, c10s.isShare[i], c10s.leader[i], middleware.ErrResolutionAttemptLimit
	case 2:
		return nil, c10s.isShare[i], c10s.leader[i], errC10sUpstream
	}
	return c10s.shared, c10s.isShare[i], c10s.leader[i], nil
}

func c10sKey(q dns.Question, cd ...bool) uint64         { return 1 }
func c10sFingerprint(s *authority.Servers) uint64      { return 2 }

type c10sErr struct{}

func (c10sErr) Error() string { return "connection refused" }

var errC10sUpstream error = c10sErr{}

// VerifC10_SharedLookupResultIsCopiedPerCaller: a lookup result shared by
// several callers of one flight is never handed out as the same object - each
// caller gets its own copy carrying its own query ID, and the shared message
// (which other callers are reading) is left untouched.
//
//verif:entry tier=quick,thorough
//verif:also C11
//verif:expect shared-result-is-copied-and-carries-the-callers-id shared-message-left-untouched unshared-result-carries-the-callers-id leaders-own-failure-is-returned
//verif:bound one caller of Resolver.groupLookup; up to 3 flights (a follower of locally failing leaders regroups; the 4th regroup is cut): each shared or not, led by this caller or not, ending in an answer, a request-local error or an upstream error; caller's query id and the flight result's id symbolic; request context alive
//verif:outside the singleflight implementation and real goroutine schedules; the leader's own lookup (a stub here)
func VerifC10_SharedLookupResultIsCopiedPerCaller() {
	c10s.calls, c10s.outcome, c10s.isShare, c10s.leader = 0, nil, nil, nil
	for i := 0; i < 3; i++ {
		c10s.outcome = append(c10s.outcome, vChoice("flight.outcome", 3))
		c10s.isShare = append(c10s.isShare, vBool("flight.shared"))
		c10s.leader = append(c10s.leader, vBool("flight.led.by.this.caller"))
	}
	otherID := vU16("flight.result.id")
	c10s.shared = new(dns.Msg)
	c10s.shared.SetQuestion("www.example.", dns.TypeA)
	c10s.shared.Response = true
	c10s.shared.Id = otherID
	c10s.shared.Answer = []dns.RR{&dns.A{Hdr: dns.RR_Header{Name: "www.example.", Rrtype: dns.TypeA, Class: dns.ClassINET, Ttl: 60}, A: net.IP{192, 0, 2, 1}}}

	req := new(dns.Msg)
	req.SetQuestion("www.example.", dns.TypeA)
	req.Id = vU16("caller.id")
	r := &Resolver{sfGroup: new(SingleflightWrapper)}
	rs := &resolveState{req: req}
	servers := &authority.Servers{Zone: "example."}
	resp, err := r.groupLookup(context.Background(), rs, req, servers, vBool("owned"))

	last := c10s.calls - 1
	if err != nil {
		// either an upstream error, or this caller's own (leader / unshared) local error
		o := c10s.outcome[last]
		vAssert("leaders-own-failure-is-returned", o == 2 || (o == 1 && (c10s.leader[last] || !c10s.isShare[last])))
		return
	}
	if c10s.isShare[last] {
		vAssert("shared-result-is-copied-and-carries-the-callers-id", resp != nil && resp != c10s.shared && resp.Id == req.Id && len(resp.Answer) == 1)
		vAssert("shared-message-left-untouched", c10s.shared.Id == otherID && len(c10s.shared.Answer) == 1)
	} else {
		vAssert("unshared-result-carries-the-callers-id", resp != nil && resp.Id == req.Id)
	}
	_ = cache.Key
}
