//go:build verif

//verif:pkg middleware/resolver
package resolver

import (
	"context"
	"time"

	"github.com/miekg/dns"
	"github.com/semihalev/sdns/internal/contextutil"
)

var c12d struct {
	r        *Resolver
	hops     int
	maxHops  int
	capErr   bool
	nesting  int
}

func c12dResp(qname string) *dns.Msg {
	// two zones that DNAME into each other: a.example. -> b.example. -> a.example.
	owner, target := "a.example.", "b.example."
	if len(qname) >= 10 && qname[len(qname)-10:] == "b.example." {
		owner, target = "b.example.", "a.example."
	}
	m := new(dns.Msg)
	m.SetQuestion(qname, dns.TypeA)
	m.Response = true
	m.Answer = []dns.RR{&dns.DNAME{Hdr: dns.RR_Header{Name: owner, Rrtype: dns.TypeDNAME, Class: dns.ClassINET, Ttl: 300}, Target: target}}
	return m
}

// The follow-up lookup of a DNAME target is the sub-pipeline; here it finds
// the other half of the ping-pong and comes straight back to checkDname with
// the context it was given, as the real sub-pipeline does.
//
//verif:stub (*middleware/resolver.Resolver).internalExchange = c12dExchange
func c12dExchange(r *Resolver, ctx context.Context, req *dns.Msg) (*dns.Msg, error) {
	c12d.hops++
	c12d.nesting++
	if c12d.nesting > c12d.maxHops {
		c12d.maxHops = c12d.nesting
	}
	if c12d.nesting > maxDnameDepth+2 {
		vFail("dname-follow-ups-run-past-the-cap")
	}
	msg, _, err := r.checkDname(ctx, c12dResp(req.Question[0].Name))
	c12d.nesting--
	if err != nil {
		if err == errMaxDepth {
			c12d.capErr = true
		}
		return nil, err
	}
	return msg, nil
}

type c12dKey int

// VerifC12_DnamePingPongBounded: two zones that DNAME into each other are
// followed a bounded number of times and end in an error, on a plain context
// and on the request context every real client query carries (the lazily
// armed deadline carrier, with free or with used-up pin slots).
//
//verif:entry tier=quick,thorough
//verif:expect dname-chain-ends-at-the-cap
//verif:bound a.example. <-> b.example. DNAME cycle, every follow-up answered with the other half; request context: context.Background, a LazyDeadline carrier with all pin slots free, or the same with 0-5 slots already taken by other request state
//verif:outside what the sub-pipeline costs per hop (budgets: VerifC12_Debit, VerifC12_SelfReferringPipelineTerminates); CNAME-typed queries (not followed)
func VerifC12_DnamePingPongBounded() {
	c12d.r, c12d.hops, c12d.maxHops, c12d.capErr, c12d.nesting = new(Resolver), 0, 0, false, 0
	var ctx context.Context = context.Background()
	if vBool("request.carrier") {
		ld := contextutil.WithLazyDeadline(context.Background(), vNow().Add(time.Hour))
		used := vChoice("carrier.pins.used", 6)
		for i := 0; i < used; i++ {
			ld.TryPin(c12dKey(i), i+1)
		}
		ctx = ld
	}
	_, _, err := c12d.r.checkDname(ctx, c12dResp("x.a.example."))
	vAssert("dname-chain-ends-at-the-cap", err != nil && c12d.capErr && c12d.hops <= maxDnameDepth+1 && c12d.maxHops <= maxDnameDepth+1)
}
