//go:build verif

//verif:pkg middleware
package middleware

import (
	"context"
	"errors"

	"github.com/miekg/dns"
)

// c12qReenter is the worst plugin the recursion bound exists for: every time
// the pipeline runs it, it asks the pipeline the same question again before
// answering.
type c12qReenter struct {
	q        Queryer
	depth    int
	maxDepth int
	runs     int
	denied   int
	lastErr  error
}

func (h *c12qReenter) Name() string { return "reenter" }

func (h *c12qReenter) ServeDNS(ctx context.Context, ch *Chain) {
	h.depth++
	if h.depth > h.maxDepth {
		h.maxDepth = h.depth
	}
	if h.depth > maxQueryerRecursion+1 {
		vFail("nesting-exceeds-the-recursion-cap")
	}
	h.runs++
	req := ch.Request.Msg()
	if _, err := h.q.Query(ctx, req); err != nil {
		h.denied++
		h.lastErr = err
	}
	h.depth--
	m := new(dns.Msg)
	m.SetReply(req)
	_ = ch.Writer.WriteMsg(m)
	ch.Cancel()
}

func c12qRun(mode RecursionWorkMode, budget uint32) (*c12qReenter, error) {
	policy := RecursionWorkPolicy{Mode: mode, MaxOutboundQueries: 1000, MaxInternalQueries: budget, MaxDNSKEYCandidates: 1000, MaxRRsetSignatureChecks: 1000, MaxSignatureChecks: 1000, MaxDSDigests: 1000, MaxNSEC3Hashes: 1000, MaxConcurrentCrypto: 1000}
	h := new(c12qReenter)
	p := newPipeline([]Handler{h}, map[string]Handler{"reenter": h}, []string{"reenter"}, policy)
	q := NewPipelineQueryer(p)
	h.q = q
	req := new(dns.Msg)
	req.SetQuestion("loop.example.", dns.TypeA)
	ctx := context.Background()
	if mode != RecursionWorkOff {
		ctx, _ = EnsureRecursionWork(ctx, policy)
	}
	_, err := q.Query(ctx, req)
	return h, err
}

// VerifC12_SelfReferringPipelineTerminates
//
//verif:entry tier=quick,thorough
//verif:also C13
//verif:expect nesting-never-exceeds-the-recursion-cap enforce-mode-runs-at-most-budget-sub-queries over-budget-surfaces-as-an-error shadow-mode-behaves-like-off
//verif:bound one client-side Query into a pipeline whose only handler re-enters the same pipeline unconditionally; run once with the firewall off and once in shadow or enforce mode with an internal-query budget of 0..6; every other budget 1000
//verif:outside handlers that fan out more than one sub-query per run (the breadth is the budget's job, shown by VerifC12_Debit); real resolver / cache handlers in the loop
func VerifC12_SelfReferringPipelineTerminates() {
	off, _ := c12qRun(RecursionWorkOff, 0)
	// the cap is maxQueryerRecursion nested sub-queries; one more handler
	// frame (the refused call's caller) is the most any reading of it allows
	vAssert("nesting-never-exceeds-the-recursion-cap", off.maxDepth <= maxQueryerRecursion+1 && off.runs <= maxQueryerRecursion+1 && off.denied >= 1 && errors.Is(off.lastErr, ErrMaxRecursion))

	budget := uint32(vChoice("budget", 7))
	if vBool("enforce") {
		h, err := c12qRun(RecursionWorkEnforce, budget)
		vAssert("enforce-mode-runs-at-most-budget-sub-queries", uint32(h.runs) <= budget)
		vAssert("over-budget-surfaces-as-an-error", err != nil && errors.Is(err, ErrRecursionWorkLimit))
	} else {
		// shadow only counts: the run is the firewall-off run
		h, _ := c12qRun(RecursionWorkShadow, budget)
		vAssert("shadow-mode-behaves-like-off", h.runs == off.runs && h.maxDepth == off.maxDepth && h.denied == off.denied && errors.Is(h.lastErr, ErrMaxRecursion))
	}
}
