//go:build verif

//verif:pkg middleware
package middleware

import "errors"

var c12 struct {
	l        *RecursionWorkLedger
	kind     RecursionWorkKind
	envLeft  int
	envTotal uint32
}

// c12Interfere runs before every atomic Load / CompareAndSwap / Add the ledger
// performs: other goroutines of the same request tree may have completed any
// number of *successful* debits in between (rely = the guarantee being shown:
// a successful debit never publishes a value above the limit).
//
//verif:envstep c12Interfere
func c12Interfere() {
	if c12.l == nil || c12.envLeft == 0 || !vBool("env.acts") {
		return
	}
	c12.envLeft--
	counter, limit, _, ok := c12.l.aggregateDimension(c12.kind)
	if !ok {
		return
	}
	d := vU32("env.debits")
	cur := counter.Load()
	if c12.l.policy.Mode == RecursionWorkEnforce {
		vAssume(d <= limit && cur <= limit-d)
	} else {
		vAssume(cur+d >= cur) // no wrap
	}
	counter.Store(cur + d)
	c12.envTotal += d
}

var c12Kinds = [5]RecursionWorkKind{RecursionWorkOutboundQuery, RecursionWorkInternalQuery, RecursionWorkSignature, RecursionWorkDSDigest, RecursionWorkNSEC3Hash}

// VerifC12_Debit: one debit from an arbitrary ledger state, under
// interference by other successful debitors, never publishes a counter above
// its limit in enforce mode; a refusal leaves the counter alone and latches
// the first rejected dimension; shadow mode only counts.
//
//verif:entry tier=quick,thorough
//verif:bound all policies (mode off/shadow/enforce, every 32-bit limit), all five aggregate dimensions, arbitrary counter <= limit, arbitrary previous latch; at each of this caller's atomic operations other debitors may or may not act, up to 2 times in total (3 was solver-unknown and is outside the claim)
func VerifC12_Debit() {
	mode := RecursionWorkMode(vChoice("mode", 3))
	p := RecursionWorkPolicy{Mode: mode, MaxOutboundQueries: vU32("maxOutbound"), MaxInternalQueries: vU32("maxInternal"),
		MaxSignatureChecks: vU32("maxSig"), MaxDSDigests: vU32("maxDS"), MaxNSEC3Hashes: vU32("maxNSEC3"),
		MaxDNSKEYCandidates: vU32("maxKeys"), MaxRRsetSignatureChecks: vU32("maxRRsetSig"), MaxConcurrentCrypto: vU32("maxCrypto")}
	l := NewRecursionWorkLedger(p)
	kind := c12Kinds[vChoice("kind", 5)]
	counter, limit, bit, _ := l.aggregateDimension(kind)
	pre := vU32("counter")
	counter.Store(pre)
	if mode == RecursionWorkEnforce {
		vAssume(pre <= limit) // the invariant
	} else {
		vAssume(pre < 0xfffffff0)
	}
	first0 := vU32("first")
	vAssume(first0 <= uint32(RecursionWorkConcurrentCrypto)+1)
	l.first.Store(first0)
	c12.l, c12.kind, c12.envTotal = l, kind, 0
	c12.envLeft = 2
	// three interference acts came back 'unknown' from every back end within
	// the budget: both tiers allow two
	err := l.Debit(kind)
	c12.l = nil
	post := counter.Load()
	switch mode {
	case RecursionWorkOff:
		vAssert("off-does-nothing", err == nil && post == pre+c12.envTotal && l.first.Load() == first0)
	case RecursionWorkShadow:
		vAssert("shadow-never-refuses", err == nil)
		vAssert("shadow-counts", post == pre+c12.envTotal+1)
		vAssert("shadow-never-latches", l.first.Load() == first0 && l.EnforcementError() == nil)
	case RecursionWorkEnforce:
		vAssert("never-above-limit", post <= limit)
		if err == nil {
			vAssert("accepted-debit-counts-once", post == pre+c12.envTotal+1)
		} else {
			var le *RecursionWorkLimitError
			vAssert("refusal-is-a-limit-error", errors.As(err, &le) && le.Kind == kind && le.Limit == limit && errors.Is(err, ErrRecursionWorkLimit))
			vAssert("refusal-leaves-counter", post == pre+c12.envTotal && post == limit)
			vAssert("refusal-latches-first", l.first.Load() != 0 && (first0 != 0 || l.first.Load() == uint32(kind)+1) && (first0 == 0 || l.first.Load() == first0))
			vAssert("exhaustion-recorded", l.exhausted.Load()&bit != 0)
			vAssert("request-fails-closed", l.EnforcementError() != nil)
		}
	}
}

// VerifC12_CheckLocal: per-object limits.
//
//verif:entry tier=quick,thorough
//verif:bound all policies, the three local dimensions, every used count
func VerifC12_CheckLocal() {
	mode := RecursionWorkMode(vChoice("mode", 3))
	p := RecursionWorkPolicy{Mode: mode, MaxDNSKEYCandidates: vU32("maxKeys"), MaxRRsetSignatureChecks: vU32("maxRRsetSig"), MaxConcurrentCrypto: vU32("maxCrypto")}
	l := NewRecursionWorkLedger(p)
	kind := []RecursionWorkKind{RecursionWorkDNSKEYCandidate, RecursionWorkRRsetSignature, RecursionWorkConcurrentCrypto}[vChoice("kind", 3)]
	limit, _, _ := l.localDimension(kind)
	used := vU32("used")
	err := l.CheckLocal(kind, used)
	switch mode {
	case RecursionWorkEnforce:
		vAssert("allowed-iff-below-limit", (err == nil) == (used < limit))
		vAssert("refusal-latches", err == nil || l.EnforcementError() != nil)
	default:
		vAssert("never-refuses", err == nil && l.EnforcementError() == nil)
	}
}
