//go:build verif

//verif:pkg middleware/cache
package cache

import (
	"context"
	"net"

	"github.com/miekg/dns"
)

type c12aStep struct {
	shape  int
	ad     bool
	target string
}

var c12a struct {
	script  []c12aStep
	endless bool
	calls   int
	merged  []bool // per call: did the response carry records
}

// The sub-pipeline behind the alias chase is a script: each call answers the
// question it is asked with the next scripted shape.
//
//verif:stub (*middleware/cache.Cache).internalExchange = c12aExchange
func c12aExchange(c *Cache, ctx context.Context, req *dns.Msg) (*dns.Msg, subQueryLineage, error) {
	i := c12a.calls
	c12a.calls++
	if i >= len(c12a.script) {
		if c12a.endless {
			vFail("alias-chase-runs-past-its-cap")
		}
		// beyond the scripted hops every follow-up fails
		c12a.merged = append(c12a.merged, false)
		return nil, subQueryLineage{}, errVerif
	}
	s := c12a.script[i]
	q := req.Question[0]
	r := new(dns.Msg)
	r.Response = true
	r.Question = []dns.Question{q}
	r.AuthenticatedData = s.ad
	cname := &dns.CNAME{Hdr: dns.RR_Header{Name: q.Name, Rrtype: dns.TypeCNAME, Class: dns.ClassINET, Ttl: 300}, Target: s.target}
	switch s.shape {
	case 0: // another alias
		r.Answer = []dns.RR{cname}
	case 1: // alias and the address of its target in one message
		r.Answer = []dns.RR{cname, &dns.A{Hdr: dns.RR_Header{Name: s.target, Rrtype: dns.TypeA, Class: dns.ClassINET, Ttl: 60}, A: net.IP{192, 0, 2, 9}}}
	case 2: // the address
		r.Answer = []dns.RR{&dns.A{Hdr: dns.RR_Header{Name: q.Name, Rrtype: dns.TypeA, Class: dns.ClassINET, Ttl: 60}, A: net.IP{192, 0, 2, 9}}}
	case 3: // the target does not exist
		r.Rcode = dns.RcodeNameError
		r.Ns = []dns.RR{&dns.SOA{Hdr: dns.RR_Header{Name: "example.", Rrtype: dns.TypeSOA, Class: dns.ClassINET, Ttl: 300}, Ns: "ns.example.", Mbox: "h.example.", Minttl: 300}}
	case 4: // nothing at all
	default:
		c12a.merged = append(c12a.merged, false)
		return nil, subQueryLineage{}, errVerif
	}
	c12a.merged = append(c12a.merged, len(r.Answer) > 0 || len(r.Ns) > 0)
	return r, subQueryLineage{}, nil
}

// VerifC12_AliasChaseIsBoundedAndKeepsADHonest: completing an alias answer on
// its way into the cache asks a bounded number of follow-up questions (ten
// today; the check allows any cap up to 32) whatever the
// targets do - chains that never end, loops back to the question, to an
// earlier target or to themselves, in any letter case - and always comes back
// with a message; and the completed answer claims AD only if the answer it
// started from and every follow-up response whose records it took in were
// themselves authenticated.
//
//verif:entry tier=quick,thorough
//verif:also C01
//verif:expect alias-chase-asks-a-bounded-number-of-follow-ups alias-chase-always-returns-a-message ad-only-if-every-merged-part-was-authenticated some-chase-completed
//verif:bound an A question answered by one CNAME (AD symbolic); scenario 1: a chain of 32 fresh alias targets, more than any cap up to 32 lets through; scenario 2: up to 3 (quick) / 4 (thorough) scripted follow-up responses (any further one fails), each another alias / alias+address / address / NXDOMAIN+SOA / empty / error with AD symbolic, alias targets drawn from {the question name, the same in another case, the first target, a fresh name}
//verif:outside what the follow-up queries themselves cost (the work ledger: VerifC12_Debit, VerifC12_SelfReferringPipelineTerminates); lineage (VerifC04_ChaseInheritsLifetime)
func VerifC12_AliasChaseIsBoundedAndKeepsADHonest() {
	c12a.calls, c12a.merged, c12a.script = 0, nil, nil
	msg := new(dns.Msg)
	msg.Response = true
	msg.Question = []dns.Question{{Name: "alias.example.", Qtype: dns.TypeA, Qclass: dns.ClassINET}}
	msg.Answer = []dns.RR{&dns.CNAME{Hdr: dns.RR_Header{Name: "alias.example.", Rrtype: dns.TypeCNAME, Class: dns.ClassINET, Ttl: 300}, Target: "t0.example."}}
	ad0 := vBool("outer.ad")
	msg.AuthenticatedData = ad0

	endless := vBool("endless.chain")
	c12a.endless = endless
	if endless {
		for i := 1; i <= 32; i++ {
			c12a.script = append(c12a.script, c12aStep{shape: 0, ad: true, target: string([]byte{'t', byte('0' + i/10), byte('0' + i%10)}) + ".example."})
		}
	} else {
		hops := 3
		if vTier() > 0 {
			hops = 4
		}
		for i := 0; i < hops; i++ {
			s := c12aStep{shape: vChoice("step.shape", 6), ad: vBool("step.ad")}
			if s.shape <= 1 {
				s.target = []string{"alias.example.", "Alias.Example.", "t0.example.", "fresh.example."}[vChoice("step.target", 4)]
				if s.target == "fresh.example." {
					s.target = string([]byte{'f', byte('0' + i)}) + ".example."
				}
			}
			c12a.script = append(c12a.script, s)
		}
	}
	c := new(Cache)
	out := c.additionalAnswer(context.Background(), msg)

	vAssert("alias-chase-always-returns-a-message", out != nil)
	vAssert("alias-chase-asks-a-bounded-number-of-follow-ups", c12a.calls <= 32)
	if endless {
		vReach("some-chase-completed")
		return
	}
	allAD := ad0
	for i := 0; i < c12a.calls && i < len(c12a.script); i++ {
		if c12a.merged[i] && !c12a.script[i].ad {
			allAD = false
		}
	}
	vAssert("ad-only-if-every-merged-part-was-authenticated", !out.AuthenticatedData || allAD)
	vReach("some-chase-completed")
}
