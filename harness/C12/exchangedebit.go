//go:build verif

//verif:pkg middleware/resolver
package resolver

import (
	"context"
	"net"
	"time"

	"github.com/miekg/dns"
	"github.com/semihalev/sdns/config"
	"github.com/semihalev/sdns/internal/authority"
	"github.com/semihalev/sdns/internal/dnsclient"
	"github.com/semihalev/sdns/middleware"
)

var c12x struct {
	dials     int
	exchanges int
	script    []int // per exchange: 0 answer, 1 error, 2 truncated answer
	dialFails bool
}

type c12xConn struct{}

func (c12xConn) Read(b []byte) (int, error)         { return 0, errVerif }
func (c12xConn) Write(b []byte) (int, error)        { return len(b), nil }
func (c12xConn) Close() error                       { return nil }
func (c12xConn) LocalAddr() net.Addr                { return nil }
func (c12xConn) RemoteAddr() net.Addr               { return nil }
func (c12xConn) SetDeadline(t time.Time) error      { return nil }
func (c12xConn) SetReadDeadline(t time.Time) error  { return nil }
func (c12xConn) SetWriteDeadline(t time.Time) error { return nil }

// The network is a sink that counts: every dial is one transport attempt.
//
//verif:stub (*middleware/resolver.Resolver).dialUDP = c12xDialUDP
//verif:stub (*net.Dialer).DialContext = c12xDialContext
//verif:stub (*internal/dnsclient.Conn).ExchangeInterruptible = c12xExchange
func c12xDialUDP(r *Resolver, server *authority.Server) (net.Conn, error) {
	c12x.dials++
	if c12x.dialFails {
		return nil, errVerif
	}
	return c12xConn{}, nil
}

func c12xDialContext(d *net.Dialer, ctx context.Context, network, address string) (net.Conn, error) {
	c12x.dials++
	if c12x.dialFails {
		return nil, errVerif
	}
	return c12xConn{}, nil
}

func c12xExchange(co *dnsclient.Conn, ctx context.Context, g *dnsclient.InterruptGroup, m *dns.Msg) (*dns.Msg, time.Duration, error) {
	i := c12x.exchanges
	c12x.exchanges++
	kind := 0
	if i < len(c12x.script) {
		kind = c12x.script[i]
	}
	if kind == 1 {
		return nil, time.Millisecond, errVerif
	}
	r := new(dns.Msg)
	r.SetReply(m)
	r.Truncated = kind == 2
	return r, time.Millisecond, nil
}

// VerifC12_EveryTransportAttemptIsDebitedFirst: every attempt Resolver.exchange
// puts on the wire - the first try, each retry after a failed exchange, the
// TCP fallback after a truncated reply, and exploration probes alike - has
// been debited from the request tree's outbound-query budget before the
// socket is dialled; once the budget is spent no further attempt is made and
// the error says so.
//
//verif:entry tier=quick,thorough
//verif:expect dials-never-exceed-accepted-debits spent-budget-means-no-attempt some-attempt-made some-attempt-refused
//verif:bound one call of Resolver.exchange (UDP first) with enforce-mode budgets of 0..3 outbound queries and 0..3 already spent; ordinary attempt or exploration probe; dial succeeds or fails; up to 3 exchanges each answering, failing or answering truncated (so retries and the TCP fallback recurse)
//verif:outside the network itself (dials and exchanges are counting stubs); the fan-out that chooses servers (Resolver.lookup); shadow mode (counts only: VerifC12_Debit)
func VerifC12_EveryTransportAttemptIsDebitedFirst() {
	c12x.dials, c12x.exchanges, c12x.script = 0, 0, nil
	c12x.dialFails = vBool("dial.fails")
	for i := 0; i < 3; i++ {
		c12x.script = append(c12x.script, vChoice("exchange.outcome", 3))
	}
	limit := uint32(vChoice("budget", 4))
	spent := uint32(vChoice("already.spent", 4))
	vAssume(spent <= limit)
	p := middleware.RecursionWorkPolicy{Mode: middleware.RecursionWorkEnforce, MaxOutboundQueries: limit, MaxInternalQueries: 1000,
		MaxSignatureChecks: 1000, MaxDSDigests: 1000, MaxNSEC3Hashes: 1000, MaxDNSKEYCandidates: 1000, MaxRRsetSignatureChecks: 1000, MaxConcurrentCrypto: 8}
	ledger := middleware.NewRecursionWorkLedger(p)
	for i := uint32(0); i < spent; i++ {
		_ = ledger.Debit(middleware.RecursionWorkOutboundQuery)
	}
	r := &Resolver{netTimeout: time.Second, cfg: new(config.Config)}
	rs := &resolveState{work: ledger}
	server := &authority.Server{Addr: "192.0.2.53:53", IPVersion: authority.IPv4, UDPAddr: &net.UDPAddr{IP: net.IP{192, 0, 2, 53}, Port: 53}}
	req := new(dns.Msg)
	req.SetQuestion("www.example.", dns.TypeA)
	ctx := context.Background()
	if vBool("exploration.probe") {
		ctx = withProbeMode(ctx)
	}

	_, err := r.exchange(ctx, rs, nil, "udp", req, server, 0)

	accepted := ledger.Snapshot().OutboundQueries - spent
	vAssert("dials-never-exceed-accepted-debits", uint32(c12x.dials) <= accepted)
	if spent == limit {
		vReach("some-attempt-refused")
		vAssert("spent-budget-means-no-attempt", c12x.dials == 0 && err != nil && middleware.IsRequestLocalResolutionError(err))
	}
	if c12x.dials > 0 {
		vReach("some-attempt-made")
	}
}
