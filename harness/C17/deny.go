//go:build verif

//verif:pkg middleware/accesslist
package accesslist

import (
	"context"
	"net"
	"net/netip"

	"github.com/miekg/dns"
	"github.com/semihalev/sdns/internal/ipset"
	"github.com/semihalev/sdns/middleware"
)

type c17Transport struct {
	ip       net.IP
	port     int
	internal bool
	writes   int
}

func (t *c17Transport) LocalAddr() net.Addr         { return nil }
func (t *c17Transport) RemoteAddr() net.Addr        { return &net.UDPAddr{IP: t.ip, Port: t.port} }
func (t *c17Transport) WriteMsg(m *dns.Msg) error   { t.writes++; return nil }
func (t *c17Transport) Write(b []byte) (int, error) { t.writes++; return len(b), nil }
func (t *c17Transport) Close() error                { return nil }
func (t *c17Transport) Internal() bool              { return t.internal }

var c17Next int

// what lies beyond the access list (cache, resolver, upstream traffic) is a sink
//
//verif:stub (*middleware.Chain).Next = c17NextSink
func c17NextSink(ch *middleware.Chain, ctx context.Context) { c17Next++ }

// VerifC17_DenyIsSilent: a client outside the configured list gets no reply
// and nothing downstream runs; a client inside, or a resolver-internal
// sub-query, always goes on - for the list as New() compiles it.
//
//verif:entry tier=quick,thorough
//verif:bound access list {10.1.2.3/8 (host bits set), 2001:db8::/32, one unparsable entry} compiled by ipset.New; client address: 4-byte IPv4, 16-byte IPv4-mapped or native IPv6 with symbolic bytes; internal flag symbolic
func VerifC17_DenyIsSilent() {
	c17Next = 0
	// membership exactness is VerifC17_ContainsExact's subject; here the list is
	// two concrete CIDRs (one with host bits) compiled through the public New()
	set, bad := ipset.New([]string{"10.1.2.3/8", "2001:db8::/32", "not-a-cidr"})
	vAssert("unparsable-entry-reported-not-widening", len(bad) == 1 && set.Len() == 2)
	a := &List{allowed: set}

	t := &c17Transport{port: 5353, internal: vBool("internal")}
	v4 := vBytes("client.v4", 4)
	var client netip.Addr
	switch vChoice("client.form", 3) {
	case 0:
		t.ip = net.IP(v4)
		client = netip.AddrFrom4([4]byte{v4[0], v4[1], v4[2], v4[3]})
	case 1:
		t.ip = net.IP(append([]byte{0, 0, 0, 0, 0, 0, 0, 0, 0, 0, 0xff, 0xff}, v4...))
		client = netip.AddrFrom4([4]byte{v4[0], v4[1], v4[2], v4[3]})
	default:
		b := vBytes("client.v6", 16)
		vAssume(b[0] == 0x20)
		t.ip = net.IP(b)
		var b16 [16]byte
		copy(b16[:], b)
		client = netip.AddrFrom16(b16)
	}
	req := new(dns.Msg)
	req.Question = []dns.Question{{Name: "a.example.", Qtype: dns.TypeA, Qclass: dns.ClassINET}}
	ch := middleware.NewChain(nil)
	ch.Reset(t, req)
	a.ServeDNS(context.Background(), ch)

	inside := netip.MustParsePrefix("10.0.0.0/8").Contains(client) || netip.MustParsePrefix("2001:db8::/32").Contains(client)
	vAssert("never-writes-a-reply-itself", t.writes == 0)
	if t.internal {
		vAssert("internal-sub-queries-are-not-subject-to-client-access", c17Next == 1)
		return
	}
	vAssert("served-iff-inside-a-configured-cidr", (c17Next == 1) == inside)
	vAssert("at-most-one-continuation", c17Next <= 1)
}

