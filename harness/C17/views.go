//go:build verif

//verif:pkg middleware/views
package views

import (
	"context"
	"net"
	"net/netip"

	"github.com/miekg/dns"
	"github.com/semihalev/sdns/internal/ipset"
	"github.com/semihalev/sdns/middleware"
)

type c17vTransport struct {
	ip       net.IP
	internal bool
	msgs     []*dns.Msg
}

func (t *c17vTransport) LocalAddr() net.Addr         { return nil }
func (t *c17vTransport) RemoteAddr() net.Addr        { return &net.UDPAddr{IP: t.ip, Port: 5353} }
func (t *c17vTransport) WriteMsg(m *dns.Msg) error   { t.msgs = append(t.msgs, m); return nil }
func (t *c17vTransport) Write(b []byte) (int, error) { return len(b), nil }
func (t *c17vTransport) Close() error                { return nil }
func (t *c17vTransport) Internal() bool              { return t.internal }

var c17vNext int

// everything behind the views handler (cache, resolver) is a sink
//
//verif:stub (*middleware.Chain).Next = c17vNextSink
func c17vNextSink(ch *middleware.Chain, ctx context.Context) { c17vNext++ }

func c17vA(name string, a, b, c, d byte) dns.RR {
	return &dns.A{Hdr: dns.RR_Header{Name: name, Rrtype: dns.TypeA, Class: dns.ClassINET, Ttl: 60}, A: net.IP{a, b, c, d}}
}

// VerifC17_FirstMatchingView: a client is answered from the first view (in
// declaration order) whose networks contain its address - by the same
// containment rule as the access list - and from no other; clients in no
// view and resolver-internal sub-queries are not subject to views at all.
//
//verif:entry tier=quick,thorough
//verif:expect internal-sub-queries-are-not-subject-to-views client-in-no-view-is-untouched answer-comes-from-the-first-matching-view-only first-matching-view-answers-what-it-has
//verif:bound views in order: V1 {10.0.0.0/8} with host.lan. A 192.0.2.1; V2 {10.1.0.0/16, 192.168.0.0/16} with host.lan. A 192.0.2.2 and other.lan. A 192.0.2.3; client: 4-byte IPv4, IPv4-mapped or native IPv6 with symbolic bytes; internal flag symbolic; query name host.lan. (either case), other.lan. or none.lan., type A or AAAA
//verif:outside wildcard owners inside a view (closest-encloser choice among a view's own records); membership exactness for arbitrary lists (VerifC17_ContainsExact)
func VerifC17_FirstMatchingView() {
	c17vNext = 0
	n1, _ := ipset.New([]string{"10.0.0.0/8"})
	n2, _ := ipset.New([]string{"10.1.0.0/16", "192.168.0.0/16"})
	v := &Views{views: []*compiledView{
		{zone: "one", networks: n1, answers: []dns.RR{c17vA("host.lan.", 192, 0, 2, 1)}},
		{zone: "two", networks: n2, answers: []dns.RR{c17vA("host.lan.", 192, 0, 2, 2), c17vA("other.lan.", 192, 0, 2, 3)}},
	}}
	t := &c17vTransport{internal: vBool("internal")}
	v4 := vBytes("client.v4", 4)
	var client netip.Addr
	switch vChoice("client.form", 3) {
	case 0:
		t.ip = net.IP(v4)
		client = netip.AddrFrom4([4]byte{v4[0], v4[1], v4[2], v4[3]})
	case 1:
		t.ip = net.IP(append([]byte{0, 0, 0, 0, 0, 0, 0, 0, 0, 0, 0xff, 0xff}, v4...))
		client = netip.AddrFrom4([4]byte{v4[0], v4[1], v4[2], v4[3]})
	default:
		b := vBytes("client.v6", 16)
		vAssume(b[0] == 0x20)
		t.ip = net.IP(b)
		var b16 [16]byte
		copy(b16[:], b)
		client = netip.AddrFrom16(b16)
	}
	qname := []string{"host.lan.", "HOST.Lan.", "other.lan.", "none.lan."}[vChoice("qname", 4)]
	qtype := []uint16{dns.TypeA, dns.TypeAAAA}[vChoice("qtype", 2)]
	req := new(dns.Msg)
	req.Id = vU16("id")
	req.Question = []dns.Question{{Name: qname, Qtype: qtype, Qclass: dns.ClassINET}}
	ch := middleware.NewChain(nil)
	ch.Reset(t, req)
	v.ServeDNS(context.Background(), ch)

	in1 := netip.MustParsePrefix("10.0.0.0/8").Contains(client)
	in2 := netip.MustParsePrefix("10.1.0.0/16").Contains(client) || netip.MustParsePrefix("192.168.0.0/16").Contains(client)
	if t.internal {
		vAssert("internal-sub-queries-are-not-subject-to-views", c17vNext == 1 && len(t.msgs) == 0)
		return
	}
	if !in1 && !in2 {
		vAssert("client-in-no-view-is-untouched", c17vNext == 1 && len(t.msgs) == 0)
		return
	}
	// which record the first matching view holds for this question
	var want byte
	isHost := qname == "host.lan." || qname == "HOST.Lan."
	if qtype == dns.TypeA {
		switch {
		case in1 && isHost:
			want = 1
		case !in1 && in2 && isHost:
			want = 2
		case !in1 && in2 && qname == "other.lan.":
			want = 3
		}
	}
	for _, m := range t.msgs {
		ok := len(m.Answer) == 1 && want != 0
		if ok {
			a, isA := m.Answer[0].(*dns.A)
			ok = isA && len(a.A) >= 4 && a.A[len(a.A)-1] == want
		}
		vAssert("answer-comes-from-the-first-matching-view-only", ok)
	}
	if want != 0 {
		vAssert("first-matching-view-answers-what-it-has", len(t.msgs) == 1 && c17vNext == 0 && t.msgs[0].Id == req.Id)
	} else {
		vReach("first-matching-view-has-no-answer")
	}
}
