//go:build verif

//verif:pkg middleware
package middleware

import (
	"context"
)

type c17wPlain struct{ name string }

func (h *c17wPlain) Name() string                           { return h.name }
func (h *c17wPlain) ServeDNS(ctx context.Context, ch *Chain) {}

type c17wPolicy struct {
	name string
	only bool
}

func (h *c17wPolicy) Name() string                           { return h.name }
func (h *c17wPolicy) ServeDNS(ctx context.Context, ch *Chain) {}
func (h *c17wPolicy) ClientOnly() bool                       { return h.only }

type c17wConsumer struct {
	q, pq Queryer
}

func (h *c17wConsumer) Name() string                           { return "resolver" }
func (h *c17wConsumer) ServeDNS(ctx context.Context, ch *Chain) {}
func (h *c17wConsumer) SetQueryer(q Queryer)                   { h.q = q }
func (h *c17wConsumer) SetPrefetchQueryer(q Queryer)           { h.pq = q }

// VerifC17_InternalPipelinesCarryNoClientPolicy: the pipelines that internal
// sub-queries and prefetches run through contain no handler that declares
// itself client-only, whichever handlers of the chain do, and are what the
// consumers of internal queries are wired to. (Which other handlers they keep
// is not C17's business and is not asserted.)
//
//verif:entry tier=quick,thorough
//verif:expect internal-pipeline-has-no-client-only-handler internal-pipeline-is-drawn-from-the-configured-chain consumers-are-wired
//verif:bound a chain of 5 handlers: three that each either do not implement ClientOnly, implement it returning false, or returning true (all 27 combinations), the cache handler, and a consumer of both queryers
//verif:outside which of sdns's handlers declare ClientOnly (accesslist, ratelimit, reflex, views also check Internal() themselves: VerifC17_DenyIsSilent, VerifC17_InternalQueriesBypass*, VerifC17_FirstMatchingView); registry construction
func VerifC17_InternalPipelinesCarryNoClientPolicy() {
	var handlers []Handler
	byName := map[string]Handler{}
	for _, n := range []string{"accesslist", "ratelimit", "views"} {
		var h Handler
		switch vChoice("handler.kind", 3) {
		case 0:
			h = &c17wPlain{name: n}
		case 1:
			h = &c17wPolicy{name: n}
		default:
			h = &c17wPolicy{name: n, only: true}
		}
		handlers = append(handlers, h)
		byName[n] = h
	}
	cacheH := &c17wPlain{name: "cache"}
	cons := &c17wConsumer{}
	handlers = append(handlers, cacheH, cons)
	byName["cache"], byName["resolver"] = cacheH, cons
	p := newPipeline(handlers, byName, []string{"accesslist", "ratelimit", "views", "cache", "resolver"}, RecursionWorkPolicy{})
	p.autoWire()

	q, ok1 := cons.q.(*pipelineQueryer)
	pq, ok2 := cons.pq.(*pipelineQueryer)
	vAssert("consumers-are-wired", ok1 && ok2 && q.sub != nil && pq.sub != nil)
	clean := true
	for _, h := range q.sub.handlers {
		if co, ok := h.(ClientOnly); ok && co.ClientOnly() {
			clean = false
		}
	}
	for _, h := range pq.sub.handlers {
		if co, ok := h.(ClientOnly); ok && co.ClientOnly() {
			clean = false
		}
	}
	vAssert("internal-pipeline-has-no-client-only-handler", clean)
	// every handler of an internal pipeline is one of the configured chain's
	known := true
	for _, h := range append(append([]Handler(nil), q.sub.handlers...), pq.sub.handlers...) {
		found := false
		for _, o := range handlers {
			found = found || o == h
		}
		known = known && found
	}
	vAssert("internal-pipeline-is-drawn-from-the-configured-chain", known)
}
