//go:build verif

//verif:pkg middleware/ratelimit
package ratelimit

import (
	"context"
	"net"

	"github.com/miekg/dns"
	"github.com/semihalev/sdns/middleware"
)

type c17rTransport struct {
	ip       net.IP
	internal bool
	writes   int
}

func (t *c17rTransport) LocalAddr() net.Addr         { return nil }
func (t *c17rTransport) RemoteAddr() net.Addr        { return &net.UDPAddr{IP: t.ip, Port: 5353} }
func (t *c17rTransport) WriteMsg(m *dns.Msg) error   { t.writes++; return nil }
func (t *c17rTransport) Write(b []byte) (int, error) { t.writes++; return len(b), nil }
func (t *c17rTransport) Close() error                { return nil }
func (t *c17rTransport) Internal() bool              { return t.internal }

var c17rNext int

//verif:stub (*middleware.Chain).Next = c17rNextSink
func c17rNextSink(ch *middleware.Chain, ctx context.Context) { c17rNext++ }

// VerifC17_InternalQueriesBypassRateLimit: a resolver-internal sub-query is
// never scored, limited or refused by the per-client ratelimit policy: whatever
// the (synthetic) source address, query type and EDNS shape, the handler
// writes nothing, touches none of its per-client state (there is none in this
// model: any access would be a nil dereference) and lets the query continue
// exactly once.
//
//verif:entry tier=quick,thorough
//verif:expect internal-sub-query-continues-exactly-once internal-sub-query-gets-no-reply-from-the-policy internal-sub-query-touches-no-per-client-state
//verif:bound one internal query (Internal() = true) with a symbolic IPv4 source address, every qtype, with or without an OPT carrying a cookie; handler with an active policy and no per-client state behind it
//verif:outside the policy's treatment of real clients (its own subject, not C17's); the replay pass
func VerifC17_InternalQueriesBypassRateLimit() {
	c17rNext = 0
	h := &RateLimit{rate: 1 + int(vU8("rate")), cookiesecret: "s"}
	t := &c17rTransport{ip: net.IP(vBytes("source", 4)), internal: true}
	req := new(dns.Msg)
	req.SetQuestion("a.example.", vU16("qtype"))
	if vBool("edns") {
		req.SetEdns0(1232, false)
		if vBool("cookie") {
			opt := req.IsEdns0()
			opt.Option = append(opt.Option, &dns.EDNS0_COOKIE{Code: dns.EDNS0COOKIE, Cookie: "0123456789abcdef"})
		}
	}
	ch := middleware.NewChain(nil)
	ch.Reset(t, req)
	panicked := vTry(func() { h.ServeDNS(context.Background(), ch) })
	vAssert("internal-sub-query-touches-no-per-client-state", !panicked)
	vAssert("internal-sub-query-gets-no-reply-from-the-policy", t.writes == 0)
	vAssert("internal-sub-query-continues-exactly-once", c17rNext == 1)
}
