//go:build verif

//verif:pkg internal/ipset
package ipset

import "net/netip"

// vAddr4 / vAddr6: an address of the given family with symbolic bytes.
func vAddr4(name string) netip.Addr {
	var b [4]byte
	copy(b[:], vBytes(name, 4))
	return netip.AddrFrom4(b)
}

func vAddr16(name string) netip.Addr {
	var b [16]byte
	copy(b[:], vBytes(name, 16))
	return netip.AddrFrom16(b)
}

// vPrefixAny: family is a shape (netip keeps it in a pointer), bits and all
// address bytes (host bits included) are symbolic.
func vPrefixAny(name string) netip.Prefix {
	if vChoice(name+".fam", 2) == 0 {
		bits := vInt(name + ".bits")
		vAssume(bits >= 0 && bits <= 32)
		return netip.PrefixFrom(vAddr4(name+".a4"), bits)
	}
	bits := vInt(name + ".bits")
	vAssume(bits >= 0 && bits <= 128)
	return netip.PrefixFrom(vAddr16(name+".a6"), bits)
}

func refContains(ps []netip.Prefix, a netip.Addr) bool {
	want := false
	for _, p := range ps {
		if p.Masked().Contains(a.Unmap()) {
			want = true
		}
	}
	return want
}

// VerifC17_ContainsExact: stabbing query == naive scan over the stdlib's own
// containment, for every list of n prefixes and every address.
//
//verif:entry tier=quick,thorough
//verif:bound n<=2 prefixes (quick) / n<=3 (thorough), both families mixed, any bits, any host bits; address v4, v6 or 4-in-6
func VerifC17_ContainsExact() {
	maxN := 2
	if vTier() > 0 {
		maxN = 3
	}
	n := vChoice("n", maxN+1)
	s := new(Set)
	ps := make([]netip.Prefix, 0, 3)
	for i := 0; i < n; i++ {
		p := vPrefixAny("p" + string(rune('0'+i)))
		ps = append(ps, p)
		s.add(p)
	}
	s.compile()
	var a netip.Addr
	switch vChoice("afam", 3) {
	case 0:
		a = vAddr4("a4")
	case 1:
		a = vAddr16("a6")
	default:
		// IPv4-mapped IPv6
		var b [16]byte
		b[10], b[11] = 0xff, 0xff
		copy(b[12:], vBytes("a46", 4))
		a = netip.AddrFrom16(b)
	}
	vAssert("contains-eq-naive", s.Contains(a) == refContains(ps, a))
}
