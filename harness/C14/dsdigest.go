//go:build verif

//verif:pkg middleware/resolver/dnssec
package dnssec

import (
	"bytes"
	"crypto"
	"hash"

	"github.com/miekg/dns"
)

// The hash itself is the standard library's and is not the subject: both
// dsDigestMatches and the library's DNSKEY.ToDS are run against a recording
// hash that keeps the exact octets written and answers with one symbolic
// digest. Agreement then means: same octets hashed, and acceptance exactly
// when the wanted digest equals the hash output.
type c14Rec struct {
	size int
	buf  []byte
}

var c14Pre [][]byte
var c14Digest []byte

func (r *c14Rec) Write(p []byte) (int, error) {
	r.buf = append(r.buf, p...)
	return len(p), nil
}
func (r *c14Rec) Sum(b []byte) []byte {
	c14Pre = append(c14Pre, r.buf)
	return append(b, c14Digest[:r.size]...)
}
func (r *c14Rec) Reset()         { r.buf = nil }
func (r *c14Rec) Size() int      { return r.size }
func (r *c14Rec) BlockSize() int { return 64 }

//verif:stub (crypto.Hash).New = c14HashNew
//verif:stub (crypto.Hash).Available = c14HashAvailable
//verif:stub encoding/hex.EncodeToString = c14NoHex
//verif:stub (*github.com/miekg/dns.DNSKEY).KeyTag = c14NoTag
func c14HashNew(h crypto.Hash) hash.Hash { return &c14Rec{size: h.Size()} }

// the DS record's hex text and key tag are not compared here (keytag.go owns the tag)
func c14NoHex(b []byte) string { return "" }

func c14NoTag(k *dns.DNSKEY) uint16 { return 0 }

func c14HashAvailable(h crypto.Hash) bool {
	return h == crypto.SHA1 || h == crypto.SHA256 || h == crypto.SHA384 || h == crypto.SHA512
}

// VerifC14_DSDigestAgreesWithLibrary
//
//verif:entry tier=quick,thorough
//verif:expect ds-never-panics ds-accepts-only-supported-digest-types ds-accept-implies-library-produces-a-ds ds-hashes-the-same-octets-as-the-library ds-accept-iff-digest-equal
//verif:bound one DNSKEY: owner = 1 fixed upper-case + 1 symbolic ASCII octet + ".eXample." (case-folding, dots and escapes in the window included), all 2^32 flags/protocol/algorithm values, key text = 0..4 valid base64 chars + window of 2 (quick) / 3 (thorough) bytes over all 256 values + 0..1 valid chars; digest type all 256 values; wanted digest of length 0, 19, 20, 32, 48 or 64 with symbolic octets; hash = recording stub with one symbolic 64-octet output
//verif:outside the SHA-1/SHA-2 compression functions (standard library; stubbed); keys longer than 9 base64 characters here (the 4092-octet ceiling is VerifC14_DSOversize)
func VerifC14_DSDigestAgreesWithLibrary() {
	c14Pre = nil
	c14Digest = vBytes("digest", 64)
	o := vString("owner", 1)
	vAssume(o[0] < 0x80)
	w := 2
	if vTier() > 0 {
		w = 3
	}
	pre := vChoice("prefixLen", 5)
	suf := vChoice("suffixLen", 2)
	key := &dns.DNSKEY{Flags: vU16("flags"), Protocol: vU8("protocol"), Algorithm: vU8("algorithm"), PublicKey: c14Key(pre, w, suf)}
	key.Hdr = dns.RR_Header{Name: "K" + o + ".eXample.", Rrtype: dns.TypeDNSKEY, Class: dns.ClassINET, Ttl: 3600}
	dt := vU8("digestType")

	var lib *dns.DS
	libPanicked := vTry(func() { lib = key.ToDS(dt) })
	nLib := len(c14Pre)
	want := vBytes("want", 64)[:[]int{0, 19, 20, 32, 48, 64}[vChoice("wantLen", 6)]]
	var ours bool
	oursPanicked := vTry(func() { ours = dsDigestMatches(key, dt, want) })
	vAssert("ds-never-panics", !oursPanicked)
	if libPanicked {
		return
	}
	size := 0
	switch dt {
	case 1:
		size = 20
	case 2:
		size = 32
	case 4:
		size = 48
	}
	if ours {
		vAssert("ds-accepts-only-supported-digest-types", size != 0)
		vAssert("ds-accept-implies-library-produces-a-ds", lib != nil && nLib == 1)
	}
	if lib != nil && nLib == 1 && len(c14Pre) == 2 {
		vAssert("ds-hashes-the-same-octets-as-the-library", bytes.Equal(c14Pre[0], c14Pre[1]))
	}
	if lib != nil && size != 0 {
		// the library's key wire form: 4 fixed octets, then the key
		ob := make([]byte, 255)
		off, _ := dns.PackDomainName(dns.CanonicalName(key.Hdr.Name), ob, 0, nil, false)
		keyLen := len(c14Pre[0]) - 4 - off
		equal := len(want) == size && bytes.Equal(want, c14Digest[:size])
		if keyLen > 0 {
			vAssert("ds-accept-iff-digest-equal", ours == equal)
		} else {
			// an empty key: the library hashes it, sdns refuses. Being as
			// permissive as the library here would not break the property,
			// so only the sound direction is required.
			vAssert("ds-accept-iff-digest-equal", !ours || equal)
		}
	}
}

// VerifC14_DSOversize: the encoded-length ceiling, with line breaks counted
// out, against the decoded length it stands for.
//
//verif:entry tier=quick,thorough
//verif:expect wrapped-key-within-the-ceiling-not-refused over-the-ceiling
//verif:bound key text of length limit-1..limit+2 around the 5456-character ceiling, with a 4-octet window of arbitrary octets (CR and LF included) straddling the ceiling; all other octets concrete
//verif:outside octets other than CR/LF are never inspected by oversizedKeyMaterial (read from the code); windows away from the ceiling
func VerifC14_DSOversize() {
	const limit = 5456 // base64.StdEncoding.EncodedLen(4092)
	n := limit - 1 + vChoice("len", 4)
	b := make([]byte, n)
	for i := range b {
		b[i] = 'A'
	}
	w := vBytes("window", 4)
	breaks := 0
	for i, c := range w {
		pos := limit - 2 + i
		if pos < n {
			b[pos] = c
			if c == '\r' || c == '\n' {
				breaks++
			}
		}
	}
	got := oversizedKeyMaterial(string(b))
	// The ceiling is a cheap pre-check: the decoded-length test behind it is
	// what keeps too-large keys out, so only one direction is the property -
	// a key the library can still turn into a DS (material within the
	// ceiling once line breaks are counted out) must not be refused here.
	if n-breaks <= limit {
		vAssert("wrapped-key-within-the-ceiling-not-refused", !got)
	} else {
		vReach("over-the-ceiling")
	}
}

// VerifC14_DSOwnerCeiling: the library cannot produce a DS for an owner name
// that does not fit 255 wire octets (its owner buffer is that size), so
// neither may the direct digest match one.
//
//verif:entry tier=quick,thorough
//verif:expect ds-long-owner-accept-implies-library-produces-a-ds ds-owner-ceiling-cases-run
//verif:bound owner names of 253, 254, 255, 256, 257 and 300 wire octets (labels of at most 63 octets, letters only); one short valid key; digest types 1, 2, 4; wanted digest = the recording hash's output (the accepting case)
//verif:outside names with escapes at the ceiling
func VerifC14_DSOwnerCeiling() {
	c14Pre = nil
	c14Digest = vBytes("digest", 64)
	wireLen := []int{253, 254, 255, 256, 257, 300}[vChoice("owner.wire.octets", 6)]
	// wire length = sum(len(label)+1) + 1 for the root
	remaining := wireLen - 1
	name := ""
	for remaining > 0 {
		l := 63
		if remaining-1 < l {
			l = remaining - 1
		}
		for i := 0; i < l; i++ {
			name += "a"
		}
		name += "."
		remaining -= l + 1
	}
	key := &dns.DNSKEY{Flags: 257, Protocol: 3, Algorithm: 13, PublicKey: c14Alphabet[:8]}
	key.Hdr = dns.RR_Header{Name: name, Rrtype: dns.TypeDNSKEY, Class: dns.ClassINET, Ttl: 3600}
	dt := []uint8{1, 2, 4}[vChoice("digestType", 3)]
	size := map[uint8]int{1: 20, 2: 32, 4: 48}[dt]
	var lib *dns.DS
	libPanicked := vTry(func() { lib = key.ToDS(dt) })
	ours := dsDigestMatches(key, dt, c14Digest[:size])
	vReach("ds-owner-ceiling-cases-run")
	if ours {
		vAssert("ds-long-owner-accept-implies-library-produces-a-ds", !libPanicked && lib != nil)
	}
}
