//go:build verif

//verif:pkg middleware/resolver/dnssec
package dnssec

import (
	"encoding/hex"
	"strings"

	"github.com/miekg/dns"
)

var c14vCalls int
var c14vKeys []*dns.DNSKEY
var c14vTypes []uint8
var c14vWants [][]byte
var c14vAnswers []bool

// The digest comparison is dsdigest.go's subject; here it is an oracle that
// answers arbitrarily and remembers what it was asked, so the question is
// only which (DS, key) pairs VerifyDS lets reach it and what it concludes.
//
//verif:stub middleware/resolver/dnssec.dsDigestMatches = c14vMatch
func c14vMatch(key *dns.DNSKEY, digestType uint8, want []byte) bool {
	a := vBool("digest.matches")
	c14vCalls++
	c14vKeys = append(c14vKeys, key)
	c14vTypes = append(c14vTypes, digestType)
	c14vWants = append(c14vWants, want)
	c14vAnswers = append(c14vAnswers, a)
	return a
}

const c14vPub = "AwEAAcMnWBKLuvG/LwnPVykcmpvnntwxfshHlHRhlY0F3oz8AMcuF8gw"

// VerifC14_VerifyDSGates: a delegation is declared authenticated only through
// a (DS, DNSKEY) pair that agrees on everything RFC 4034 5.2 binds.
//
//verif:entry tier=quick,thorough
//verif:also C01
//verif:expect ds-match-only-through-a-bound-pair ds-unsupported-only-means-no-supported-ds ds-digest-is-the-parents
//verif:bound 1 DS (symbolic key tag, algorithm, digest type; class IN or CH; digest text one of empty / odd hex / valid hex in either case) x 2 DNSKEYs (same concrete key text; symbolic flags, protocol, algorithm; class IN or CH; owner in either case or a different owner) filed under symbolic tags in the key map; the digest comparison answers arbitrarily
//verif:outside DS sets of more than one record (deduplication and ordering); more than two candidates per tag
func VerifC14_VerifyDSGates() {
	c14vCalls, c14vKeys, c14vTypes, c14vWants, c14vAnswers = 0, nil, nil, nil, nil
	names := []string{"example.", "EXAMPLE.", "example.org."}
	classes := []uint16{dns.ClassINET, dns.ClassCHAOS}
	mk := func(tag string) *dns.DNSKEY {
		k := &dns.DNSKEY{Flags: vU16(tag + ".flags"), Protocol: vU8(tag + ".protocol"), Algorithm: vU8(tag + ".algorithm"), PublicKey: c14vPub}
		k.Hdr = dns.RR_Header{Name: names[vChoice(tag+".name", 3)], Rrtype: dns.TypeDNSKEY, Class: classes[vChoice(tag+".class", 2)], Ttl: 300}
		return k
	}
	k1, k2 := mk("k1"), mk("k2")
	digests := []string{"", "abc", "00112233445566778899aabbccddeeff00112233", "00112233445566778899AABBCCDDEEFF00112233"}
	ds := &dns.DS{KeyTag: vU16("ds.tag"), Algorithm: vU8("ds.algorithm"), DigestType: vU8("ds.digestType"), Digest: digests[vChoice("ds.digest", 4)]}
	ds.Hdr = dns.RR_Header{Name: "example.", Rrtype: dns.TypeDS, Class: classes[vChoice("ds.class", 2)], Ttl: 300}

	keyMap := map[uint16][]*dns.DNSKEY{}
	t1 := ds.KeyTag
	if vBool("k1.filedElsewhere") {
		t1 = ds.KeyTag + 1
	}
	keyMap[t1] = append(keyMap[t1], k1)
	if vBool("k2.present") {
		t2 := ds.KeyTag
		if vBool("k2.filedElsewhere") {
			t2 = ds.KeyTag + 1
		}
		keyMap[t2] = append(keyMap[t2], k2)
	}

	unsupportedOnly, err := VerifyDS(keyMap, []dns.RR{ds})

	supportedDS := (ds.DigestType == 1 || ds.DigestType == 2 || ds.DigestType == 4) &&
		(ds.Algorithm == 5 || ds.Algorithm == 7 || ds.Algorithm == 8 || ds.Algorithm == 10 || ds.Algorithm == 13 || ds.Algorithm == 14 || ds.Algorithm == 15)
	if unsupportedOnly {
		vAssert("ds-unsupported-only-means-no-supported-ds", !supportedDS && err != nil)
	}
	if err == nil {
		ok := false
		for i, k := range c14vKeys {
			if !c14vAnswers[i] {
				continue
			}
			bound := supportedDS &&
				k.KeyTag() == ds.KeyTag &&
				k.Algorithm == ds.Algorithm &&
				k.Hdr.Class == ds.Hdr.Class &&
				strings.EqualFold(k.Hdr.Name, ds.Hdr.Name) &&
				k.Protocol == 3 && k.Flags&dns.ZONE != 0 &&
				c14vTypes[i] == ds.DigestType
			if bound {
				ok = true
			}
		}
		vAssert("ds-match-only-through-a-bound-pair", ok && !unsupportedOnly)
	}
	want, herr := hex.DecodeString(ds.Digest)
	for i := range c14vWants {
		vAssert("ds-digest-is-the-parents", herr == nil && len(want) > 0 && string(c14vWants[i]) == string(want))
	}
}
