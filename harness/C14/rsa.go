//go:build verif

//verif:pkg middleware/resolver/dnssec
package dnssec

import "math/big"

// Big-integer arithmetic is an oracle here (math/big is assembly-backed and
// out of the encoder's reach): SetBytes/Cmp/Exp/Bytes return arbitrary values
// and the harness checks the *structure* the verdict must have - the range
// check 0 <= s < n is consulted and honoured, the width is exact, and
// acceptance requires the full-width EMSA-PKCS1-v1_5 comparison to succeed.
var c14R struct {
	sigInt, modulus *big.Int
	cmpAsked        bool
	cmpResult       int
	expBase         *big.Int
	expMod          *big.Int
	em              []byte
	bits            int
}

//verif:stub (*math/big.Int).BitLen = c14BitLen
func c14BitLen(x *big.Int) int { return c14R.bits }

//verif:stub (*math/big.Int).SetBytes = c14SetBytes
func c14SetBytes(z *big.Int, buf []byte) *big.Int {
	c14R.sigInt = z
	return z
}

//verif:stub (*math/big.Int).Cmp = c14Cmp
func c14Cmp(x, y *big.Int) int {
	if x == c14R.sigInt && y == c14R.modulus {
		c14R.cmpAsked = true
		c14R.cmpResult = vChoice("sig.cmp.modulus", 3) - 1
		return c14R.cmpResult
	}
	return vChoice("other.cmp", 3) - 1
}

//verif:stub (*math/big.Int).Exp = c14Exp
func c14Exp(z, x, y, m *big.Int) *big.Int {
	c14R.expBase, c14R.expMod = x, m
	return z
}

//verif:stub (*math/big.Int).Bytes = c14Bytes
func c14Bytes(x *big.Int) []byte { return c14R.em }

// VerifC14_RSAWideExponentStructure
//
//verif:entry tier=quick,thorough
//verif:bound modulus width 19 or 20 octets, 1-octet digest prefix and 2-octet digest (symbolic), signature of width-1 / width / width+1 octets, decrypted block em of 18-21 symbolic octets; comparison of signature against modulus: below / equal / above
func VerifC14_RSAWideExponentStructure() {
	size := 19 + vChoice("size", 2)
	c14R.bits = size*8 - vChoice("topbits", 8)
	c14R.sigInt, c14R.cmpAsked, c14R.expBase = nil, false, nil
	n, e := new(big.Int), new(big.Int)
	c14R.modulus = n
	sig := vBytes("sig", size-1+vChoice("siglen", 3))
	prefix, hashed := vBytes("prefix", 1), vBytes("hashed", 2)
	c14R.em = vBytes("em", size-1+vChoice("emlen", 3))
	err := rsaVerifyPKCS1v15(n, e, prefix, hashed, sig)
	if err != nil {
		vReach("rejected")
		return
	}
	vAssert("signature-width-is-modulus-width", len(sig) == size)
	vAssert("range-check-consulted-and-below-modulus", c14R.cmpAsked && c14R.cmpResult < 0)
	vAssert("exponentiation-on-the-signature-mod-n", c14R.expBase == c14R.sigInt && c14R.expMod == n)
	// accepted => em, left-padded to size, is 00 01 FF..FF 00 prefix hashed
	em := c14R.em
	vAssert("decrypted-block-not-wider", len(em) <= size)
	at := func(i int) byte {
		j := i - (size - len(em))
		if j < 0 {
			return 0
		}
		return em[j]
	}
	ok := at(0) == 0 && at(1) == 1 && at(size-4) == 0 && at(size-3) == prefix[0] && at(size-2) == hashed[0] && at(size-1) == hashed[1]
	for i := 2; i < size-4; i++ {
		ok = ok && at(i) == 0xff
	}
	vAssert("accepted-only-for-exact-emsa-pkcs1-v15-encoding", ok)
}
