//go:build verif

//verif:pkg middleware/resolver/dnssec
package dnssec

import (
	"strings"

	"github.com/miekg/dns"
)

const c14Alphabet = "AwEAAcMnWBKLuvG/LwnPVykcmpvnntwxfshHlHRhlY0F3oz8AMcuF8gw"

// c14Key builds base64 text: concrete valid prefix of the given length, then a
// symbolic window (every byte value), then a concrete valid suffix.
func c14Key(prefixLen, window, suffixLen int) string {
	rep := strings.Repeat(c14Alphabet, 8)
	return rep[:prefixLen] + vString("win", window) + rep[:suffixLen]
}

func c14Compare(pk string) {
	key := &dns.DNSKEY{Flags: vU16("flags"), Protocol: vU8("protocol"), Algorithm: vU8("algorithm"), PublicKey: pk}
	var lib, ours uint16
	libPanicked := vTry(func() { lib = key.KeyTag() })
	oursPanicked := vTry(func() { ours = KeyTag(key) })
	vLog("lib", uint64(lib))
	vLog("ours", uint64(ours))
	vAssert("never-panics", !oursPanicked)
	if !libPanicked {
		vAssert("tag-equals-library", ours == lib)
	}
}

// VerifC14_KeyTagShort: short keys whose whole tail is arbitrary bytes
// (valid alphabet, '=', CR/LF, garbage), every flags/protocol/algorithm.
//
//verif:entry tier=quick,thorough
//verif:bound key text = 0..5 valid chars + window of 3 (quick) / 4 (thorough) bytes over all 256 values + 0..1 valid chars; all 2^32 flags/protocol/algorithm values (RSAMD5 included)
func VerifC14_KeyTagShort() {
	w := 3
	if vTier() > 0 {
		w = 4
	}
	pre := vChoice("prefixLen", 6)
	suf := vChoice("suffixLen", 2)
	c14Compare(c14Key(pre, w, suf))
}

// VerifC14_KeyTagChunkBoundary: the window straddles the 256-character chunk
// boundary of the streaming decoder.
//
//verif:entry tier=thorough
//verif:bound 253..255 valid chars + window of 3 bytes over all 256 values + 5 valid chars; all flags/protocol/algorithm
func VerifC14_KeyTagChunkBoundary() {
	pre := 253 + vChoice("prefixLen", 3)
	c14Compare(c14Key(pre, 3, 5))
}
