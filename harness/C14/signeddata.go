//go:build verif

//verif:pkg middleware/resolver/dnssec
package dnssec

import (
	"bytes"
	"crypto/ed25519"
	"net"

	"github.com/miekg/dns"
	"github.com/semihalev/sdns/internal/dnsutil"
)

// The signature arithmetic is the standard library's and is not the subject:
// Ed25519 signs the message itself, so replacing ed25519.Verify by a recorder
// shows the exact octets each implementation would have verified - the
// canonical signed data of RFC 4034 3.1.8.1 / 6 - together with the key and
// the signature octets, and lets one symbolic verdict stand for "the
// signature is good".
type c14sCall struct {
	pub, msg, sig []byte
}

var c14sCalls []c14sCall
var c14sVerdict bool

//verif:stub crypto/ed25519.Verify = c14sVerify
//verif:stub (*github.com/miekg/dns.DNSKEY).KeyTag = c14sLibTag
//verif:stub middleware/resolver/dnssec.KeyTag = c14sOurTag
func c14sVerify(pub ed25519.PublicKey, msg, sig []byte) bool {
	c14sCalls = append(c14sCalls, c14sCall{append([]byte(nil), pub...), append([]byte(nil), msg...), append([]byte(nil), sig...)})
	return c14sVerdict
}

// the key tag has its own harnesses (keytag.go); here both sides see the same one
func c14sLibTag(k *dns.DNSKEY) uint16 { return 7 }
func c14sOurTag(k *dns.DNSKEY) uint16 { return 7 }

func c14sCase(name string, at int, upper bool) string {
	if !upper {
		return name
	}
	b := []byte(name)
	if b[at] >= 'a' && b[at] <= 'z' {
		b[at] -= 32
	}
	return string(b)
}

// VerifC14_SignedDataAgreesWithLibrary: verifySignature (the in-house RRSIG
// check) against the library's RRSIG.Verify on the same key, signature and
// RRset: whatever the in-house check accepts the library accepts, the octets
// handed to the signature algorithm are identical (canonical owner incl.
// wildcard restoration, original TTL, lower-cased embedded names, records
// ordered by RDATA, duplicates collapsed), and the in-house check refuses a
// library-accepted signature only where it is deliberately stricter (signer
// not a label-wise ancestor of the owner).
//
//verif:entry tier=quick,thorough
//verif:expect signature-accepted-only-if-the-library-accepts reaches-crypto-only-if-the-library-does same-octets-verified-as-the-library refused-only-where-deliberately-stricter both-reach-the-signature-check
//verif:bound algorithm 15 (Ed25519) with a recording verifier and one symbolic verdict; RRset = two A records (one symbolic address octet each: order, duplicates), two NS records of different RDATA length with symbolic letter case, or one MX with symbolic preference; owner of 3 labels with symbolic letter case per record and on the RRSIG; RRSIG Labels all 256 values (wildcard restoration), original TTL and validity times symbolic, type covered right or wrong, key tag right or wrong; signer from 5 names (ancestor, other case, a string-suffix that is no ancestor, the owner's parent, root); key owner from 3 names; classes IN/CH on record, signature and key; key flags and protocol all values, key algorithm 15 or 13
//verif:outside RSA and ECDSA dispatch (hashing and big-integer arithmetic; VerifC14_RSAWideExponentStructure covers the RSA key-shape gate); signature/key base64 decoding (concrete well-formed 64- and 32-octet values); RRsets of more than two records
func VerifC14_SignedDataAgreesWithLibrary() {
	c14sCalls = nil
	c14sVerdict = vBool("signature.good")
	class := func(tag string) uint16 {
		if vBool(tag) {
			return dns.ClassCHAOS
		}
		return dns.ClassINET
	}
	rrClass := class("rr.chaos")
	const owner = "x.w.example."
	o1 := c14sCase(owner, 0, vBool("owner1.upper"))
	o2 := c14sCase(owner, 4, vBool("owner2.upper"))
	var rrset []dns.RR
	var rrtype uint16
	switch vChoice("rrset.kind", 3) {
	case 0:
		rrtype = dns.TypeA
		rrset = []dns.RR{
			&dns.A{Hdr: dns.RR_Header{Name: o1, Rrtype: rrtype, Class: rrClass, Ttl: 10}, A: net.IP{192, 0, 2, vU8("a1")}},
			&dns.A{Hdr: dns.RR_Header{Name: o2, Rrtype: rrtype, Class: rrClass, Ttl: 20}, A: net.IP{192, 0, 2, vU8("a2")}},
		}
	case 1:
		// RDATA order puts a.b.example. (01 'a' ...) first, RDLENGTH order bb.example.
		rrtype = dns.TypeNS
		rrset = []dns.RR{
			&dns.NS{Hdr: dns.RR_Header{Name: o1, Rrtype: rrtype, Class: rrClass, Ttl: 10}, Ns: c14sCase("bb.example.", 0, vBool("ns1.upper"))},
			&dns.NS{Hdr: dns.RR_Header{Name: o2, Rrtype: rrtype, Class: rrClass, Ttl: 20}, Ns: c14sCase("a.b.example.", 2, vBool("ns2.upper"))},
		}
	default:
		rrtype = dns.TypeMX
		rrset = []dns.RR{
			&dns.MX{Hdr: dns.RR_Header{Name: o1, Rrtype: rrtype, Class: rrClass, Ttl: 10}, Preference: vU16("mx.pref"), Mx: c14sCase("mail.example.", 0, vBool("mx.upper"))},
		}
	}
	covered := rrtype
	if vBool("covers.other.type") {
		covered = dns.TypeAAAA
	}
	tag := uint16(7)
	if vBool("other.tag") {
		tag = 8
	}
	signer := []string{"example.", "EXAMPLE.", "ample.", "w.example.", "."}[vChoice("signer", 5)]
	sigOwner := c14sCase(owner, 2, vBool("sigowner.upper"))
	if vBool("sigowner.other") {
		sigOwner = "y.w.example."
	}
	sig := &dns.RRSIG{
		Hdr:         dns.RR_Header{Name: sigOwner, Rrtype: dns.TypeRRSIG, Class: class("sig.chaos"), Ttl: 30},
		TypeCovered: covered, Algorithm: dns.ED25519, Labels: vU8("labels"), OrigTtl: vU32("origttl"),
		Expiration: vU32("expiration"), Inception: vU32("inception"), KeyTag: tag, SignerName: signer,
		Signature: "AAAAAAAAAAAAAAAAAAAAAAAAAAAAAAAAAAAAAAAAAAAAAAAAAAAAAAAAAAAAAAAAAAAAAAAAAAAAAAAAAAAAAA==",
	}
	kalg := uint8(dns.ED25519)
	if vBool("key.other.alg") {
		kalg = dns.ECDSAP256SHA256
	}
	key := &dns.DNSKEY{
		Hdr:   dns.RR_Header{Name: []string{"example.", "Example.", "other."}[vChoice("key.owner", 3)], Rrtype: dns.TypeDNSKEY, Class: class("key.chaos"), Ttl: 40},
		Flags: vU16("key.flags"), Protocol: vU8("key.protocol"), Algorithm: kalg,
		PublicKey: "AQIDBAUGBwgJCgsMDQ4PEBESExQVFhcYGRobHB0eHyA=",
	}

	errLib := sig.Verify(key, rrset)
	nLib := len(c14sCalls)
	errOurs := verifySignature(key, sig, rrset)
	nOurs := len(c14sCalls) - nLib

	vAssert("signature-accepted-only-if-the-library-accepts", errOurs != nil || errLib == nil)
	vAssert("reaches-crypto-only-if-the-library-does", nOurs == 0 || nLib == 1)
	if nOurs == 1 && nLib == 1 {
		vReach("both-reach-the-signature-check")
		a, b := c14sCalls[0], c14sCalls[1]
		vAssert("same-octets-verified-as-the-library", bytes.Equal(a.msg, b.msg) && bytes.Equal(a.sig, b.sig) && bytes.Equal(a.pub, b.pub))
	}
	if errLib == nil && dnsutil.NameInZone(dns.CanonicalName(o1), dns.CanonicalName(signer)) {
		vAssert("refused-only-where-deliberately-stricter", errOurs == nil)
	}
}
