//go:build verif

//verif:pkg middleware/cache
package cache

import (
	"context"
	"errors"
	"fmt"
	"net"
	"net/netip"
	"time"

	"github.com/miekg/dns"
	"github.com/semihalev/sdns/middleware"
)

// c13aCtx is a request context whose cancellation state and deadline are the
// harness's to choose; every other context layer (best-effort mark, work
// ledger, attempt guard) is stacked on top by the real constructors.
type c13aCtx struct {
	err error
	dl  time.Time
	has bool
}

func (c *c13aCtx) Deadline() (time.Time, bool) { return c.dl, c.has }
func (c *c13aCtx) Done() <-chan struct{}       { return nil }
func (c *c13aCtx) Err() error                  { return c.err }
func (c *c13aCtx) Value(key any) any           { return nil }

type c13aSink struct{ wrote *dns.Msg }

func (s *c13aSink) LocalAddr() net.Addr          { return nil }
func (s *c13aSink) RemoteAddr() net.Addr         { return nil }
func (s *c13aSink) WriteMsg(m *dns.Msg) error   { s.wrote = m; return nil }
func (s *c13aSink) Write(b []byte) (int, error) { return len(b), nil }
func (s *c13aSink) Close() error                { return nil }
func (s *c13aSink) Msg() *dns.Msg               { return s.wrote }
func (s *c13aSink) Rcode() int                  { return 0 }
func (s *c13aSink) Written() bool               { return s.wrote != nil }
func (s *c13aSink) Proto() string               { return "udp" }
func (s *c13aSink) RemoteIP() net.IP            { return nil }
func (s *c13aSink) Internal() bool              { return false }

var c13aRecorded int

// The failure table itself is backoff.go's and partition.go's subject. Here
// the write-back is a sink: the question is only whether the cache's
// response writer lets this failure through to shared state at all.
//
//verif:stub (*middleware/cache.Store).RecordFailure = c13aRecordFailure
func c13aRecordFailure(s *Store, req *dns.Msg, scope netip.Prefix, provenance FailureProvenance, witness []denialWitnessPair) {
	c13aRecorded++
}

func c13aLocalCause(i int) error {
	switch i {
	case 0:
		return context.Canceled
	case 1:
		return context.DeadlineExceeded
	case 2:
		return middleware.ErrRecursionWorkLimit
	case 3:
		return middleware.ErrResolutionAttemptLimit
	case 4:
		return middleware.ErrFailureProbeLimit
	case 5:
		return middleware.ErrMaxRecursion
	case 6:
		return &middleware.RecursionWorkLimitError{Kind: middleware.RecursionWorkOutboundQuery, Limit: 3}
	case 7:
		return fmt.Errorf("exchange with 192.0.2.1:53: %w", context.DeadlineExceeded)
	default:
		return fmt.Errorf("lookup ns1.example.: %w", middleware.ErrResolutionAttemptLimit)
	}
}

// VerifC13_WriterAdmitsOnlySharedFailures drives the real cache
// ResponseWriter.WriteMsg with a SERVFAIL from downstream under every
// combination of request-local causes.
//
//verif:entry tier=quick,thorough
//verif:expect request-local-failure-never-becomes-shared-state shared-failure-is-recorded-once client-still-gets-the-failure
//verif:bound one SERVFAIL write-back; context = {cancelled, deadline (symbolic instant), best-effort mark, work ledger in shadow or enforce mode with or without a latched rejection, attempt guard with this exact response or a different one marked with any of 9 request-local causes (3 of them wrapped)}; the failure table is a sink
//verif:outside the failure table behind Store.RecordFailure (backoff.go, partition.go); the CNAME-chase leg after a non-failure first classification
func VerifC13_WriterAdmitsOnlySharedFailures() {
	c13aRecorded = 0
	base := new(c13aCtx)
	cancelled := vBool("ctx.cancelled")
	if cancelled {
		if vBool("ctx.cancel.deadline") {
			base.err = context.DeadlineExceeded
		} else {
			base.err = context.Canceled
		}
	}
	t0 := vNow()
	expired := false
	if vBool("ctx.hasDeadline") {
		base.has = true
		base.dl = vTime("ctx.deadline")
		expired = !t0.Before(base.dl) // already past when the write-back starts
	}
	var ctx context.Context = base

	bestEffort := vBool("ctx.bestEffort")
	if bestEffort {
		ctx = middleware.WithBestEffortRecursionWork(ctx)
	}

	workLimited := false
	if vBool("ledger.present") {
		enforce := vBool("ledger.enforce")
		mode := middleware.RecursionWorkShadow
		if enforce {
			mode = middleware.RecursionWorkEnforce
		}
		l := middleware.NewRecursionWorkLedger(middleware.RecursionWorkPolicy{Mode: mode, MaxOutboundQueries: 1, MaxInternalQueries: 1, MaxSignatureChecks: 1, MaxNSEC3Hashes: 1, MaxDNSKEYCandidates: 1, MaxRRsetSignatureChecks: 1, MaxDSDigests: 1, MaxConcurrentCrypto: 1})
		_ = l.Debit(middleware.RecursionWorkOutboundQuery)
		if vBool("ledger.overrun") {
			if vBool("ledger.overrun.optional") {
				_ = l.DebitBestEffort(middleware.RecursionWorkOutboundQuery)
			} else {
				err := l.Debit(middleware.RecursionWorkOutboundQuery)
				workLimited = enforce
				if enforce {
					vAssume(err != nil)
				}
			}
		}
		ctx = middleware.WithRecursionWork(ctx, l)
	}

	res := new(dns.Msg)
	res.Response = true
	res.Rcode = dns.RcodeServerFailure
	res.CheckingDisabled = vBool("res.cd")
	res.Question = []dns.Question{{Name: "www.example.", Qtype: dns.TypeA, Qclass: dns.ClassINET}}
	other := res.Copy()

	marked := false
	if vBool("guard.present") {
		g := middleware.NewResolutionAttemptGuard()
		ctx = middleware.WithResolutionAttemptGuard(ctx, g)
		switch vChoice("guard.mark", 3) {
		case 0:
		case 1:
			middleware.MarkRequestLocalFailureResponse(ctx, res, c13aLocalCause(vChoice("cause", 9)))
			marked = true
		default:
			// a losing branch's private SERVFAIL: a different message
			middleware.MarkRequestLocalFailureResponse(ctx, other, c13aLocalCause(vChoice("cause", 9)))
		}
	}

	sink := new(c13aSink)
	req := new(dns.Msg)
	req.Question = res.Question
	w := &ResponseWriter{ResponseWriter: sink, cache: &Cache{store: new(Store)}, ctx: ctx, req: req}
	err := w.WriteMsg(res)
	vAssume(err == nil)

	local := cancelled || expired || bestEffort || workLimited || marked
	if local {
		vAssert("request-local-failure-never-becomes-shared-state", c13aRecorded == 0)
	}
	// the converse keeps the check honest: with no local cause at all and no
	// deadline in play the failure is shared state and is recorded, once
	if !cancelled && !base.has && !bestEffort && !workLimited && !marked {
		vAssert("shared-failure-is-recorded-once", c13aRecorded == 1)
	}
	vAssert("client-still-gets-the-failure", sink.wrote != nil && sink.wrote.Rcode == dns.RcodeServerFailure)
	_ = errors.Is
}
