//go:build verif

//verif:pkg middleware/cache
package cache

import (
	"net/netip"
	"time"

	"github.com/miekg/dns"
	internalcache "github.com/semihalev/sdns/internal/cache"
)

// same one-cell table model as backoff.go, always colliding
//
//verif:stub (*internal/cache.Cache).Get = c13pGet
//verif:stub (*internal/cache.Cache).Len = c13pLen
//verif:stub (*internal/cache.Cache).CompareAndDelete = c13pCAD
//verif:stub github.com/miekg/dns.escapeByte = c13pEscape
var c13pHeld *failureEntry

func c13pGet(c *internalcache.Cache, key uint64) (any, bool) {
	if c13pHeld == nil {
		return nil, false
	}
	return c13pHeld, true
}

func c13pLen(c *internalcache.Cache) int { return 1 }

var c13pDeleted int

func c13pCAD(c *internalcache.Cache, key uint64, old any) bool {
	if c13pHeld != nil && old == any(c13pHeld) {
		c13pHeld = nil
		c13pDeleted++
		return true
	}
	return false
}

func c13pEscape(b byte) string {
	return string([]byte{'\\', '0' + b/100, '0' + b/10%10, '0' + b%10})
}

// c13pName: labels with symbolic ASCII octets ('.' inside a label included)
// and the library's presentation text for them.
func c13pName(tag string, shape []int) ([][]byte, string) {
	var labels [][]byte
	var w []byte
	for _, l := range shape {
		lab := vBytes(tag, l)
		for _, o := range lab {
			vAssume(o < 0x80)
		}
		labels = append(labels, lab)
		w = append(w, byte(l))
		w = append(w, lab...)
	}
	w = append(w, 0)
	text, _, err := dns.UnpackDomainName(w, 0)
	vAssume(err == nil)
	return labels, text
}

func c13pLower(c byte) byte {
	if c >= 'A' && c <= 'Z' {
		return c + 32
	}
	return c
}

func c13pLabelEq(a, b []byte) bool {
	if len(a) != len(b) {
		return false
	}
	eq := true
	for i := range a {
		eq = eq && c13pLower(a[i]) == c13pLower(b[i])
	}
	return eq
}

func c13pSuffix(zone, name [][]byte) bool {
	if len(zone) > len(name) {
		return false
	}
	ok := true
	d := len(name) - len(zone)
	for i := range zone {
		ok = ok && c13pLabelEq(zone[i], name[d+i])
	}
	return ok
}

var c13pShapes = [][]int{{2, 1}, {1, 1}, {1}, {2}, {1, 1, 1}, {3, 1}}
var c13pStored = [][]int{{1}, {1, 1}, {2, 1}, {2}}

// VerifC13_LookupPartition: a stored failure, reached through a colliding
// key, suppresses a question only if it is that very question (name, type,
// class, CD, audience) or - for a zone failure - if the zone is a label-wise
// ancestor-or-self of the name in the same class, and only while active.
//
//verif:entry tier=quick,thorough
//verif:bound stored entry: question failure or zone failure with name shapes [1],[1,1] (quick) / also [2,1] (thorough); probe name shape [2,1] (quick) / also [1,1] (thorough); every ASCII octet incl. '.' and '\\' inside labels (escaped spelling via the library); all qtype/qclass/CD; arbitrary clock and expiry; the table always returns the stored entry
func VerifC13_LookupPartition() {
	c := &FailureCache{entries: new(internalcache.Cache), initialTTL: 5e9, maxTTL: 3e11}
	clock := vNow()
	c.now = func() time.Time { return clock }
	nq, ns := 1, 2
	if vTier() > 0 {
		// all 6 x 4 shapes exceed the thorough budget; one more of each
		nq, ns = 2, 3
	}
	ql, qname := c13pName("q", c13pShapes[vChoice("q.shape", nq)])
	key := FailureQuestionKey{Question: dns.Question{Name: qname, Qtype: vU16("q.qtype"), Qclass: vU16("q.qclass")}, CD: vBool("q.cd")}
	e := &failureEntry{streak: 1, retryAfter: vTime("retryAfter")}
	var el [][]byte
	isZone := vChoice("stored.kind", 2) == 1
	if isZone {
		var zname string
		el, zname = c13pName("z", c13pStored[vChoice("z.shape", ns)])
		e.kind = FailureKindZone
		e.zone = normalizeFailureZoneKey(FailureZoneKey{Zone: zname, Qclass: vU16("z.qclass")})
	} else {
		var sname string
		el, sname = c13pName("s", c13pShapes[vChoice("s.shape", ns)])
		e.kind = FailureKindQuestion
		e.question = normalizeFailureQuestionKey(FailureQuestionKey{Question: dns.Question{Name: sname, Qtype: vU16("s.qtype"), Qclass: vU16("s.qclass")}, CD: vBool("s.cd")})
	}
	c13pHeld = e
	hit, ok := c.Lookup(key)
	if !ok {
		vReach("miss")
		return
	}
	vAssert("only-active-entries-hit", clock.Before(e.retryAfter))
	if isZone {
		vAssert("zone-hit-is-label-wise-ancestor", hit.Kind == FailureKindZone && c13pSuffix(el, ql))
		vAssert("zone-hit-same-class", e.zone.Qclass == key.Question.Qclass)
	} else {
		vAssert("question-hit-is-the-same-question", hit.Kind == FailureKindQuestion && len(el) == len(ql) && c13pSuffix(el, ql))
		vAssert("question-hit-same-type-class-cd", e.question.Question.Qtype == key.Question.Qtype && e.question.Question.Qclass == key.Question.Qclass && e.question.CD == key.CD)
	}
}

// VerifC13_LookupWirePartition: the byte path's failure lookup obeys the same
// partition as the decoded one - through a colliding key it hits a question
// failure only for the same name (ASCII case aside), type, class and CD and
// never an audience-scoped one, a zone failure only for a label-wise
// ancestor-or-self in the same class, and never an expired entry.
//
//verif:entry tier=quick,thorough
//verif:also C03 C05
//verif:expect wire-only-active-entries-hit wire-zone-hit-is-label-wise-ancestor wire-question-hit-is-the-same-question wire-scoped-failure-never-served-on-the-byte-path
//verif:bound as VerifC13_LookupPartition, with the probe given as an uncompressed wire name and the stored question failure optionally scoped to 192.0.2.0/24
func VerifC13_LookupWirePartition() {
	c := &FailureCache{entries: new(internalcache.Cache), initialTTL: 5e9, maxTTL: 3e11}
	clock := vNow()
	c.now = func() time.Time { return clock }
	nq, ns := 1, 2
	if vTier() > 0 {
		// all 6 x 4 shapes exceed the thorough budget; one more of each
		nq, ns = 2, 3
	}
	ql, _ := c13pName("q", c13pShapes[vChoice("q.shape", nq)])
	var wire []byte
	for _, l := range ql {
		wire = append(wire, byte(len(l)))
		wire = append(wire, l...)
	}
	wire = append(wire, 0)
	qtype, qclass, cd := vU16("q.qtype"), vU16("q.qclass"), vBool("q.cd")
	e := &failureEntry{streak: 1, retryAfter: vTime("retryAfter")}
	var el [][]byte
	isZone := vChoice("stored.kind", 2) == 1
	scoped := false
	if isZone {
		var zname string
		el, zname = c13pName("z", c13pStored[vChoice("z.shape", ns)])
		e.kind = FailureKindZone
		e.zone = normalizeFailureZoneKey(FailureZoneKey{Zone: zname, Qclass: vU16("z.qclass")})
	} else {
		var sname string
		el, sname = c13pName("s", c13pShapes[vChoice("s.shape", ns)])
		e.kind = FailureKindQuestion
		k := FailureQuestionKey{Question: dns.Question{Name: sname, Qtype: vU16("s.qtype"), Qclass: vU16("s.qclass")}, CD: vBool("s.cd")}
		if vBool("s.scoped") {
			k.Scope = netip.MustParsePrefix("192.0.2.0/24")
			scoped = true
		}
		e.question = normalizeFailureQuestionKey(k)
	}
	c13pHeld = e
	hit, ok := c.LookupWire(wire, qtype, qclass, cd)
	if !ok {
		vReach("wire-miss")
		return
	}
	vAssert("wire-only-active-entries-hit", clock.Before(e.retryAfter))
	if isZone {
		vAssert("wire-zone-hit-is-label-wise-ancestor", hit.Kind == FailureKindZone && c13pSuffix(el, ql) && e.zone.Qclass == qclass)
	} else {
		vAssert("wire-scoped-failure-never-served-on-the-byte-path", !scoped)
		vAssert("wire-question-hit-is-the-same-question", hit.Kind == FailureKindQuestion && len(el) == len(ql) && c13pSuffix(el, ql) &&
			e.question.Question.Qtype == qtype && e.question.Question.Qclass == qclass && e.question.CD == cd)
	}
}

// VerifC13_ResetOnlyWhatRecovered: a useful answer clears the failure history
// it disproves - that very question (same name, type, class, CD, audience) and
// the zone failures of its ancestors in the same class - and, through a
// colliding key, nothing else.
//
//verif:entry tier=thorough
//verif:expect reset-clears-only-the-recovered-question reset-clears-only-ancestor-zones-of-the-same-class recovered-question-history-is-cleared
//verif:bound as VerifC13_LookupPartition: one stored entry (question or zone failure) that every key collides with; the recovering question of shape [2,1] or [1,1] (thorough tier only: it would take the quick tier to three quarters of its budget); all qtype/qclass/CD
//verif:outside more than one stored entry per key (the table is a single always-colliding cell)
func VerifC13_ResetOnlyWhatRecovered() {
	c := &FailureCache{entries: new(internalcache.Cache), initialTTL: 5e9, maxTTL: 3e11}
	clock := vNow()
	c.now = func() time.Time { return clock }
	nq, ns := 1, 2
	if vTier() > 0 {
		// all 6 x 4 shapes exceed the thorough budget; one more of each
		nq, ns = 2, 3
	}
	ql, qname := c13pName("q", c13pShapes[vChoice("q.shape", nq)])
	key := FailureQuestionKey{Question: dns.Question{Name: qname, Qtype: vU16("q.qtype"), Qclass: vU16("q.qclass")}, CD: vBool("q.cd")}
	e := &failureEntry{streak: 3, retryAfter: vTime("retryAfter")}
	var el [][]byte
	isZone := vChoice("stored.kind", 2) == 1
	if isZone {
		var zname string
		el, zname = c13pName("z", c13pStored[vChoice("z.shape", ns)])
		e.kind = FailureKindZone
		e.zone = normalizeFailureZoneKey(FailureZoneKey{Zone: zname, Qclass: vU16("z.qclass")})
	} else {
		var sname string
		el, sname = c13pName("s", c13pShapes[vChoice("s.shape", ns)])
		e.kind = FailureKindQuestion
		e.question = normalizeFailureQuestionKey(FailureQuestionKey{Question: dns.Question{Name: sname, Qtype: vU16("s.qtype"), Qclass: vU16("s.qclass")}, CD: vBool("s.cd")})
	}
	c13pHeld, c13pDeleted = e, 0
	removed := c.ResetMatching(key)
	if c13pDeleted == 0 {
		if !isZone && len(el) == len(ql) && c13pSuffix(el, ql) && e.question.Question.Qtype == key.Question.Qtype && e.question.Question.Qclass == key.Question.Qclass && e.question.CD == key.CD {
			vAssert("recovered-question-history-is-cleared", false)
		}
		return
	}
	vAssume(removed >= 1)
	if isZone {
		vAssert("reset-clears-only-ancestor-zones-of-the-same-class", c13pSuffix(el, ql) && e.zone.Qclass == key.Question.Qclass)
	} else {
		vAssert("reset-clears-only-the-recovered-question", len(el) == len(ql) && c13pSuffix(el, ql) && e.question.Question.Qtype == key.Question.Qtype && e.question.Question.Qclass == key.Question.Qclass && e.question.CD == key.CD)
		vReach("recovered-question-history-is-cleared")
	}
}
