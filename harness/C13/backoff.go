//go:build verif

//verif:pkg middleware/cache
package cache

import (
	"time"

	"github.com/miekg/dns"
	internalcache "github.com/semihalev/sdns/internal/cache"
)

// The bounded table behind the failure cache is C16's subject; here it is a
// one-cell map model. Get answers *any* hash with the stored cell when
// c13Collide is set (forced 64-bit key collision), otherwise only its own.
var c13Store struct {
	has     bool
	key     uint64
	val     any
	collide bool
	adds    int
	swaps   int
	dels    int
}

//verif:stub (*internal/cache.Cache).Get = c13Get
//verif:stub (*internal/cache.Cache).Add = c13Add
//verif:stub (*internal/cache.Cache).CompareAndSwap = c13CAS
//verif:stub (*internal/cache.Cache).CompareAndDelete = c13CAD
//verif:stub (*internal/cache.Cache).Len = c13Len
func c13Get(c *internalcache.Cache, key uint64) (any, bool) {
	if c13Store.has && (c13Store.collide || c13Store.key == key) {
		return c13Store.val, true
	}
	return nil, false
}

func c13Add(c *internalcache.Cache, key uint64, value any) {
	c13Store.has, c13Store.key, c13Store.val = true, key, value
	c13Store.adds++
}

func c13CAS(c *internalcache.Cache, key uint64, old, value any) bool {
	if c13Store.has && (c13Store.collide || c13Store.key == key) && c13Store.val == old {
		c13Store.val = value
		c13Store.swaps++
		return true
	}
	return false
}

func c13CAD(c *internalcache.Cache, key uint64, old any) bool {
	if c13Store.has && (c13Store.collide || c13Store.key == key) && c13Store.val == old {
		c13Store.has, c13Store.val = false, nil
		c13Store.dels++
		return true
	}
	return false
}

func c13Len(c *internalcache.Cache) int {
	if c13Store.has {
		return 1
	}
	return 0
}

func c13Reset() {
	c13Store.has, c13Store.key, c13Store.val, c13Store.collide = false, 0, nil, false
	c13Store.adds, c13Store.swaps, c13Store.dels = 0, 0, 0
}

var c13Clock time.Time

func c13Now() time.Time { return c13Clock }

// c13Cache: a failure cache with any admissible (initial, max) pair.
func c13Cache() *FailureCache {
	c13Reset()
	ini, max := time.Duration(vI64("initialTTL")), time.Duration(vI64("maxTTL"))
	vAssume(ini >= time.Second && ini <= max && max <= DefaultFailureMaxTTL)
	c13Clock = vNow()
	return &FailureCache{entries: new(internalcache.Cache), initialTTL: ini, maxTTL: max, now: c13Now}
}

// VerifC13_ConfigBounds: NewFailureCache admits exactly the documented range.
//
//verif:entry tier=quick,thorough
//verif:stub internal/cache.New = c13New
//verif:bound all 2^64 x 2^64 (InitialTTL, MaxTTL) pairs, any size
func VerifC13_ConfigBounds() {
	cfg := FailureCacheConfig{Size: vInt("size"), InitialTTL: time.Duration(vI64("initialTTL")), MaxTTL: time.Duration(vI64("maxTTL")), Now: c13Now}
	c, err := NewFailureCache(cfg)
	if err == nil {
		vAssert("admitted-range", c.initialTTL >= time.Second && c.initialTTL <= c.maxTTL && c.maxTTL <= 5*time.Minute && cfg.Size > 0)
		vAssert("defaults", (cfg.InitialTTL != 0 || c.initialTTL == 5*time.Second) && (cfg.MaxTTL != 0 || c.maxTTL == 5*time.Minute))
	} else {
		vAssert("refused-only-out-of-range", cfg.Size <= 0 || (cfg.InitialTTL != 0 && cfg.InitialTTL < time.Second) ||
			c13Eff(cfg.MaxTTL, DefaultFailureMaxTTL) < c13Eff(cfg.InitialTTL, DefaultFailureInitialTTL) || cfg.MaxTTL > 5*time.Minute)
	}
}

func c13Eff(d, def time.Duration) time.Duration {
	if d == 0 {
		return def
	}
	return d
}

func c13New(size int) *internalcache.Cache { return new(internalcache.Cache) }

// VerifC13_BackoffEnvelope: min <= backoff <= max, starts at min, at most
// doubles per consecutive failure, monotone - for every valid configuration
// and every streak value.
//
//verif:entry tier=quick,thorough
//verif:bound all valid (initial>=1s, initial<=max<=5min) configurations at nanosecond resolution, all 2^32 streaks; the doubling loop is unrolled by execution until its condition is infeasible (<= 10 iterations)
func VerifC13_BackoffEnvelope() {
	c := c13Cache()
	s := vU32("streak")
	b := c.backoff(s)
	vAssert("within-min-max", b >= c.initialTTL && b <= c.maxTTL)
	vAssert("first-is-min", s > 1 || b == c.initialTTL)
	if s < ^uint32(0) {
		b1 := c.backoff(s + 1)
		vAssert("at-most-doubles", b1 <= 2*b)
		vAssert("monotone", b1 >= b)
	}
}

func c13Entry(name string) *failureEntry {
	e := &failureEntry{kind: FailureKindQuestion, provenance: "p0", streak: vU32("curStreak"), retryAfter: vTime("curRetryAfter")}
	e.question = FailureQuestionKey{Question: dns.Question{Name: name, Qtype: vU16("qtype"), Qclass: vU16("qclass")}, CD: vBool("cd")}
	return e
}

// VerifC13_RecordStep: one record() from an arbitrary stored state.
//
//verif:entry tier=quick,thorough
//verif:bound arbitrary stored entry (any streak, any retryAfter), arbitrary clock, arbitrary valid configuration; absent / same-key / different-key (colliding) current entry
func VerifC13_RecordStep() {
	c := c13Cache()
	now := c13Clock
	hash := vU64("hash")
	shape := vChoice("stored", 3) // 0 absent, 1 same key, 2 different key under the same hash
	var cur *failureEntry
	if shape > 0 {
		cur = c13Entry("a.example.")
		vAssume(cur.streak >= 1)
		c13Store.has, c13Store.key, c13Store.val = true, hash, cur
	}
	cand := &failureEntry{kind: FailureKindQuestion, provenance: "p1"}
	if shape == 1 {
		cand.question = cur.question
	} else if shape == 2 {
		cand.question = cur.question
		cand.question.Question.Name = "b.example."
	} else {
		cand.question = FailureQuestionKey{Question: dns.Question{Name: "a.example.", Qtype: 1, Qclass: 1}}
	}
	hit := c.record(hash, cand)
	stored, _ := c13Store.val.(*failureEntry)
	vAssert("something-stored", c13Store.has && stored != nil)
	if shape == 1 && now.Before(cur.retryAfter) {
		vAssert("active-is-idempotent", stored == cur && hit.Streak == cur.streak && hit.RetryAfter.Equal(cur.retryAfter) && c13Store.adds == 0 && c13Store.swaps == 0)
		return
	}
	wait := stored.retryAfter.Sub(now)
	vAssert("hit-is-stored", hit.Streak == stored.streak && hit.RetryAfter.Equal(stored.retryAfter))
	vAssert("backoff-bounded", wait >= c.initialTTL && wait <= c.maxTTL)
	if shape != 1 {
		vAssert("fresh-starts-at-min", stored.streak == 1 && wait == c.initialTTL && failureQuestionKeysEqual(stored.question, cand.question))
		return
	}
	vAssert("streak-advances-at-most-one", stored.streak <= cur.streak+1 || cur.streak == ^uint32(0))
	idle := now.Sub(cur.retryAfter)
	vAssert("long-idle-resets", idle < c.maxTTL || (stored.streak == 1 && wait == c.initialTTL))
	vAssert("wait-is-backoff-of-streak", wait == c.backoff(stored.streak))
	vAssert("key-kept", failureQuestionKeysEqual(stored.question, cur.question) && stored.kind == cur.kind)
}
