//go:build verif

//verif:pkg middleware/cache
package cache

import (
	"net/netip"

	"github.com/miekg/dns"
)

var c13k struct {
	reads, writes, resets int
}

// The failure table is a sink that counts how it is used: the question is
// only whether the Store's doors reach it at all.
//
//verif:stub (*middleware/cache.FailureCache).Lookup = c13kLookup
//verif:stub (*middleware/cache.FailureCache).LookupWire = c13kLookupWire
//verif:stub (*middleware/cache.FailureCache).RetryKey = c13kRetryKey
//verif:stub (*middleware/cache.FailureCache).RecordQuestion = c13kRecordQ
//verif:stub (*middleware/cache.FailureCache).RecordZone = c13kRecordZ
//verif:stub (*middleware/cache.FailureCache).ResetQuestion = c13kResetQ
//verif:stub (*middleware/cache.FailureCache).ResetZone = c13kResetZ
//verif:stub (*middleware/cache.FailureCache).ResetMatching = c13kResetM
func c13kLookup(c *FailureCache, key FailureQuestionKey) (FailureHit, bool) {
	c13k.reads++
	return FailureHit{Kind: FailureKindQuestion}, true
}

func c13kLookupWire(c *FailureCache, name []byte, qtype, qclass uint16, cd bool) (FailureHit, bool) {
	c13k.reads++
	return FailureHit{Kind: FailureKindQuestion}, true
}

func c13kRetryKey(c *FailureCache, key FailureQuestionKey) (uint64, bool) {
	c13k.reads++
	return 7, true
}

func c13kRecordQ(c *FailureCache, key FailureQuestionKey, p FailureProvenance, w []denialWitnessPair) FailureHit {
	c13k.writes++
	return FailureHit{}
}

func c13kRecordZ(c *FailureCache, key FailureZoneKey, p FailureProvenance, w []denialWitnessPair) FailureHit {
	c13k.writes++
	return FailureHit{}
}

func c13kResetQ(c *FailureCache, key FailureQuestionKey) bool { c13k.resets++; return true }
func c13kResetZ(c *FailureCache, key FailureZoneKey) bool     { c13k.resets++; return true }
func c13kResetM(c *FailureCache, key FailureQuestionKey) int  { c13k.resets++; return 1 }

// VerifC13_KillSwitch: with rfc9520 turned off nothing is recorded and
// nothing is served from failure state, through every door of the Store; with
// it on, each door reaches the table.
//
//verif:entry tier=quick,thorough
//verif:expect rfc9520-off-records-nothing rfc9520-off-serves-nothing rfc9520-on-each-door-reaches-the-table
//verif:bound every Store entry point that touches failure state (RecordFailure, RecordZoneFailure, ClearZoneFailure, LookupFailure, LookupFailureWire, FailureRetryKey, resetMatchingFailures, resetQuestionFailure, the SERVFAIL branch of setFromResponseWithKey), one at a time; kill switch on or off; a failure table present in both cases
//verif:outside the table's own behaviour (VerifC13_RecordStep, VerifC13_LookupPartition)
func VerifC13_KillSwitch() {
	c13k.reads, c13k.writes, c13k.resets = 0, 0, 0
	off := vBool("rfc9520.off")
	s := &Store{failure: new(FailureCache), failureCacheDisabled: off}
	req := new(dns.Msg)
	req.SetQuestion("www.example.", dns.TypeA)
	req.Rcode = dns.RcodeServerFailure
	q := req.Question[0]
	served := false
	door := vChoice("door", 9)
	switch door {
	case 0:
		s.RecordFailure(req, netip.Prefix{}, FailureProvenance("response"), nil)
	case 1:
		s.RecordZoneFailure(q, "example.")
	case 2:
		s.ClearZoneFailure(q, "example.")
	case 3:
		_, served = s.LookupFailure(req, netip.Prefix{})
	case 4:
		_, served = s.LookupFailureWire([]byte{3, 'w', 'w', 'w', 7, 'e', 'x', 'a', 'm', 'p', 'l', 'e', 0}, dns.TypeA, dns.ClassINET, false)
	case 5:
		_, served = s.FailureRetryKey(req, netip.Prefix{})
	case 6:
		s.resetMatchingFailures(q, false, netip.Prefix{})
	case 7:
		s.resetQuestionFailure(q, false, netip.Prefix{})
	default:
		s.recordFailureQuestion(q, false, netip.Prefix{}, FailureProvenance("response"), nil)
	}
	if off {
		vAssert("rfc9520-off-records-nothing", c13k.writes == 0 && c13k.resets == 0)
		vAssert("rfc9520-off-serves-nothing", c13k.reads == 0 && !served)
	} else {
		vAssert("rfc9520-on-each-door-reaches-the-table", c13k.reads+c13k.writes+c13k.resets == 1)
	}
}
