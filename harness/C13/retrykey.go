//go:build verif

//verif:pkg middleware/cache
package cache

import (
	"time"

	"github.com/miekg/dns"
	internalcache "github.com/semihalev/sdns/internal/cache"
)

// a several-entry table under the real hashes (concrete names here; the
// partition by name is VerifC13_LookupPartition's subject)
//
//verif:stub (*internal/cache.Cache).Get = c13kGet
//verif:stub (*internal/cache.Cache).Len = c13kLen
//verif:stub internal/cache.Key = c13kKey
var c13kTable map[uint64]*failureEntry

// The hash is not the subject and is an uninterpreted function elsewhere
// (there it collides at will); here it is a plain polynomial over the same
// preimage, so the handful of concrete keys of this model are distinct - which
// the harness checks when it fills the table.
func c13kKey(q dns.Question, cd ...bool) uint64 {
	h := uint64(q.Qclass)<<20 ^ uint64(q.Qtype)<<4
	if len(cd) > 0 && cd[0] {
		h ^= 1
	}
	for i := 0; i < len(q.Name); i++ {
		ch := q.Name[i]
		if ch >= 'A' && ch <= 'Z' {
			ch += 'a' - 'A'
		}
		h = h*1099511628211 + uint64(ch)
	}
	return h
}

func c13kPut(h uint64, e *failureEntry) {
	if _, dup := c13kTable[h]; dup {
		vFail("model-keys-collide")
	}
	c13kTable[h] = e
}

func c13kGet(c *internalcache.Cache, key uint64) (any, bool) {
	e, ok := c13kTable[key]
	if !ok {
		return nil, false
	}
	return e, true
}

func c13kLen(c *internalcache.Cache) int { return len(c13kTable) }

type c13kSlot struct {
	present bool
	hash    uint64
	entry   *failureEntry
}

func c13kZone(tag, zone string, class uint16) c13kSlot {
	if !vBool(tag + ".present") {
		return c13kSlot{}
	}
	k := normalizeFailureZoneKey(FailureZoneKey{Zone: zone, Qclass: class})
	e := &failureEntry{kind: FailureKindZone, zone: k, streak: 1, retryAfter: vTime(tag + ".retryAfter")}
	h := failureZoneHash(k)
	c13kPut(h, e)
	return c13kSlot{true, h, e}
}

func c13kQuestion(tag string, key FailureQuestionKey) c13kSlot {
	if !vBool(tag + ".present") {
		return c13kSlot{}
	}
	k := normalizeFailureQuestionKey(key)
	e := &failureEntry{kind: FailureKindQuestion, question: k, streak: 1, retryAfter: vTime(tag + ".retryAfter")}
	h := failureQuestionHash(k)
	c13kPut(h, e)
	return c13kSlot{true, h, e}
}

// VerifC13_OneProbeGenerationAfterExpiry: once a failure's backoff has run
// out, every query it used to suppress is steered onto one probe generation:
// RetryKey yields a key exactly when no matching failure is still active
// (then the query is served the cached failure instead - Lookup and RetryKey
// never both claim a query) and some matching failure has expired; the key is
// that of the closest expired ancestor-zone failure, so two different names
// below the same failed authority wait on the same probe whatever history of
// their own they have; a failure in another class plays no part.
//
//verif:entry tier=quick,thorough
//verif:expect retry-key-only-without-an-active-failure retry-key-exactly-when-only-expired-history-matches retry-key-is-the-closest-expired-zone-else-the-question names-below-one-failed-zone-share-the-probe lookup-and-retry-never-both-claim-a-query some-probe-generation
//verif:bound two query names a.x.zone.test. / B.x.Zone.test. (same type, class, CD); failure history: each name's own question failure, zone failures of x.zone.test. and zone.test., and x.zone.test. in class CH - each present or absent with a symbolic expiry; symbolic clock; a table that holds them under the real keys
//verif:outside name/type/class/CD/audience partition of the lookups themselves (VerifC13_LookupPartition, VerifC13_LookupWirePartition); key collisions (there: always colliding; here: a collision-free stand-in for the hash); the follower wait loop in Cache.ServeDNS (VerifC11_Generations)
func VerifC13_OneProbeGenerationAfterExpiry() {
	c13kTable = map[uint64]*failureEntry{}
	c := &FailureCache{entries: new(internalcache.Cache), initialTTL: 5e9, maxTTL: 3e11}
	clock := vNow()
	c.now = func() time.Time { return clock }

	k1 := FailureQuestionKey{Question: dns.Question{Name: "a.x.zone.test.", Qtype: dns.TypeA, Qclass: dns.ClassINET}}
	k2 := FailureQuestionKey{Question: dns.Question{Name: "B.x.Zone.test.", Qtype: dns.TypeA, Qclass: dns.ClassINET}}
	e1 := c13kQuestion("exact1", k1)
	e2 := c13kQuestion("exact2", k2)
	z1 := c13kZone("zone.closest", "x.zone.test.", dns.ClassINET)
	z2 := c13kZone("zone.parent", "Zone.test.", dns.ClassINET)
	c13kZone("zone.otherclass", "x.zone.test.", dns.ClassCHAOS)

	active := func(s c13kSlot) bool { return s.present && clock.Before(s.entry.retryAfter) }
	expired := func(s c13kSlot) bool { return s.present && !clock.Before(s.entry.retryAfter) }

	check := func(key FailureQuestionKey, own c13kSlot) (uint64, bool) {
		_, served := c.Lookup(key)
		rk, ok := c.RetryKey(key)
		anyActive := active(own) || active(z1) || active(z2)
		anyExpired := expired(own) || expired(z1) || expired(z2)
		vAssert("lookup-and-retry-never-both-claim-a-query", !(served && ok))
		if ok {
			vReach("some-probe-generation")
			vAssert("retry-key-only-without-an-active-failure", !anyActive)
			want := own.hash
			if expired(z1) {
				want = z1.hash
			} else if expired(z2) {
				want = z2.hash
			}
			vAssert("retry-key-is-the-closest-expired-zone-else-the-question", rk == want)
		}
		vAssert("retry-key-exactly-when-only-expired-history-matches", ok == (!anyActive && anyExpired))
		return rk, ok
	}
	r1, ok1 := check(k1, e1)
	r2, ok2 := check(k2, e2)
	if ok1 && ok2 && (z1.present || z2.present) {
		vAssert("names-below-one-failed-zone-share-the-probe", r1 == r2)
	}
}
