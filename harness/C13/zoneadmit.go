//go:build verif

//verif:pkg middleware/resolver
package resolver

import (
	"context"
	"errors"
	"fmt"
	"time"

	"github.com/miekg/dns"
	"github.com/semihalev/sdns/middleware"
)

type c13zCtx struct {
	err error
	dl  time.Time
	has bool
}

func (c *c13zCtx) Deadline() (time.Time, bool) { return c.dl, c.has }
func (c *c13zCtx) Done() <-chan struct{}       { return nil }
func (c *c13zCtx) Err() error                  { return c.err }
func (c *c13zCtx) Value(key any) any           { return nil }

// c13zStore is the shared cache as the resolver sees it: the optional
// ResolutionFailureStore extension, recording what reaches it.
type c13zStore struct {
	zones   []string
	classes []uint16
}

func (s *c13zStore) Get(req *dns.Msg) (*dns.Msg, bool)                             { return nil, false }
func (s *c13zStore) SetFromResponse(resp *dns.Msg, keyCD bool, cutUntil time.Time) {}
func (s *c13zStore) ClearZoneFailure(q dns.Question, zone string)                  {}
func (s *c13zStore) RecordZoneFailure(q dns.Question, zone string) {
	s.zones = append(s.zones, zone)
	s.classes = append(s.classes, q.Qclass)
}

var errC13zNet = errors.New("read udp 192.0.2.1:53: i/o timeout")

func c13zCause(i int) (err error, local bool) {
	switch i {
	case 0:
		return nil, false
	case 1:
		return errC13zNet, false
	case 2:
		return errNoReachableAuth, false
	case 3:
		return context.Canceled, true
	case 4:
		return context.DeadlineExceeded, true
	case 5:
		return middleware.ErrRecursionWorkLimit, true
	case 6:
		return middleware.ErrResolutionAttemptLimit, true
	case 7:
		return middleware.ErrMaxRecursion, true
	case 8:
		return &middleware.RecursionWorkLimitError{Kind: middleware.RecursionWorkOutboundQuery, Limit: 2}, true
	case 9:
		return &middleware.ResolutionAttemptLimitError{}, true
	case 10:
		return fmt.Errorf("all servers failed: %w", context.DeadlineExceeded), true
	default:
		return fmt.Errorf("all servers failed: %w", errC13zNet), false
	}
}

// VerifC13_ZoneFailureAdmission: the resolver's only door to shared zone
// failure state, under every request-local cause.
//
//verif:entry tier=quick,thorough
//verif:expect request-local-cause-never-records-a-zone-failure genuine-authority-failure-records-exactly-its-zone nameless-zone-never-recorded
//verif:bound one call of Resolver.recordResolutionZoneFailure; context = {cancelled (either error), deadline at a symbolic instant, best-effort mark}; cause = one of 12 errors (nil, network, no-reachable-authority, the five request-local sentinels, both typed limit errors, wrapped deadline, wrapped network); zone empty or not; class symbolic
//verif:outside which call sites invoke the door (resolver.go lookup paths: the engine does not encode the network fan-out); the failure table behind RecordZoneFailure (backoff.go, partition.go)
func VerifC13_ZoneFailureAdmission() {
	base := new(c13zCtx)
	cancelled := vBool("ctx.cancelled")
	if cancelled {
		if vBool("ctx.cancel.deadline") {
			base.err = context.DeadlineExceeded
		} else {
			base.err = context.Canceled
		}
	}
	t0 := vNow()
	expired := false
	if vBool("ctx.hasDeadline") {
		base.has = true
		base.dl = vTime("ctx.deadline")
		expired = !t0.Before(base.dl)
	}
	var ctx context.Context = base
	bestEffort := vBool("ctx.bestEffort")
	if bestEffort {
		ctx = middleware.WithBestEffortRecursionWork(ctx)
	}
	cause, localCause := c13zCause(vChoice("cause", 12))

	zone := "example."
	if vBool("zone.empty") {
		zone = ""
	}
	q := dns.Question{Name: "www.example.", Qtype: dns.TypeA, Qclass: vU16("qclass")}

	st := new(c13zStore)
	var iface middleware.Store = st
	r := new(Resolver)
	r.store.Store(&iface)
	r.recordResolutionZoneFailure(ctx, q, zone, cause)

	if cancelled || expired || bestEffort || localCause {
		vAssert("request-local-cause-never-records-a-zone-failure", len(st.zones) == 0)
	}
	if zone == "" {
		vAssert("nameless-zone-never-recorded", len(st.zones) == 0)
	}
	if !cancelled && !base.has && !bestEffort && !localCause && zone != "" {
		vAssert("genuine-authority-failure-records-exactly-its-zone", len(st.zones) == 1 && st.zones[0] == zone && st.classes[0] == q.Qclass)
	}
}
