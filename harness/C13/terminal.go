//go:build verif

//verif:pkg middleware/cache
package cache

import (
	"context"
	"net"

	"github.com/miekg/dns"
	"github.com/semihalev/sdns/middleware"
)

// a wrapper above the cache (DNS64 is one) that looks, while the reply passes
// through it, whether the request tree knows this reply as a cached failure
type c13tWrapper struct {
	middleware.ResponseWriter
	ctx    context.Context
	seen   int
	marked bool
	rcode  int
	ede13  bool
}

func (w *c13tWrapper) WriteMsg(m *dns.Msg) error {
	w.seen++
	w.rcode = m.Rcode
	if meta := middleware.ResponseMetaFrom(w.ctx); meta != nil && meta.IsCachedFailureResponse(m) {
		w.marked = true
	}
	if opt := m.IsEdns0(); opt != nil {
		for _, o := range opt.Option {
			if e, ok := o.(*dns.EDNS0_EDE); ok && e.InfoCode == dns.ExtendedErrorCodeCachedError {
				w.ede13 = true
			}
		}
	}
	return nil
}

type c13tTransport struct{}

func (c13tTransport) LocalAddr() net.Addr         { return nil }
func (c13tTransport) RemoteAddr() net.Addr        { return &net.UDPAddr{IP: net.IP{198, 51, 100, 9}, Port: 5300} }
func (c13tTransport) WriteMsg(m *dns.Msg) error   { return nil }
func (c13tTransport) Write(b []byte) (int, error) { return len(b), nil }
func (c13tTransport) Close() error                { return nil }

// VerifC13_CachedFailureIsRecognisableWhileItPasses: a SERVFAIL served from
// the failure cache is, while it travels up through the writers above the
// cache, marked as a cached failure in the request tree's own response meta -
// the one reachable from the request's context, which after a wire-born
// request was detached is not the chain's pooled one - so that a wrapper
// which would otherwise start work of its own on a SERVFAIL (DNS64's A lookup)
// treats it as terminal, also toward a client without EDNS whose reply cannot
// carry EDE 13.
//
//verif:entry tier=quick,thorough
//verif:also C20
//verif:expect cached-failure-is-marked-in-the-request-trees-meta cached-failure-is-servfail-and-cancels-the-chain ede-13-for-edns-clients
//verif:bound one failure-cache hit (question or zone failure) served by Cache.handleFailureHit; request with or without EDNS; the request context carries the chain's own meta or a detached one (wire-born request after materialisation)
//verif:outside DNS64's / failover's own use of the mark (VerifC20_Dispatch); the lookup that produced the hit (VerifC13_LookupPartition)
func VerifC13_CachedFailureIsRecognisableWhileItPasses() {
	c := new(Cache)
	req := new(dns.Msg)
	req.SetQuestion("www.example.", dns.TypeAAAA)
	edns := vBool("client.edns")
	if edns {
		req.SetEdns0(1232, vBool("client.do"))
	}
	ch := middleware.NewChain([]middleware.Handler{nil})
	ch.Reset(c13tTransport{}, req)
	var detached middleware.ResponseMeta
	meta := &ch.Meta
	if vBool("request.context.detached") {
		meta = &detached
	}
	ctx := middleware.WithResponseMeta(context.Background(), meta)
	w := &c13tWrapper{ResponseWriter: ch.Writer, ctx: ctx}
	ch.Writer = w
	hit := FailureHit{Kind: FailureKindQuestion}
	if vBool("zone.failure") {
		hit.Kind = FailureKindZone
	}

	c.handleFailureHit(ctx, ch, hit)

	vAssert("cached-failure-is-servfail-and-cancels-the-chain", w.seen == 1 && w.rcode == dns.RcodeServerFailure)
	vAssert("cached-failure-is-marked-in-the-request-trees-meta", w.marked)
	if edns {
		vAssert("ede-13-for-edns-clients", w.ede13)
	} else {
		vReach("ede-13-for-edns-clients")
	}
}
