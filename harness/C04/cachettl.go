//go:build verif

//verif:pkg internal/dnsutil
//verif:profile arith
package dnsutil

import (
	"net"
	"time"

	"github.com/miekg/dns"
)

func c04RR(tag string, kind int) (dns.RR, time.Duration, bool) {
	ttl := vU32(tag + ".ttl")
	h := dns.RR_Header{Name: "a.example.", Class: dns.ClassINET, Ttl: ttl}
	switch kind {
	case 1:
		h.Rrtype = dns.TypeA
		return &dns.A{Hdr: h, A: net.IP{192, 0, 2, 1}}, time.Duration(ttl) * time.Second, false
	case 2:
		h.Rrtype = dns.TypeSOA
		min := vU32(tag + ".minttl")
		return &dns.SOA{Hdr: h, Ns: "ns.example.", Mbox: "h.example.", Minttl: min}, time.Duration(ttl) * time.Second, true
	default:
		h.Rrtype = dns.TypeRRSIG
		return &dns.RRSIG{Hdr: h, TypeCovered: dns.TypeA, Expiration: vU32(tag + ".expiration"), SignerName: "example."}, time.Duration(ttl) * time.Second, false
	}
}

// VerifC04_CalculateCacheTTL: the stored lifetime is inside [5 s, 24 h] and
// never above the smallest record TTL, the SOA minimum of a negative answer,
// or the time left until a covering signature expires (floor 5 s aside).
//
//verif:entry tier=quick,thorough
//verif:bound answer 0-1 RR, authority 0-1 RR (both tiers; 0-2 each exceeded the budget) drawn from {A, SOA, RRSIG} with arbitrary 32-bit TTL / Minttl / Expiration; response type success, NXDOMAIN or NODATA; arbitrary clock
func VerifC04_CalculateCacheTTL() {
	// two records per section did not finish within the thorough budget with
	// the bit-vectors-as-integers back end: one per section in both tiers
	n := 1
	m := new(dns.Msg)
	rt := []ResponseType{TypeSuccess, TypeNXDomain, TypeNoRecords}[vChoice("resptype", 3)]
	negative := rt != TypeSuccess
	before := vNow()
	bound := MaxCacheTTL
	count := 0
	for sec := 0; sec < 2; sec++ {
		for i := 0; i < n; i++ {
			k := vChoice("kind", 4)
			if k == 0 {
				continue
			}
			tag := "ans"
			if sec == 1 {
				tag = "auth"
			}
			rr, ttl, isSOA := c04RR(tag, k)
			count++
			if ttl < bound {
				bound = ttl
			}
			if isSOA && negative && sec == 1 {
				if mt := time.Duration(rr.(*dns.SOA).Minttl) * time.Second; mt < bound {
					bound = mt
				}
			}
			if sig, ok := rr.(*dns.RRSIG); ok {
				// time left, measured from a clock reading taken before the call
				if left := time.Unix(int64(sig.Expiration), 0).Sub(before); left < bound {
					bound = left
				}
			}
			if sec == 0 {
				m.Answer = append(m.Answer, rr)
			} else {
				m.Ns = append(m.Ns, rr)
			}
		}
	}
	got := CalculateCacheTTL(m, rt)
	vAssert("within-5s-24h", got >= MinCacheTTL && got <= MaxCacheTTL)
	if count == 0 {
		vAssert("empty-gets-floor", got == MinCacheTTL)
		return
	}
	if bound < MinCacheTTL {
		bound = MinCacheTTL
	}
	vAssert("never-above-the-shortest-part", got <= bound)
}
