//go:build verif

//verif:pkg internal/cache
package cache

import "sync"

// Interleavings of a late background refresh with a client-path write, at the
// only places the locks allow one: whenever the refresh is about to take a
// segment lock, another writer may get in first and store newer data for the
// same key (an unconditional Add, as the client path does). What happens
// inside a critical section is atomic for the other writer.
//
//verif:stub (*internal/cache.UInt64Map[any]).primaryIndex = c04lHash
//verif:stub (*internal/cache.SegmentUInt64Map[any]).getSegmentIndex = c04lSeg
//verif:stub (*sync.RWMutex).Lock = c04lLock
func c04lHash(m *UInt64Map[any], key uint64) int { return int(vUF1("pidx", key)) & m.mask }
func c04lSeg(m *SegmentUInt64Map[any], key uint64) uint {
	return uint(vUF1("segidx", key)) & uint(m.segmentMask)
}

type c04lVal struct{ n int }

var c04l struct {
	cache   *Cache
	key     uint64
	newer   *c04lVal
	armed   bool
	running bool
	ran     bool
}

func c04lLock(m *sync.RWMutex) {
	if c04l.armed && !c04l.running && vBool("client.write.gets.in.first") {
		c04l.armed, c04l.running, c04l.ran = false, true, true
		c04l.cache.Add(c04l.key, c04l.newer)
		c04l.running = false
	}
}

// VerifC04_LateRefreshNeverOverwritesNewerData
//
//verif:entry tier=quick,thorough
//verif:also C16
//verif:expect late-refresh-never-overwrites-newer-data refresh-result-is-truthful refresh-alone-replaces-what-it-claimed
//verif:bound two-segment table of 4 slots each; the key holds the entry the refresh claimed; one CompareAndSwap(claimed -> refreshed) or CompareAndDelete(claimed); one client-path Add(newer) that may run before any of the refresh's lock acquisitions, or not at all; all key values
//verif:outside more than one interfering writer; interleavings inside a critical section (excluded by the segment lock, whose own correctness is the Go runtime's)
func VerifC04_LateRefreshNeverOverwritesNewerData() {
	claimed, refreshed, newer := &c04lVal{1}, &c04lVal{2}, &c04lVal{3}
	m := NewSegmentUInt64Map[any](4, 64)
	m.segments = m.segments[:2]
	m.segmentMask, m.segmentBits = 1, 1
	for _, s := range m.segments {
		s.data = &UInt64Map[any]{data: make([]Pair[any], 4), mask: 3, growAt: 3}
	}
	cch := &Cache{data: &SyncUInt64Map[any]{data: m}, maxSize: 64}
	k := vU64("k")
	m.Set(k, claimed)
	c04l.cache, c04l.key, c04l.newer = cch, k, newer
	c04l.armed, c04l.running, c04l.ran = true, false, false

	swap := vBool("refresh.swaps")
	var ok bool
	if swap {
		ok = cch.CompareAndSwap(k, claimed, refreshed)
	} else {
		ok = cch.CompareAndDelete(k, claimed)
	}
	c04l.armed = false
	cur, present := cch.Get(k)

	if c04l.ran {
		// newer data landed while the refresh was in flight: it is what the
		// key holds afterwards, whichever of the two got its lock first
		vAssert("late-refresh-never-overwrites-newer-data", present && cur == newer)
	} else if swap {
		vAssert("refresh-alone-replaces-what-it-claimed", ok && present && cur == refreshed)
	} else {
		vAssert("refresh-alone-replaces-what-it-claimed", ok && !present)
	}
	if ok && swap && !c04l.ran {
		vAssert("refresh-result-is-truthful", cur == refreshed)
	}
	if !ok {
		vAssert("refresh-result-is-truthful", c04l.ran && cur == newer)
	}
}
