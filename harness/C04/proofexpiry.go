//go:build verif

//verif:pkg middleware/cache
//verif:profile arith
package cache

import (
	"time"

	"github.com/miekg/dns"
)

// VerifC04_DenialProofExpiry: a denial proof's lifetime is the smallest of
// everything that bounds it, with no floor: a part that is already over
// means the proof is not admitted at all.
//
//verif:entry tier=quick,thorough
//verif:expect proof-expiry-is-in-the-future proof-expiry-within-the-ceiling proof-expiry-within-the-delegation-lease proof-expiry-within-every-record-ttl proof-expiry-within-soa-minimum proof-expiry-within-signature-lifetime proof-expiry-within-original-ttl proof-with-a-spent-part-is-refused
//verif:bound 0-1 records (both tiers; 2-record sets were solver-unknown and are outside the claim), each an NSEC, an SOA or (at most one) an RRSIG with arbitrary 32-bit TTL / minimum / original TTL / expiration; delegation lease absent or any instant; configured ceiling any duration; arbitrary clock
//verif:outside RRSIG expiration is read as an absolute 32-bit count of seconds, as the code reads it (serial-number wrap after 2106 is outside)
func VerifC04_DenialProofExpiry() {
	// two-record sets came back 'unknown' for one obligation in every back end
	// within the budget, so the registered bound is one record in both tiers
	n := 1
	now := vNow()
	maxTTL := time.Duration(vI64("maxTTL"))
	var cut time.Time
	if vBool("lease.present") {
		cut = vTime("lease")
		vAssume(!cut.IsZero())
	}
	var records []dns.RR
	cnt := vChoice("records", n+1)
	kinds := 3
	for i := 0; i < cnt; i++ {
		h := dns.RR_Header{Name: "a.example.", Class: dns.ClassINET, Ttl: vU32("ttl")}
		k := vChoice("kind", kinds)
		if k == 2 {
			kinds = 2 // at most one signature per set (two were 'unknown' in every back end within the budget)
		}
		switch k {
		case 0:
			h.Rrtype = dns.TypeNSEC
			records = append(records, &dns.NSEC{Hdr: h, NextDomain: "b.example."})
		case 1:
			h.Rrtype = dns.TypeSOA
			records = append(records, &dns.SOA{Hdr: h, Ns: "ns.example.", Mbox: "h.example.", Minttl: vU32("minttl")})
		default:
			h.Rrtype = dns.TypeRRSIG
			records = append(records, &dns.RRSIG{Hdr: h, TypeCovered: dns.TypeNSEC, OrigTtl: vU32("origttl"), Expiration: vU32("expiration"), SignerName: "example."})
		}
	}
	exp, ok := denialProofExpiry(now, maxTTL, cut, records)

	spent := !cut.IsZero() && !cut.After(now)
	for _, rr := range records {
		if rr.Header().Ttl == 0 {
			spent = true
		}
		switch r := rr.(type) {
		case *dns.SOA:
			spent = spent || r.Minttl == 0
		case *dns.RRSIG:
			spent = spent || r.OrigTtl == 0 || !time.Unix(int64(r.Expiration), 0).After(now)
		}
	}
	if spent {
		vAssert("proof-with-a-spent-part-is-refused", !ok)
	}
	if !ok {
		return
	}
	vAssert("proof-expiry-is-in-the-future", exp.After(now))
	vAssert("proof-expiry-within-the-ceiling", !exp.After(now.Add(maxDenialProofTTL)))
	if !cut.IsZero() {
		vAssert("proof-expiry-within-the-delegation-lease", !exp.After(cut))
	}
	for _, rr := range records {
		vAssert("proof-expiry-within-every-record-ttl", !exp.After(now.Add(time.Duration(rr.Header().Ttl)*time.Second)))
		switch r := rr.(type) {
		case *dns.SOA:
			vAssert("proof-expiry-within-soa-minimum", !exp.After(now.Add(time.Duration(r.Minttl)*time.Second)))
		case *dns.RRSIG:
			vAssert("proof-expiry-within-signature-lifetime", !exp.After(time.Unix(int64(r.Expiration), 0)))
			vAssert("proof-expiry-within-original-ttl", !exp.After(now.Add(time.Duration(r.OrigTtl)*time.Second)))
		}
	}
}
