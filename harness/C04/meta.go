//go:build verif

//verif:pkg middleware
//verif:profile arith
package middleware

import "time"

// VerifC04_BoundCutFold: folding a delegation deadline into the request's
// meta only ever shortens it (zero = unbounded), and the key travels with the
// winning deadline.
//
//verif:entry tier=quick,thorough
//verif:bound arbitrary current cut (absent or any instant), arbitrary new deadline (absent or any instant), arbitrary keys
func VerifC04_BoundCutFold() {
	m := new(ResponseMeta)
	if vBool("hasOld") {
		m.cut = responseCut{deadline: vTime("old"), key: vU64("oldKey")}
		vAssume(!m.cut.deadline.IsZero())
	}
	old, oldKey := m.Cut()
	var d time.Time
	if vBool("hasDeadline") {
		d = vTime("deadline")
	}
	k := vU64("key")
	m.BoundCutFor(d, k)
	got, gotKey := m.Cut()
	switch {
	case d.IsZero():
		vAssert("zero-ignored", got.Equal(old) && gotKey == oldKey)
	case old.IsZero():
		vAssert("first-bound-taken", got.Equal(d) && gotKey == k)
	default:
		vAssert("keeps-earliest", !got.After(old) && !got.After(d) && (got.Equal(old) || got.Equal(d)))
		vAssert("key-follows-deadline", (!d.Before(old) && got.Equal(old) && gotKey == oldKey) || (d.Before(old) && got.Equal(d) && gotKey == k))
	}
	var nilMeta *ResponseMeta
	nilMeta.BoundCutFor(d, k) // nil-safe
	z, zk := nilMeta.Cut()
	vAssert("nil-meta-unbounded", z.IsZero() && zk == 0)
}
