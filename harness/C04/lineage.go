//go:build verif

//verif:pkg middleware/cache
package cache

import (
	"context"
	"time"

	"github.com/semihalev/sdns/middleware"
)

// VerifC04_HitFoldsItsWholeLifetimeIntoTheRequest: serving (or composing
// from) a cached entry folds into the request tree the earlier of the entry's
// own expiry (stored + ttl) and the delegation-cut deadline it inherited, so
// whatever the request goes on to assemble and re-cache cannot outlive this
// piece; the request's bound only ever shrinks.
//
//verif:entry tier=quick,thorough profile=arith
//verif:expect request-bound-is-no-later-than-the-entry-lives request-bound-is-no-later-than-the-entrys-cut request-bound-never-grows
//verif:bound one entry with arbitrary store instant, ttl of 0 s .. 7 d (whole seconds) and cut deadline absent or any instant; request meta without a bound or with any earlier/later one; an absolute expiry folded through boundRequestTo likewise
//verif:outside which hits call the fold (Cache.handleCacheHit, collectWireChase, scoped and composite rungs: read from the code, VerifC04_ChaseInheritsLifetime covers the sub-query leg)
func VerifC04_HitFoldsItsWholeLifetimeIntoTheRequest() {
	var meta middleware.ResponseMeta
	var before time.Time
	if vBool("request.already.bounded") {
		before = vTime("request.bound")
		vAssume(!before.IsZero())
		meta.BoundCutFor(before, 3)
	}
	ctx := middleware.WithResponseMeta(context.Background(), &meta)
	secs := vInt("entry.ttl.seconds")
	vAssume(secs >= 0 && secs <= 7*24*3600)
	e := &CacheEntry{stored: vTime("entry.stored"), ttl: time.Duration(secs) * time.Second}
	vAssume(!e.stored.IsZero())
	if vBool("entry.has.cut") {
		e.cutUntil = vTime("entry.cut")
		vAssume(!e.cutUntil.IsZero())
		e.cutKey = 9
	}
	dies := e.stored.Add(e.ttl)
	if vBool("absolute.expiry.instead") {
		x := vTime("absolute.expiry")
		vAssume(!x.IsZero())
		boundRequestTo(ctx, x)
		after := meta.CutUntil()
		vAssert("request-bound-is-no-later-than-the-entry-lives", !after.IsZero() && !after.After(x))
		vAssert("request-bound-never-grows", before.IsZero() || !after.After(before))
		return
	}
	boundRequestToEntryLifetime(ctx, e)
	after := meta.CutUntil()
	vAssert("request-bound-is-no-later-than-the-entry-lives", !after.IsZero() && !after.After(dies))
	if !e.cutUntil.IsZero() {
		vAssert("request-bound-is-no-later-than-the-entrys-cut", !after.After(e.cutUntil))
	} else {
		vReach("request-bound-is-no-later-than-the-entrys-cut")
	}
	vAssert("request-bound-never-grows", before.IsZero() || !after.After(before))
}
