//go:build verif

//verif:pkg middleware/cache
//verif:profile arith
package cache

import (
	"context"
	"net"
	"time"

	"github.com/miekg/dns"
	"github.com/semihalev/sdns/middleware"
)

var c04Sub struct {
	shape  int
	parent *middleware.ResponseMeta
	child  *middleware.ResponseMeta
	calls  int
}

// The sub-pipeline behind the alias chase is a stub: it returns one of the
// response shapes below together with the sub-query's own delegation-cut
// lineage, exactly as internalExchange hands it out.
//
//verif:stub (*middleware/cache.Cache).internalExchange = c04Exchange
func c04Exchange(c *Cache, ctx context.Context, req *dns.Msg) (*dns.Msg, subQueryLineage, error) {
	c04Sub.calls++
	lin := subQueryLineage{parent: c04Sub.parent, child: c04Sub.child}
	if c04Sub.calls > 1 {
		return nil, subQueryLineage{}, errVerif
	}
	soa := &dns.SOA{Hdr: dns.RR_Header{Name: "example.", Rrtype: dns.TypeSOA, Class: dns.ClassINET, Ttl: 300}, Ns: "ns.example.", Mbox: "h.example.", Minttl: 300}
	r := new(dns.Msg)
	r.Response = true
	r.Question = req.Question
	switch c04Sub.shape {
	case 0:
		return nil, lin, errVerif
	case 1: // bare NXDOMAIN: no records at all
		r.Rcode = dns.RcodeNameError
	case 2: // NXDOMAIN with its SOA
		r.Rcode = dns.RcodeNameError
		r.Ns = []dns.RR{soa}
	case 3: // the target's address
		r.Answer = []dns.RR{&dns.A{Hdr: dns.RR_Header{Name: "target.example.", Rrtype: dns.TypeA, Class: dns.ClassINET, Ttl: 60}, A: net.IP{192, 0, 2, 9}}}
	case 4: // NODATA with SOA
		r.Ns = []dns.RR{soa}
	default: // empty NOERROR
	}
	return r, lin, nil
}

// VerifC04_ChaseInheritsLifetime: when an alias answer is completed from a
// sub-query - its records merged in, or its terminal NXDOMAIN adopted - the
// composed answer inherits the sub-query's delegation-cut lifetime (so
// whatever is re-cached from it cannot outlive the piece it was built from);
// a sub-query that failed contributes nothing and changes nothing.
//
//verif:entry tier=quick,thorough
//verif:also C08
//verif:bound outer answer alias.example. CNAME target.example. for an A question; sub-query outcome: error, bare NXDOMAIN, NXDOMAIN+SOA, A answer, NODATA+SOA, empty NOERROR; sub-query cut any instant; outer cut absent or any instant
func VerifC04_ChaseInheritsLifetime() {
	c04Sub.calls = 0
	c04Sub.shape = vChoice("sub.shape", 6)
	parent, child := new(middleware.ResponseMeta), new(middleware.ResponseMeta)
	d := vTime("sub.cut")
	vAssume(!d.IsZero())
	child.BoundCutFor(d, 9)
	var p0 time.Time
	if vBool("outer.hasCut") {
		p0 = vTime("outer.cut")
		vAssume(!p0.IsZero())
		parent.BoundCutFor(p0, 5)
	}
	c04Sub.parent, c04Sub.child = parent, child

	msg := new(dns.Msg)
	msg.Response = true
	msg.Question = []dns.Question{{Name: "alias.example.", Qtype: dns.TypeA, Qclass: dns.ClassINET}}
	msg.Answer = []dns.RR{&dns.CNAME{Hdr: dns.RR_Header{Name: "alias.example.", Rrtype: dns.TypeCNAME, Class: dns.ClassINET, Ttl: 300}, Target: "target.example."}}
	c := new(Cache)
	out := c.additionalAnswer(context.Background(), msg)
	after := parent.CutUntil()

	used := out.Rcode == dns.RcodeNameError || len(out.Answer) > 1 || len(out.Ns) > 0
	if c04Sub.shape == 0 {
		vAssert("failed-sub-query-changes-nothing", after.Equal(p0) && out.Rcode == dns.RcodeSuccess && len(out.Answer) == 1)
		return
	}
	if used {
		vAssert("composed-answer-inherits-the-sub-query-lifetime", !after.IsZero() && !after.After(d))
	}
	vAssert("outer-lifetime-never-grows", p0.IsZero() || (!after.IsZero() && !after.After(p0)))
	if c04Sub.shape == 1 || c04Sub.shape == 2 {
		vAssert("terminal-nxdomain-adopted", out.Rcode == dns.RcodeNameError)
	}
}
