//go:build verif

//verif:pkg middleware/cache
//verif:profile arith
package cache

import (
	"net"
	"time"

	"github.com/miekg/dns"
)

func c04Entry() *CacheEntry {
	e := &CacheEntry{stored: vTime("stored"), ttl: time.Duration(vI64("ttl"))}
	vAssume(!e.stored.IsZero())
	vAssume(e.ttl >= -(1<<50) && e.ttl <= 1<<50)
	if vBool("hasCut") {
		e.cutUntil = vTime("cutUntil")
		vAssume(!e.cutUntil.IsZero())
	}
	return e
}

// VerifC04_Remaining: the effective lifetime is the smaller of the TTL expiry
// and the delegation cut, and never grows as the clock advances.
//
//verif:entry tier=quick,thorough
//verif:bound any stored instant, ttl in +-2^50 ns, cut absent or any instant, two arbitrary ordered clock readings
func VerifC04_Remaining() {
	e := c04Entry()
	t1 := vTime("t1")
	t2 := vTime("t2")
	vAssume(!t1.IsZero() && !t2.IsZero() && !t2.Before(t1))
	r1, r2 := e.remaining(t1), e.remaining(t2)
	byTTL := e.ttl - t1.Sub(e.stored)
	vAssert("not-past-ttl", r1 <= byTTL)
	if !e.cutUntil.IsZero() {
		byCut := e.cutUntil.Sub(t1)
		vAssert("not-past-cut", r1 <= byCut)
		vAssert("is-the-minimum", r1 == byTTL || r1 == byCut)
	} else {
		vAssert("is-ttl-when-uncut", r1 == byTTL)
	}
	vAssert("never-grows", r2 <= r1)
}

// VerifC04_ShownTTL: TTL() and IsExpired() read the clock themselves; the
// shown value never exceeds what remained at any earlier instant and is 0
// once nothing remains.
//
//verif:entry tier=quick,thorough
//verif:bound as VerifC04_Remaining; the clock read inside the call is an arbitrary instant between the harness's two readings
func VerifC04_ShownTTL() {
	e := c04Entry()
	before := vNow()
	shown := e.TTL()
	expired := e.IsExpired()
	after := vNow()
	remBefore, remAfter := e.remaining(before), e.remaining(after)
	vAssert("shown-nonnegative", shown >= 0)
	vAssert("shown-le-remaining", shown == 0 || time.Duration(shown)*time.Second <= remBefore)
	vAssert("zero-once-nothing-remains", remBefore > 0 || shown == 0)
	vAssert("expired-consistent", (remBefore > 0 || expired) && (remAfter <= 0 || !expired))
}

// VerifC04_ToMsgTTL: every record of a served hit carries the same TTL, no
// larger than what remained before the call; nothing is served once the
// lifetime is over.
//
//verif:entry tier=quick,thorough
//verif:bound stored message: A answer + NS authority + A additional with arbitrary stored TTLs (concrete names); entry lifetime as VerifC04_Remaining
func VerifC04_ToMsgTTL() {
	m := new(dns.Msg)
	m.SetQuestion("a.example.", dns.TypeA)
	m.Response = true
	m.Answer = []dns.RR{&dns.A{Hdr: dns.RR_Header{Name: "a.example.", Rrtype: dns.TypeA, Class: dns.ClassINET, Ttl: vU32("ttlA")}, A: net.IP{192, 0, 2, 1}}}
	m.Ns = []dns.RR{&dns.NS{Hdr: dns.RR_Header{Name: "example.", Rrtype: dns.TypeNS, Class: dns.ClassINET, Ttl: vU32("ttlNS")}, Ns: "ns.example."}}
	m.Extra = []dns.RR{&dns.A{Hdr: dns.RR_Header{Name: "ns.example.", Rrtype: dns.TypeA, Class: dns.ClassINET, Ttl: vU32("ttlGlue")}, A: net.IP{192, 0, 2, 53}}}
	wire, err := m.Pack()
	vAssume(err == nil)
	e := c04Entry()
	e.wire = wire
	req := new(dns.Msg)
	req.SetQuestion("a.example.", dns.TypeA)
	before := vNow()
	resp := e.ToMsg(req)
	after := vNow()
	remBefore, remAfter := e.remaining(before), e.remaining(after)
	if resp == nil {
		vAssert("miss-only-when-over", remAfter <= 0)
		return
	}
	vAssert("served-only-while-alive", remBefore > 0)
	vAssert("three-records", len(resp.Answer) == 1 && len(resp.Ns) == 1 && len(resp.Extra) == 1)
	t := resp.Answer[0].Header().Ttl
	vAssert("one-ttl-for-all", resp.Ns[0].Header().Ttl == t && resp.Extra[0].Header().Ttl == t)
	vAssert("shown-ttl-le-remaining", time.Duration(t)*time.Second <= remBefore)
}
