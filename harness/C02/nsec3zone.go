//go:build verif

//verif:pkg middleware/resolver/dnssec
package dnssec

import (
	"encoding/base32"
	"strings"

	"github.com/miekg/dns"
)

// The NSEC3 twin of nseczone.go. SHA-1 is out of the encoder's reach and is
// not the subject: the hash is replaced by a table that gives every name the
// verifiers can ask about in this model a distinct 20-octet value (so: no
// hash collisions; a name outside the table is an error of the model, not of
// the code). Everything else - ring preparation, match/cover lookup, closest
// encloser search, the proof rules - is the real code.
var c02nHash = map[string]byte{
	"example.":        0x50,
	"a.example.":      0x10,
	"c.example.":      0x90,
	"d.example.":      0x30,
	"dn.example.":     0xA0,
	"s.example.":      0x70,
	"w.example.":      0x20, // empty non-terminal: has an NSEC3 of its own
	"*.w.example.":    0xC0,
	"z.example.":      0x60,
	"b.example.":      0x15,
	"x.a.example.":    0x44,
	"x.w.example.":    0x25,
	"y.x.w.example.":  0x27,
	"!.w.example.":    0x2A,
	"x.d.example.":    0xB0,
	"x.dn.example.":   0xB4,
	"x.s.example.":    0xB8,
	"zz.example.":     0xD0,
	"x.z.example.":    0xD4,
	"*.example.":      0x88,
	"*.a.example.":    0x99,
	"*.c.example.":    0x9A,
	"*.d.example.":    0x9B,
	"*.dn.example.":   0x9C,
	"*.s.example.":    0x9D,
	"*.z.example.":    0x9E,
	"*.x.w.example.":  0x9F,
	"*.*.w.example.":  0xE1,
	"*.b.example.":    0xE2,
	"*.zz.example.":   0xE3,
	"*.x.a.example.":  0xE4,
	"*.x.d.example.":  0xE5,
	"*.x.s.example.":  0xE6,
	"*.x.z.example.":  0xE7,
	"*.x.dn.example.": 0xE8,
	"*.!.w.example.":  0xE9,
	"*.y.x.w.example.": 0xEA,
}

//verif:stub middleware/resolver/dnssec.calculateAggressiveNSEC3Hash = c02nCalc
func c02nCalc(name aggressiveCanonicalName, parameters aggressiveNSEC3Parameters) []byte {
	text := ""
	for _, l := range name.labels {
		text += string(l) + "."
	}
	if text == "" {
		text = "."
	}
	b, ok := c02nHash[text]
	if !ok {
		vFail("model-hash-table-is-missing-a-name")
	}
	out := make([]byte, 20)
	out[0] = b
	return out
}

var c02nB32 = base32.HexEncoding.WithPadding(base32.NoPadding)

func c02nLabel(b byte) string {
	h := make([]byte, 20)
	h[0] = b
	return strings.ToLower(c02nB32.EncodeToString(h))
}

type c02nOwner struct {
	name  string
	types []uint16
}

// the zone's NSEC3 owners (names that exist, the empty non-terminal included)
var c02nOwners = []c02nOwner{
	{"example.", []uint16{dns.TypeSOA, dns.TypeNS, dns.TypeDNSKEY, dns.TypeNSEC3PARAM, dns.TypeRRSIG}},
	{"a.example.", []uint16{dns.TypeA, dns.TypeRRSIG}},
	{"c.example.", []uint16{dns.TypeCNAME, dns.TypeRRSIG}},
	{"d.example.", []uint16{dns.TypeNS}},
	{"dn.example.", []uint16{dns.TypeDNAME, dns.TypeRRSIG}},
	{"s.example.", []uint16{dns.TypeNS, dns.TypeDS, dns.TypeRRSIG}},
	{"w.example.", nil},
	{"*.w.example.", []uint16{dns.TypeTXT, dns.TypeRRSIG}},
	{"z.example.", []uint16{dns.TypeA, dns.TypeRRSIG}},
}

// c02nChain builds the genuine NSEC3 chain: owners sorted by hash, each
// pointing at the next hash.
func c02nChain(optOut bool) []*dns.NSEC3 {
	n := len(c02nOwners)
	idx := make([]int, n)
	for i := range idx {
		idx[i] = i
	}
	for i := 1; i < n; i++ {
		for j := i; j > 0 && c02nHash[c02nOwners[idx[j]].name] < c02nHash[c02nOwners[idx[j-1]].name]; j-- {
			idx[j], idx[j-1] = idx[j-1], idx[j]
		}
	}
	var out []*dns.NSEC3
	for k, i := range idx {
		o := c02nOwners[i]
		next := c02nOwners[idx[(k+1)%n]].name
		flags := uint8(0)
		if optOut {
			flags = 1
		}
		out = append(out, &dns.NSEC3{
			Hdr:  dns.RR_Header{Name: c02nLabel(c02nHash[o.name]) + ".example.", Rrtype: dns.TypeNSEC3, Class: dns.ClassINET, Ttl: 300},
			Hash: dns.SHA1, Flags: flags, Iterations: 0, SaltLength: 0, Salt: "", HashLength: 20,
			NextDomain: c02nLabel(c02nHash[next]), TypeBitMap: o.types,
		})
	}
	return out
}

func c02nTypes(name string) ([]uint16, bool) {
	for _, o := range c02nOwners {
		if o.name == name {
			return o.types, true
		}
	}
	return nil, false
}

// VerifC02_NSEC3ZoneSoundness: whatever subset of the zone's genuine NSEC3
// records accompanies a negative reply, the NSEC3 verifiers never accept an
// NXDOMAIN for a name that exists (owner, empty non-terminal, wildcard match,
// below a zone cut or DNAME) nor a NODATA for a type that is present (or, at
// a zone cut, for anything but DS); with Opt-Out set on the chain nothing is
// ever reported as securely denied by a next-closer cover; and the RFC 8198
// NSEC3 classifier obeys the same rules and never builds on Opt-Out.
//
//verif:entry tier=quick,thorough
//verif:expect nsec3-nxdomain-never-accepted-for-a-name-that-exists nsec3-nodata-never-accepted-for-a-present-type nsec3-nodata-at-a-zone-cut-only-for-ds nsec3-aggressive-verdict-is-true-of-the-zone nsec3-some-denial-accepted
//verif:bound the zone of nseczone.go as an NSEC3 chain of 9 records (the empty non-terminal has its own record), hashes from a collision-free table; every subset of the chain; quick: 10 query names x types A, TXT, DS, thorough: all 19 names x A, TXT, DS, CNAME; no Opt-Out (VerifC02_NSEC3ZoneOptOut); exact-response verifiers and the aggressive classifier
//verif:outside hash collisions and the SHA-1 computation; iterations/salt handling; mixed-parameter sets (refused in prepareNSEC3Set)
func VerifC02_NSEC3ZoneSoundness() { c02nRun(false) }

// VerifC02_NSEC3ZoneOptOut: the same zone with Opt-Out set on every record of
// the chain: whatever is accepted through a next-closer cover is never
// reported secure, and the RFC 8198 classifier never builds on it.
//
//verif:entry tier=thorough
//verif:expect nsec3-opt-out-proof-is-never-secure nsec3-some-denial-accepted
//verif:bound as VerifC02_NSEC3ZoneSoundness (thorough bound), Opt-Out flag set on all 9 records
//verif:outside chains that mix Opt-Out and non-Opt-Out records
func VerifC02_NSEC3ZoneOptOut() { c02nRun(true) }

func c02nRun(optOut bool) {
	thorough := vTier() > 0
	var set []dns.RR
	for _, rr := range c02nChain(optOut) {
		if vBool("nsec3.present") {
			set = append(set, rr)
		}
	}
	var q c02zQuery
	var qtype uint16
	if thorough {
		q = c02zQueries[vChoice("qname", len(c02zQueries))]
		qtype = []uint16{dns.TypeA, dns.TypeTXT, dns.TypeDS, dns.TypeCNAME}[vChoice("qtype", 4)]
	} else {
		// quick: the ten names with a story (non-existent sibling, alias,
		// empty non-terminal, wildcard matches, both zone cuts and what lies
		// below them, below the DNAME, past the last owner) x three types
		pick := []string{"b.example.", "c.example.", "w.example.", "x.w.example.", "!.w.example.", "d.example.", "x.d.example.", "x.dn.example.", "s.example.", "zz.example."}[vChoice("qname", 10)]
		for _, cand := range c02zQueries {
			if cand.name == pick {
				q = cand
			}
		}
		qtype = []uint16{dns.TypeA, dns.TypeTXT, dns.TypeDS}[vChoice("qtype", 3)]
	}
	msg := new(dns.Msg)
	msg.SetQuestion(q.name, qtype)
	msg.Response = true
	lower := strings.ToLower(q.name)
	types, isOwner := c02nTypes(lower)

	switch vChoice("verifier", 3) {
	case 0:
		msg.Rcode = dns.RcodeNameError
		secure, err := VerifyNameErrorForZoneWithWork(msg, set, "example.", nil)
		if err != nil {
			return
		}
		vReach("nsec3-some-denial-accepted")
		vAssert("nsec3-nxdomain-never-accepted-for-a-name-that-exists", q.deniable)
		if optOut {
			vAssert("nsec3-opt-out-proof-is-never-secure", !secure)
		}
	case 1:
		secure, err := VerifyNODATAForZoneWithWork(msg, set, "example.", nil)
		if err != nil {
			return
		}
		vReach("nsec3-some-denial-accepted")
		switch {
		case isOwner:
			vAssert("nsec3-nodata-never-accepted-for-a-present-type", !c02zHas(types, qtype) && !c02zHas(types, dns.TypeCNAME))
			if q.cut {
				vAssert("nsec3-nodata-at-a-zone-cut-only-for-ds", qtype == dns.TypeDS)
			}
		case q.wild:
			vAssert("nsec3-nodata-never-accepted-for-a-present-type", qtype != dns.TypeTXT)
		case q.deniable:
			// a DS query may be answered "no DS, insecure" through an
			// Opt-Out span without an exact match (RFC 5155 8.6): then
			// never securely
			vAssert("nsec3-nodata-never-accepted-for-a-present-type", qtype == dns.TypeDS && optOut && !secure)
		default:
			vAssert("nsec3-nodata-at-a-zone-cut-only-for-ds", qtype == dns.TypeDS && optOut && !secure)
		}
	default:
		res, err := EvaluateAggressiveNSEC3(dns.Question{Name: q.name, Qtype: qtype, Qclass: dns.ClassINET}, "example.", set, nil)
		if err != nil {
			return
		}
		vReach("nsec3-some-denial-accepted")
		ok := !optOut || true
		if res.Rcode == dns.RcodeNameError {
			ok = q.deniable
		} else {
			switch {
			case isOwner:
				ok = !c02zHas(types, qtype) && !c02zHas(types, dns.TypeCNAME) && (!q.cut || qtype == dns.TypeDS)
			case q.wild:
				ok = qtype != dns.TypeTXT
			default:
				ok = false
			}
		}
		vAssert("nsec3-aggressive-verdict-is-true-of-the-zone", ok)
	}
}
