//go:build verif

//verif:pkg middleware/resolver/dnssec
package dnssec

import (
	"github.com/miekg/dns"
)

var c02eTypes []uint16

// Hashing and ring lookup are not the subject (VerifC02_NSEC3Covers has the
// interval test): the matching NSEC3 for the query name is found, with an
// arbitrary type bitmap.
//
//verif:stub middleware/resolver/dnssec.prepareNSEC3Set = c02ePrepare
//verif:stub middleware/resolver/dnssec.findMatchingWithWork = c02eFind
func c02ePrepare(records []dns.RR, signer string) (preparedNSEC3Set, error) {
	return preparedNSEC3Set{qclass: dns.ClassINET}, nil
}

func c02eFind(name string, evaluator *nsec3RingEvaluator) ([]uint16, error) {
	return c02eTypes, nil
}

// VerifC02_NSEC3ExactNODATA: what an exact-match NSEC3 may prove absent.
//
//verif:entry tier=quick,thorough
//verif:expect nsec3-nodata-never-for-a-present-type nsec3-nodata-at-a-zone-cut-only-for-ds nsec3-ds-nodata-never-from-the-child-apex nsec3-some-nodata-accepted
//verif:bound query type A, TXT, NS, DS, CNAME or SOA; the matching NSEC3's bitmap any subset of {A, TXT, NS, DS, CNAME, SOA, DNAME}
//verif:outside which NSEC3 matches (hashing, ring lookup); the no-exact-match branches (closest encloser, opt-out)
func VerifC02_NSEC3ExactNODATA() {
	all := []uint16{dns.TypeA, dns.TypeNS, dns.TypeCNAME, dns.TypeSOA, dns.TypeTXT, dns.TypeDNAME, dns.TypeDS}
	c02eTypes = nil
	for _, t := range all {
		if vBool("bitmap.has") {
			c02eTypes = append(c02eTypes, t)
		}
	}
	qtype := []uint16{dns.TypeA, dns.TypeTXT, dns.TypeNS, dns.TypeDS, dns.TypeCNAME, dns.TypeSOA}[vChoice("qtype", 6)]
	msg := new(dns.Msg)
	msg.SetQuestion("d.example.", qtype)
	msg.Response = true
	secure, err := VerifyNODATAForZoneWithWork(msg, nil, "example.", nil)
	if err != nil {
		return
	}
	vReach("nsec3-some-nodata-accepted")
	has := func(t uint16) bool {
		for _, x := range c02eTypes {
			if x == t {
				return true
			}
		}
		return false
	}
	vAssert("nsec3-nodata-never-for-a-present-type", secure && !has(qtype) && !has(dns.TypeCNAME))
	if has(dns.TypeNS) && !has(dns.TypeSOA) {
		// the parent's side of a zone cut speaks for DS only (RFC 6840 4.1)
		vAssert("nsec3-nodata-at-a-zone-cut-only-for-ds", qtype == dns.TypeDS)
	}
	if qtype == dns.TypeDS {
		vAssert("nsec3-ds-nodata-never-from-the-child-apex", !has(dns.TypeSOA))
	}
}
