//go:build verif

//verif:pkg middleware/resolver
package resolver

import (
	"context"

	"github.com/miekg/dns"
	"github.com/semihalev/sdns/internal/authority"
	"github.com/semihalev/sdns/middleware"
)

var c02s struct {
	result    *dns.Msg
	mark      int // 0 none, 1 validated but not aggressive, 2 aggressive NXDOMAIN proof, 3 aggressive with a NODATA proof
	authErr   bool
	continued int
	cleared   int
}

// Validation of the minimised NXDOMAIN (Resolver.authority) is a stub that
// hands back the response with whatever provenance the script says it earned;
// the deeper walk (Resolver.resolve) is a sink.
//
//verif:stub (*middleware/resolver.Resolver).authority = c02sAuthority
//verif:stub (*middleware/resolver.Resolver).resolve = c02sResolve
//verif:stub (*middleware/resolver.Resolver).clearResolutionZoneFailure = c02sClear
//verif:stub middleware.validatedNegativeProofFingerprint = c02sSeal
func c02sAuthority(r *Resolver, ctx context.Context, req, resp *dns.Msg, parentDS []dns.RR, zone string) (*dns.Msg, error) {
	if c02s.authErr {
		return nil, errVerif
	}
	neg := middleware.ValidatedNegativeProof{Subject: "c.example.", Zone: "example.", Kind: middleware.ValidatedNegativeProofNSEC3}
	switch c02s.mark {
	case 1:
		middleware.MarkValidatedNegativeProofResponse(ctx, c02s.result, neg)
	case 2:
		neg.Aggressive = true
		middleware.MarkValidatedNegativeProofResponse(ctx, c02s.result, neg)
	}
	return c02s.result, nil
}

func c02sResolve(r *Resolver, ctx context.Context, rs *resolveState) (*dns.Msg, error) {
	c02s.continued++
	return nil, errVerif
}

// the SHA-256 seal over the proof bytes (tamper evidence) is not the subject
func c02sSeal(proof *dns.Msg) ([32]byte, bool) { return [32]byte{1}, proof != nil }

func c02sClear(r *Resolver, q dns.Question, zone string) { c02s.cleared++ }

// VerifC02_MinimisedNXDOMAINStopsOnlyOnAnAggressiveProof: an NXDOMAIN for a
// QNAME-minimised (shorter) name ends the resolution of the full name - "that
// whole subtree does not exist" - only when this very response was validated
// locally, the stricter RFC 8198 classifier also accepted it as an NXDOMAIN
// proof, and no NSEC3 of the zone in it carries Opt-Out; otherwise the walk
// goes on to the longer name.
//
//verif:entry tier=quick,thorough
//verif:expect subtree-denied-only-on-an-aggressive-non-opt-out-proof validation-error-is-returned some-minimised-denial-stops some-minimised-denial-walks-on
//verif:bound one minimised NXDOMAIN with SOA for c.example. while resolving www.c.example.; validation fails / succeeds with provenance none, validated-only or validated+aggressive; authority section with or without an NSEC3 of the zone, of another zone, Opt-Out flag symbolic on each
//verif:outside how Resolver.authority earns the provenance (VerifC02_*ZoneSoundness, VerifC19_SharedDenials*); the deeper walk itself
func VerifC02_MinimisedNXDOMAINStopsOnlyOnAnAggressiveProof() {
	c02s.continued, c02s.cleared = 0, 0
	c02s.mark = vChoice("provenance", 3)
	c02s.authErr = vBool("validation.fails")
	r := new(Resolver)
	req := new(dns.Msg)
	req.SetQuestion("www.c.example.", dns.TypeA)
	minReq := new(dns.Msg)
	minReq.SetQuestion("c.example.", dns.TypeA)
	resp := new(dns.Msg)
	resp.SetReply(minReq)
	resp.Rcode = dns.RcodeNameError
	soa := &dns.SOA{Hdr: dns.RR_Header{Name: "example.", Rrtype: dns.TypeSOA, Class: dns.ClassINET, Ttl: 300}, Ns: "ns.example.", Mbox: "h.example.", Minttl: 300}
	resp.Ns = []dns.RR{soa}
	optOutInZone := false
	if vBool("nsec3.of.the.zone") {
		f := vU8("nsec3.flags")
		resp.Ns = append(resp.Ns, &dns.NSEC3{Hdr: dns.RR_Header{Name: "abcd.example.", Rrtype: dns.TypeNSEC3, Class: dns.ClassINET, Ttl: 300}, Flags: f})
		optOutInZone = f&1 != 0
	}
	if vBool("nsec3.of.another.zone") {
		resp.Ns = append(resp.Ns, &dns.NSEC3{Hdr: dns.RR_Header{Name: "abcd.other.", Rrtype: dns.TypeNSEC3, Class: dns.ClassINET, Ttl: 300}, Flags: vU8("foreign.flags")})
	}
	c02s.result = resp
	var meta middleware.ResponseMeta
	ctx := middleware.WithResponseMeta(context.Background(), &meta)
	rs := &resolveState{req: req, servers: &authority.Servers{Zone: "example."}}

	out, err := r.processAuthoritySection(ctx, rs, minReq, resp, true)

	if c02s.authErr {
		vAssert("validation-error-is-returned", err != nil && out == nil && c02s.continued == 0)
		return
	}
	stopped := c02s.continued == 0 && err == nil && out != nil
	if stopped {
		vReach("some-minimised-denial-stops")
		vAssert("subtree-denied-only-on-an-aggressive-non-opt-out-proof", c02s.mark == 2 && !optOutInZone && out.Rcode == dns.RcodeNameError)
	} else {
		vReach("some-minimised-denial-walks-on")
	}
}
