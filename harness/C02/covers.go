//go:build verif

//verif:pkg middleware/resolver/dnssec
package dnssec

// The interval logic of an NSEC is independent of name syntax: with the
// canonical comparison replaced by an arbitrary total order (names mapped to
// symbolic ranks) nsecCovers must be exactly "strictly inside the interval",
// with wrap-around at the apex and the single-name sentinel.

var c02Rank map[string]int

//verif:stub middleware/resolver/dnssec.canonicalNameCompare = c02Compare
func c02Compare(a, b string) int {
	ra, rb := c02Rank[a], c02Rank[b]
	switch {
	case ra < rb:
		return -1
	case ra > rb:
		return 1
	}
	return 0
}

// VerifC02_NSECCovers
//
//verif:entry tier=quick,thorough
//verif:bound owner, next and name at arbitrary positions of an arbitrary total order (ranks are symbolic 64-bit integers, ties allowed)
func VerifC02_NSECCovers() {
	o, n, x := vInt("rank.owner"), vInt("rank.next"), vInt("rank.name")
	c02Rank = map[string]int{"owner.": o, "next.": n, "name.": x}
	got := nsecCovers("owner.", "next.", "name.")
	var want bool
	switch {
	case o == n:
		want = x != o
	case o < n:
		want = o < x && x < n
	default:
		want = x > o || x < n
	}
	vAssert("covers-iff-strictly-inside", got == want)
	vAssert("never-covers-an-endpoint-that-exists", !got || x != o)
	vAssert("next-is-not-covered-unless-sentinel", !got || x != n || o == n)
}
