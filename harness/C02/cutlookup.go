//go:build verif

//verif:pkg middleware/cache
package cache

import (
	"github.com/miekg/dns"
)

//verif:stub github.com/miekg/dns.escapeByte = c02cEscape
func c02cEscape(b byte) string {
	return string([]byte{'\\', '0' + b/100, '0' + b/10%10, '0' + b%10})
}

var c02cShapes = [][]int{{1}, {1, 1}, {2, 1}, {1, 1, 1}, {2}}

func c02cName(tag string, shape []int) ([][]byte, []byte, string) {
	var labels [][]byte
	var w []byte
	for _, l := range shape {
		lab := vBytes(tag, l)
		for _, o := range lab {
			vAssume(o < 0x80)
		}
		labels = append(labels, lab)
		w = append(w, byte(l))
		w = append(w, lab...)
	}
	w = append(w, 0)
	text, _, err := dns.UnpackDomainName(w, 0)
	vAssume(err == nil)
	return labels, w, text
}

func c02cFold(o byte) byte {
	if o >= 'A' && o <= 'Z' {
		return o + 32
	}
	return o
}

func c02cAtOrBelow(cut, name [][]byte) bool {
	if len(cut) > len(name) {
		return false
	}
	ok := true
	d := len(name) - len(cut)
	for i := range cut {
		same := len(cut[i]) == len(name[d+i])
		for k := 0; same && k < len(cut[i]); k++ {
			same = c02cFold(cut[i][k]) == c02cFold(name[d+i][k])
		}
		ok = ok && same
	}
	return ok
}

func c02cRun(bytePath bool) {
	nd, nq := 2, 1
	qShapes := [][]int{{2, 1}, {1, 1, 1}, {1}, {1, 1}, {2}}
	// larger shape sets exceeded the thorough budget (the byte path ran past
	// 200 000 paths): both tiers run 2 x 1
	dl, _, dtext := c02cName("d", c02cShapes[vChoice("denied.shape", nd)])
	ql, qwire, qtext := c02cName("q", qShapes[vChoice("query.shape", nq)])
	dclass := vU16("denied.class")
	qclass := dclass
	if vBool("other.class") {
		qclass = vU16("query.class")
	}
	e := &nxDomainCutEntry{deniedName: dns.CanonicalName(dtext), zone: ".", qclass: dclass, expires: vTime("expires"), wireFull: []byte{0}}
	e.id = nxDomainCutID{deniedName: e.deniedName, qclass: dclass}
	c := &nxDomainCutCache{entries: map[nxDomainCutID]*nxDomainCutEntry{e.id: e}, byHash: map[uint64]*nxDomainCutEntry{vU64("stored.hash"): e}, zones: map[nxDomainCutZoneKey]*nxDomainCutZoneState{}}
	before := vNow()
	var hit *nxDomainCutEntry
	var ok bool
	if bytePath {
		hit, ok = c.lookupWire(qwire, qclass)
	} else {
		hit, ok = c.lookup(dns.Question{Name: qtext, Qtype: dns.TypeA, Qclass: qclass})
	}
	if !ok {
		return
	}
	vReach("some-cut-hit")
	vAssert("cut-hit-only-at-or-below-the-denied-name", hit == e && c02cAtOrBelow(dl, ql))
	vAssert("cut-hit-only-in-the-same-class", dclass == qclass)
	vAssert("cut-hit-only-while-alive", before.Before(e.expires))
}

// VerifC02_SubtreeCutAppliesOnlyBelowTheDeniedName: a cached "this name does
// not exist" cut answers a later query only if the query name is the denied
// name or lies below it label by label, in the same class, while the cut is
// alive - here on the decoded path (string-keyed index).
//
//verif:entry tier=quick,thorough
//verif:expect cut-hit-only-at-or-below-the-denied-name cut-hit-only-in-the-same-class cut-hit-only-while-alive some-cut-hit
//verif:bound one stored cut with a denied name of shape [1] or [1,1]; query name of shape [2,1] (both tiers; more shapes exceeded the thorough budget); ASCII octets incl. '.' and '\\' inside labels and either letter case; classes and expiry symbolic
//verif:outside non-ASCII octets (ASCII model of dns.CanonicalName); eviction bookkeeping
func VerifC02_SubtreeCutAppliesOnlyBelowTheDeniedName() { c02cRun(false) }

// VerifC02_SubtreeCutWireLookup: the same on the byte path, whose index is
// keyed by a hash - an uninterpreted function here, so it collides whenever
// the solver wants it to - and verified by fold comparison.
//
//verif:entry tier=quick,thorough
//verif:also C03
//verif:expect cut-hit-only-at-or-below-the-denied-name cut-hit-only-in-the-same-class cut-hit-only-while-alive some-cut-hit
//verif:bound as VerifC02_SubtreeCutAppliesOnlyBelowTheDeniedName, query given as an uncompressed wire name, stored hash key arbitrary
//verif:outside non-ASCII octets; compressed query names (refused at admission, VerifC05_ParseWire)
func VerifC02_SubtreeCutWireLookup() { c02cRun(true) }
