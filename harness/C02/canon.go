//go:build verif

//verif:pkg internal/dnsname
package dnsname

// Names are generated from label arrays (structure concrete, octets
// symbolic), each octet rendered in one of the three presentation forms, so
// the reference knows the decoded labels without parsing anything.

var c02Shapes = [][]int{{}, {1}, {1, 1}, {2}, {2, 1}, {1, 2}, {1, 1, 1}}

type c02Name struct {
	labels [][]byte
	text   string
}

func c02Gen(tag string, shape []int, rooted bool) c02Name {
	var n c02Name
	text := []byte{}
	for li, l := range shape {
		lab := vBytes(tag+"oct", l)
		n.labels = append(n.labels, lab)
		for _, o := range lab {
			switch vChoice(tag+"esc", 3) {
			case 0: // plain: anything but the two metacharacters
				vAssume(o != '.' && o != '\\')
				text = append(text, o)
			case 1: // \c with c not a digit (a digit would start \DDD when two more follow; \c of a digit is not a form the library emits)
				vAssume(o < '0' || o > '9')
				text = append(text, '\\', o)
			default: // \DDD
				text = append(text, '\\', '0'+o/100, '0'+o/10%10, '0'+o%10)
			}
		}
		if li < len(shape)-1 || rooted {
			text = append(text, '.')
		}
	}
	if len(shape) == 0 && rooted {
		text = []byte{'.'}
	}
	n.text = string(text)
	return n
}

func c02Fold(o byte) byte {
	if o >= 'A' && o <= 'Z' {
		return o + 32
	}
	return o
}

// c02LabelCmp: folded octet strings, lexicographic, shorter prefix first.
func c02LabelCmp(a, b []byte) int {
	for i := 0; i < len(a) && i < len(b); i++ {
		x, y := c02Fold(a[i]), c02Fold(b[i])
		if x < y {
			return -1
		}
		if x > y {
			return 1
		}
	}
	switch {
	case len(a) < len(b):
		return -1
	case len(a) > len(b):
		return 1
	}
	return 0
}

// c02Ref is RFC 4034 section 6.1 on decoded labels: right to left, the name
// that runs out of labels first sorts first.
func c02Ref(a, b [][]byte) int {
	i, j := len(a)-1, len(b)-1
	for i >= 0 && j >= 0 {
		if c := c02LabelCmp(a[i], b[j]); c != 0 {
			return c
		}
		i--
		j--
	}
	switch {
	case i < j:
		return -1
	case i > j:
		return 1
	}
	return 0
}

// VerifC02_CanonicalOrder: CanonicalCompare equals the RFC 4034 canonical
// order of the decoded labels for every pair of names in the bound, in every
// escape spelling, and is antisymmetric.
//
//verif:entry tier=quick,thorough
//verif:bound both names from label shapes {root, [1], [1,1], [2]} (both tiers; adding [2,1], [1,2], [1,1,1] exceeded the thorough budget); every octet value 0-255 in each of the forms c, \c, \DDD; rooted or unrooted spelling
func VerifC02_CanonicalOrder() {
	// larger shape sets ([2,1], [1,2], [1,1,1]) did not finish within the
	// thorough budget (64 000 paths in 45 min): both tiers run these four
	ns := 4
	a := c02Gen("a.", c02Shapes[vChoice("a.shape", ns)], vChoice("a.rooted", 2) == 1)
	b := c02Gen("b.", c02Shapes[vChoice("b.shape", ns)], vChoice("b.rooted", 2) == 1)
	want := c02Ref(a.labels, b.labels)
	got := CanonicalCompare(a.text, b.text)
	vAssert("equals-rfc4034-order", got == want)
	vAssert("antisymmetric", CanonicalCompare(b.text, a.text) == -want)
}
