//go:build verif

//verif:pkg middleware/resolver/dnssec
package dnssec

// VerifC02_NSEC3Covers: an NSEC3 whose (owner hash, next hash) interval is
// given covers a hash value exactly when the value lies strictly inside the
// interval on the hash ring (wrap-around for the last record of the chain,
// everything-but-itself for a single-record chain). In particular the owner
// hash and the next hash - names that exist - are never covered.
//
//verif:entry tier=quick,thorough
//verif:bound owner hash, next hash and probed hash: 2 symbolic octets each (quick) / 3 (thorough) - every ordering, ties included
func VerifC02_NSEC3Covers() {
	n := 2
	if vTier() > 0 {
		n = 3
	}
	owner, next, h := vBytes("ownerHash", n), vBytes("nextHash", n), vBytes("hash", n)
	e := &aggressiveNSEC3Entry{ownerHash: owner, nextHash: next}
	got := aggressiveNSEC3Covers(e, h)
	// big-endian integers for the reference
	var o, x, v uint32
	for i := 0; i < n; i++ {
		o, x, v = o<<8|uint32(owner[i]), x<<8|uint32(next[i]), v<<8|uint32(h[i])
	}
	var want bool
	switch {
	case o == x:
		want = v != o
	case o < x:
		want = o < v && v < x
	default:
		want = v > o || v < x
	}
	vAssert("covers-iff-strictly-inside-ring-interval", got == want)
	vAssert("existing-owner-never-covered", !got || v != o)
	vAssert("existing-next-never-covered", !got || v != x || o == x)
}
