//go:build verif

//verif:pkg middleware/cache
package cache

import (
	"github.com/miekg/dns"
)

// The denial-proof index keeps its own canonical ordering (a second
// implementation beside internal/dnsname, which canon.go covers): the order
// its snapshot is sorted by is the order covering lookups bisect on, so it
// has to be RFC 4034 6.1 exactly or a span that does not cover a name is
// selected as if it did.
//
//verif:stub github.com/miekg/dns.escapeByte = c02oEscape
func c02oEscape(b byte) string {
	return string([]byte{'\\', '0' + b/100, '0' + b/10%10, '0' + b%10})
}

var c02oShapes = [][]int{{1}, {1, 1}, {2}, {}, {2, 1}}

// c02oName: labels with symbolic octets (any value, '.' and '\\' included)
// and the library's presentation text for them.
func c02oName(tag string, shape []int) ([][]byte, string) {
	var labels [][]byte
	var w []byte
	for _, l := range shape {
		lab := vBytes(tag, l)
		labels = append(labels, lab)
		w = append(w, byte(l))
		w = append(w, lab...)
	}
	w = append(w, 0)
	text, _, err := dns.UnpackDomainName(w, 0)
	vAssume(err == nil)
	return labels, text
}

func c02oFold(o byte) byte {
	if o >= 'A' && o <= 'Z' {
		return o + 32
	}
	return o
}

func c02oLabelCmp(a, b []byte) int {
	for i := 0; i < len(a) && i < len(b); i++ {
		x, y := c02oFold(a[i]), c02oFold(b[i])
		if x < y {
			return -1
		}
		if x > y {
			return 1
		}
	}
	if len(a) < len(b) {
		return -1
	}
	if len(a) > len(b) {
		return 1
	}
	return 0
}

func c02oRef(a, b [][]byte) int {
	i, j := len(a)-1, len(b)-1
	for i >= 0 && j >= 0 {
		if c := c02oLabelCmp(a[i], b[j]); c != 0 {
			return c
		}
		i--
		j--
	}
	if len(a) < len(b) {
		return -1
	}
	if len(a) > len(b) {
		return 1
	}
	return 0
}

// VerifC02_ProofIndexOrderIsCanonical
//
//verif:entry tier=quick,thorough
//verif:expect proof-index-order-is-rfc4034-canonical
//verif:bound two names of 0-2 labels, label lengths 1-2, shapes {[1], [1,1], [2], [], [2,1]} (first 3 x first 3 in both tiers); every octet value 0-255 in every position, spelled by the library (escapes included) and lower-cased by dns.CanonicalName as the admission path does
//verif:outside labels longer than 2 octets, names deeper than 2 labels; unpackable names (the presentation-form fallback)
func VerifC02_ProofIndexOrderIsCanonical() {
	n := 3
	// 4 x 4 and 5 x 5 shape sets took 400 s and more of a shared thorough
	// budget: both tiers run 3 x 3
	al, at := c02oName("a", c02oShapes[vChoice("a.shape", n)])
	bl, bt := c02oName("b", c02oShapes[vChoice("b.shape", n)])
	ao := denialProofNameOrderFor(dns.CanonicalName(at))
	bo := denialProofNameOrderFor(dns.CanonicalName(bt))
	vAssume(ao.labels != nil && bo.labels != nil)
	got := ao.compare(bo)
	want := c02oRef(al, bl)
	vAssert("proof-index-order-is-rfc4034-canonical", (got < 0) == (want < 0) && (got > 0) == (want > 0))
}
