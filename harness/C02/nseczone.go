//go:build verif

//verif:pkg middleware/resolver/dnssec
package dnssec

import (
	"github.com/miekg/dns"
)

// A small signed zone with every shape the property names, and its genuine
// NSEC chain. The chain order and the truth about each name are written down
// here by hand (they are the specification), not computed with the code under
// test.
type c02zOwner struct {
	name  string
	types []uint16
}

var c02zChain = []c02zOwner{
	{"example.", []uint16{dns.TypeSOA, dns.TypeNS, dns.TypeDNSKEY, dns.TypeRRSIG, dns.TypeNSEC}},
	{"a.example.", []uint16{dns.TypeA, dns.TypeRRSIG, dns.TypeNSEC}},
	{"c.example.", []uint16{dns.TypeCNAME, dns.TypeRRSIG, dns.TypeNSEC}},           // alias
	{"d.example.", []uint16{dns.TypeNS, dns.TypeRRSIG, dns.TypeNSEC}},             // insecure delegation (parent side)
	{"dn.example.", []uint16{dns.TypeDNAME, dns.TypeRRSIG, dns.TypeNSEC}},         // DNAME
	{"s.example.", []uint16{dns.TypeNS, dns.TypeDS, dns.TypeRRSIG, dns.TypeNSEC}}, // signed delegation (parent side)
	{"*.w.example.", []uint16{dns.TypeTXT, dns.TypeRRSIG, dns.TypeNSEC}},          // wildcard; w.example. is an empty non-terminal
	{"z.example.", []uint16{dns.TypeA, dns.TypeRRSIG, dns.TypeNSEC}},
}

type c02zQuery struct {
	name string
	// may the zone's own records ever prove this name does not exist?
	deniable bool
	// is the name an owner of the zone (its types are then in c02zChain)
	owner bool
	// the name is answered by the wildcard *.w.example.
	wild bool
	// the name is a delegation point seen from the parent
	cut bool
}

var c02zQueries = []c02zQuery{
	{"a.example.", false, true, false, false},
	{"b.example.", true, false, false, false},
	{"c.example.", false, true, false, false},
	{"x.a.example.", true, false, false, false},
	{"w.example.", false, false, false, false},   // empty non-terminal
	{"x.w.example.", false, false, true, false},  // wildcard match
	{"y.x.w.example.", false, false, true, false},
	{"!.w.example.", false, false, true, false}, // wildcard match that sorts before the wildcard owner: only the NSEC's next name shows the encloser
	{"d.example.", false, true, false, true},
	{"x.d.example.", false, false, false, false}, // below an insecure delegation
	{"dn.example.", false, true, false, false},
	{"x.dn.example.", false, false, false, false}, // below a DNAME
	{"s.example.", false, true, false, true},
	{"x.s.example.", false, false, false, false}, // below a signed delegation
	{"z.example.", false, true, false, false},
	{"zz.example.", true, false, false, false},
	{"x.z.example.", true, false, false, false},
	{"example.", false, true, false, false},
	{"X.D.Example.", false, false, false, false}, // below the delegation, other letter case
}

func c02zTypes(name string) []uint16 {
	for _, o := range c02zChain {
		if o.name == name {
			return o.types
		}
	}
	return nil
}

func c02zHas(types []uint16, t uint16) bool {
	for _, x := range types {
		if x == t {
			return true
		}
	}
	return false
}

// VerifC02_NSECZoneSoundness: whatever subset of the zone's genuine NSEC
// records accompanies a negative reply, the NSEC verifiers never accept an
// NXDOMAIN for a name that exists (as an owner, an empty non-terminal, through
// the wildcard, or below a delegation or DNAME) and never accept a NODATA for
// a type that is present - or, at a delegation point, for anything but DS
// (RFC 6840 section 4.1: the parent-side NSEC of a zone cut says nothing
// about the names and types that live in the child).
//
//verif:entry tier=quick,thorough
//verif:expect nxdomain-never-accepted-for-a-name-that-exists nodata-never-accepted-for-a-type-that-is-present nodata-at-a-zone-cut-only-for-ds some-denial-accepted
//verif:bound one zone (apex, plain owner, alias, insecure delegation, DNAME, signed delegation, wildcard with empty non-terminal, last owner) with its genuine NSEC chain of 8 records; every subset of the chain; 19 query names (owners, non-existent siblings and children, the empty non-terminal, wildcard matches at two depths, names below each zone cut and below the DNAME, a mixed-case spelling); query types A, TXT, NS, DS, CNAME, DNAME
//verif:outside label alphabets and depths beyond this zone; NSEC3 (VerifC02_NSEC3Covers covers the interval test only); records replayed from other zones (the caller filters to the validated signer, VerifC01_NameInZone)
func VerifC02_NSECZoneSoundness() {
	var set []dns.RR
	for i, o := range c02zChain {
		if vBool("nsec.present") {
			next := c02zChain[(i+1)%len(c02zChain)].name
			set = append(set, &dns.NSEC{Hdr: dns.RR_Header{Name: o.name, Rrtype: dns.TypeNSEC, Class: dns.ClassINET, Ttl: 300}, NextDomain: next, TypeBitMap: o.types})
		}
	}
	q := c02zQueries[vChoice("qname", len(c02zQueries))]
	qtype := []uint16{dns.TypeA, dns.TypeTXT, dns.TypeNS, dns.TypeDS, dns.TypeCNAME, dns.TypeDNAME}[vChoice("qtype", 6)]
	msg := new(dns.Msg)
	msg.SetQuestion(q.name, qtype)
	msg.Response = true

	if vBool("claim.nxdomain") {
		msg.Rcode = dns.RcodeNameError
		if VerifyNameErrorNSEC(msg, set) == nil {
			vAssert("nxdomain-never-accepted-for-a-name-that-exists", q.deniable)
			vReach("some-denial-accepted")
		}
		return
	}
	if VerifyNODATANSEC(msg, set) != nil {
		return
	}
	vReach("some-denial-accepted")
	switch {
	case q.owner:
		vAssert("nodata-never-accepted-for-a-type-that-is-present", !c02zHas(c02zTypes(q.name), qtype) && !c02zHas(c02zTypes(q.name), dns.TypeCNAME))
		if q.cut {
			vAssert("nodata-at-a-zone-cut-only-for-ds", qtype == dns.TypeDS)
		}
	case q.wild:
		vAssert("nodata-never-accepted-for-a-type-that-is-present", qtype != dns.TypeTXT)
	case q.deniable:
		// the name does not exist at all: NODATA for it is not a true
		// statement about the zone either
		vAssert("nodata-never-accepted-for-a-type-that-is-present", false)
	default:
		// empty non-terminal (NODATA is the truth), or a name below a
		// cut / DNAME, about which this zone's records say nothing
		vAssert("nodata-at-a-zone-cut-only-for-ds", q.name == "w.example.")
	}
}

// VerifC02_AggressiveNSECZoneSoundness: the RFC 8198 classifier, whose
// verdicts become shared negative-cache state, over the same zone model: from
// any subset of the genuine chain it never synthesises an NXDOMAIN for a name
// that exists nor a NODATA for a type that is present (or, at a zone cut, for
// anything but DS), and never for a name the zone's records say nothing about.
//
//verif:entry tier=quick,thorough
//verif:also C19
//verif:expect synthesised-nxdomain-only-for-a-name-that-does-not-exist synthesised-nodata-only-for-an-absent-type synthesised-nodata-at-a-zone-cut-only-for-ds some-denial-synthesised
//verif:bound as VerifC02_NSECZoneSoundness (8-record chain, every subset, 19 query names, 6 query types), signer zone example.
//verif:outside NSEC3 (EvaluateAggressiveNSEC3: hashing is out of the encoder's reach); admission and expiry of the proof cache
func VerifC02_AggressiveNSECZoneSoundness() {
	var set []dns.RR
	for i, o := range c02zChain {
		if vBool("nsec.present") {
			next := c02zChain[(i+1)%len(c02zChain)].name
			set = append(set, &dns.NSEC{Hdr: dns.RR_Header{Name: o.name, Rrtype: dns.TypeNSEC, Class: dns.ClassINET, Ttl: 300}, NextDomain: next, TypeBitMap: o.types})
		}
	}
	q := c02zQueries[vChoice("qname", len(c02zQueries))]
	qtype := []uint16{dns.TypeA, dns.TypeTXT, dns.TypeNS, dns.TypeDS, dns.TypeCNAME, dns.TypeDNAME}[vChoice("qtype", 6)]
	res, err := EvaluateAggressiveNSEC(dns.Question{Name: q.name, Qtype: qtype, Qclass: dns.ClassINET}, "example.", set)
	if err != nil {
		return
	}
	vReach("some-denial-synthesised")
	if res.Rcode == dns.RcodeNameError {
		vAssert("synthesised-nxdomain-only-for-a-name-that-does-not-exist", q.deniable)
		return
	}
	switch {
	case q.owner:
		vAssert("synthesised-nodata-only-for-an-absent-type", res.Rcode == dns.RcodeSuccess && !c02zHas(c02zTypes(q.name), qtype) && !c02zHas(c02zTypes(q.name), dns.TypeCNAME))
		if q.cut {
			vAssert("synthesised-nodata-at-a-zone-cut-only-for-ds", qtype == dns.TypeDS)
		}
	case q.wild:
		vAssert("synthesised-nodata-only-for-an-absent-type", res.Rcode == dns.RcodeSuccess && qtype != dns.TypeTXT)
	case q.deniable:
		vAssert("synthesised-nodata-only-for-an-absent-type", false)
	default:
		// the empty non-terminal w.example. (NODATA is the truth); nothing
		// below a cut or a DNAME
		vAssert("synthesised-nodata-at-a-zone-cut-only-for-ds", q.name == "w.example.")
	}
}
