//go:build verif

//verif:pkg middleware
package middleware

import "time"

// c05Facts is what the documented packet grammar (DESIGN.md A.3) says about a
// packet, computed by a recogniser written from that grammar.
type c05Facts struct {
	id, flags, qtype, qclass uint16
	nameOff, nameLen, qEnd   int
	hasOPT                   bool
	udp                      uint16
	do                       bool
	version                  uint8
	ecs, nsid, keepalive     bool
	cookieOff, cookieLen     int
}

func c05U16(raw []byte, off int) uint16 { return uint16(raw[off])<<8 | uint16(raw[off+1]) }

func c05Spec(raw []byte) (bool, c05Facts) {
	var f c05Facts
	n := len(raw)
	if n < 12 {
		return false, f
	}
	f.id, f.flags = c05U16(raw, 0), c05U16(raw, 2)
	qd, an, ns, ar := c05U16(raw, 4), c05U16(raw, 6), c05U16(raw, 8), c05U16(raw, 10)
	if f.flags&0x8000 != 0 || (f.flags>>11)&0xF != 0 || qd != 1 || an != 0 || ns != 0 || ar > 1 {
		return false, f
	}
	// uncompressed name
	off := 12
	for {
		if off >= n {
			return false, f
		}
		c := int(raw[off])
		if c == 0 {
			break
		}
		if c >= 64 { // 0x40/0x80 reserved, 0xC0 pointer
			return false, f
		}
		if off+1+c > n {
			return false, f
		}
		off += 1 + c
	}
	off++ // root byte
	f.nameOff, f.nameLen = 12, off-12
	if f.nameLen > 255 || n-off < 4 {
		return false, f
	}
	f.qtype, f.qclass = c05U16(raw, off), c05U16(raw, off+2)
	off += 4
	f.qEnd = off
	if ar == 0 {
		return off == n, f
	}
	// one root OPT that consumes the packet exactly, extended rcode 0
	if n-off < 11 || raw[off] != 0 || c05U16(raw, off+1) != 41 {
		return false, f
	}
	f.hasOPT = true
	f.udp = c05U16(raw, off+3)
	ext := raw[off+5]
	f.version = raw[off+6]
	f.do = raw[off+7]&0x80 != 0
	rdlen := int(c05U16(raw, off+9))
	off += 11
	if off+rdlen != n || ext != 0 {
		return false, f
	}
	for off < n {
		if n-off < 4 {
			return false, f
		}
		code, l := c05U16(raw, off), int(c05U16(raw, off+2))
		off += 4
		if l > n-off {
			return false, f
		}
		switch code {
		case 10: // COOKIE
			if l < 8 || l > 40 || f.cookieLen != 0 {
				return false, f
			}
			f.cookieOff, f.cookieLen = off, l
		case 3: // NSID
			f.nsid = true
		case 8: // SUBNET
			if l < 4 {
				return false, f
			}
			fam, mask, scope := c05U16(raw, off), raw[off+2], raw[off+3]
			switch {
			case fam == 0 && mask == 0:
			case fam == 1 && mask <= 32 && scope <= 32:
			case fam == 2 && mask <= 128 && scope <= 128:
			default:
				return false, f
			}
			f.ecs = true
		case 12: // PADDING
		case 11: // KEEPALIVE
			if l != 0 && l != 2 {
				return false, f
			}
			f.keepalive = true
		default:
			return false, f
		}
		off += l
	}
	return true, f
}

func c05Check(raw []byte) {
	var r Request
	var got bool
	panicked := vTry(func() { got = r.ParseWire(raw, time.Time{}, nil) })
	vAssert("never-panics", !panicked)
	want, f := c05Spec(raw)
	vAssert("accepts-exactly-the-grammar", got == want)
	if !got {
		vAssert("refusal-leaves-no-facts", r.raw == nil && !r.hasOPT && r.cookieLen == 0 && r.nameLen == 0)
		return
	}
	vAssert("header-facts", r.ID() == f.id && r.flags == f.flags && r.Qtype() == f.qtype && r.Qclass() == f.qclass)
	vAssert("flag-accessors", r.RD() == (f.flags&0x0100 != 0) && r.CD() == (f.flags&0x0010 != 0) && r.AD() == (f.flags&0x0020 != 0) && r.Opcode() == 0)
	vAssert("question-region", r.nameOff == f.nameOff && r.nameLen == f.nameLen && r.WireQuestionEnd() == f.qEnd && len(r.WireName()) == f.nameLen)
	vAssert("opt-facts", r.HasOPT() == f.hasOPT && r.UDPSize() == f.udp && r.DO() == f.do && r.EDNSVersion() == f.version)
	vAssert("option-facts", r.HasECS() == f.ecs && r.HasNSID() == f.nsid && r.HasTCPKeepalive() == f.keepalive)
	vAssert("cookie-region", r.cookieLen == f.cookieLen && (f.cookieLen == 0 || r.cookieOff == f.cookieOff))
}

// VerifC05_ParseWireNoOPT: packets without additional records.
//
//verif:entry tier=quick,thorough
//verif:bound every packet of 0..20 bytes (quick) / 0..28 bytes (thorough) with ARCOUNT forced to 0 or >=2 by constraint or free; all byte values
func VerifC05_ParseWire() {
	max := 22
	if vTier() > 0 {
		max = 30
	}
	n := vChoice("len", max+1)
	c05Check(vBytes("pkt", n))
}

// VerifC05_ParseWireOPT: a fixed short question followed by an arbitrary
// additional section, so the OPT/option grammar gets the length budget.
//
//verif:entry tier=quick,thorough
//verif:bound header (12 symbolic bytes) + question "\\x01x\\x00" type/class symbolic + 0..19 (quick) / 0..27 (thorough) arbitrary trailing bytes
func VerifC05_ParseWireOPT() {
	max := 19
	if vTier() > 0 {
		max = 27
	}
	n := vChoice("tail", max+1)
	raw := vBytes("hdr", 12)
	raw = append(raw, 1, vU8("label"), 0)
	raw = append(raw, vBytes("tc", 4)...)
	raw = append(raw, vBytes("tail", n)...)
	c05Check(raw)
}

// VerifC05_ParseWireOneOption: the option grammar with room for long
// payloads (cookie 8..40 boundary, keepalive 0|2, subnet >= 4).
//
//verif:entry tier=quick,thorough
//verif:bound header + 1-octet question + 11 symbolic OPT header bytes + one option with symbolic code/length and a payload of 2,8,40,41 bytes (quick) / also 0,1,3,4,7,9,39,42 (thorough), optionally a second bare option header (thorough: also with 2 payload bytes); all other byte values; RDLEN and OPTION-LENGTH fields assumed consistent with the bytes present
func VerifC05_ParseWireOneOption() {
	lens := []int{2, 8, 40, 41, 0, 4, 1, 3, 7, 9, 39, 42}
	nl, ns := 4, 2
	if vTier() > 0 {
		nl, ns = len(lens), 3
	}
	raw := vBytes("hdr", 12)
	raw = append(raw, 1, vU8("label"), 0)
	raw = append(raw, vBytes("tc", 4)...)
	raw = append(raw, vBytes("opt", 11)...)
	raw = append(raw, vBytes("o1", 4)...)
	raw = append(raw, vBytes("p1", lens[vChoice("p1len", nl)])...)
	qEnd := 12 + 3 + 4
	l1 := len(raw) - (qEnd + 11 + 4)
	l2 := -1
	switch vChoice("second", ns) {
	case 1:
		raw = append(raw, vBytes("o2", 4)...)
		l2 = 0
	case 2:
		raw = append(raw, vBytes("o2", 4)...)
		raw = append(raw, vBytes("p2", 2)...)
		l2 = 2
	}
	// the framing is consistent (inconsistent framing is the subject of the
	// two general harnesses): RDLEN and each OPTION-LENGTH match the bytes present
	vAssume(int(c05U16(raw, qEnd+9)) == len(raw)-(qEnd+11))
	vAssume(int(c05U16(raw, qEnd+11+2)) == l1)
	if l2 >= 0 {
		vAssume(int(c05U16(raw, qEnd+11+4+l1+2)) == l2)
	}
	c05Check(raw)
}
