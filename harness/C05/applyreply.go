//go:build verif

//verif:pkg internal/wire
package wire

import (
	"github.com/miekg/dns"
)

// VerifC05_ApplyReplyEqualsSetReply: the header the byte path stamps on a
// stored reply is the header the message path builds for the same stored
// reply and the same request (Unpack, SetReply, the cache's own shaping, Pack).
//
//verif:entry tier=quick,thorough
//verif:expect byte-path-header-equals-message-path-header
//verif:bound every stored header (all 2^32 id/flag/rcode values; section counts zero so the header is a whole message), every request id, RD and CD; request opcode QUERY (the only opcode raw-packet admission and the listeners let through, VerifC05_ParseWire / VerifC06_AcceptHeader)
//verif:outside the AD bit (cleared by the caller on both paths, VerifC05_ComposedChaseHeader / VerifC04_ToMsgTTL); bodies with records (TTL rewrite is VerifC04's subject)
func VerifC05_ApplyReplyEqualsSetReply() {
	stored := vBytes("stored.header", 12)
	for i := 4; i < 12; i++ {
		vAssume(stored[i] == 0)
	}
	req := new(dns.Msg)
	req.Id = vU16("req.id")
	req.RecursionDesired, req.CheckingDisabled = vBool("req.rd"), vBool("req.cd")

	// message path, as CacheEntry.ToMsg does it
	resp := new(dns.Msg)
	err := resp.Unpack(append([]byte(nil), stored...))
	vAssume(err == nil)
	rcode := resp.Rcode
	resp.SetReply(req)
	resp.Rcode = rcode
	resp.Id = req.Id
	resp.Authoritative = false
	want, perr := resp.Pack()
	vAssume(perr == nil)

	// byte path
	got := append([]byte(nil), stored...)
	ApplyReply(got, req.Id, req.Opcode, req.RecursionDesired, req.CheckingDisabled)

	const ad = 0x20 // low flag octet
	same := len(want) >= 12 && got[0] == want[0] && got[1] == want[1] && got[2] == want[2] && got[3]&^ad == want[3]&^ad
	for i := 4; i < 12; i++ {
		same = same && got[i] == want[i]
	}
	vAssert("byte-path-header-equals-message-path-header", same)
}
