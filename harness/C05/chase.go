//go:build verif

//verif:pkg middleware/cache
package cache

import (
	"time"

	"github.com/semihalev/sdns/middleware"
)

// VerifC05_ComposedChaseHeader: the header of a reply composed on the wire
// path from several cached hops is what the decoded path would say: the
// client's id/opcode/RD/CD echoed, QR set, AA clear, one question, the summed
// answer count, and AD only if EVERY hop was validated and the client did not
// set CD - whatever AD bit the alias entry's own stored header carries.
//
//verif:entry tier=quick,thorough
//verif:also C01 C06
//verif:bound client query: symbolic id, RD, CD, AD bits over a fixed one-label question; 2 (quick) / 3 (thorough) cached hops, each with a symbolic stored header (all flag bits, rcode) and per-hop validation verdict = its stored AD bit, symbolic DNSSEC flag; answer records not recomposed (hop answer counts 0)
func VerifC05_ComposedChaseHeader() {
	hdr := vBytes("q.hdr", 4)
	raw := []byte{hdr[0], hdr[1], hdr[2] & 0x01, hdr[3] & 0x30, 0, 1, 0, 0, 0, 0, 0, 0, 1, 'w', 0, 0, 1, 0, 1}
	var req middleware.Request
	vAssume(req.ParseWire(raw, time.Time{}, nil))
	n := 2
	if vTier() > 0 {
		n = 3
	}
	segs := make([]wireChaseSegment, n)
	allAD := true
	for i := range segs {
		body := append(vBytes("hop.hdr", 12), 1, 'w', 0, 0, 1, 0, 1)
		// as collectWireChase builds it: a hop's verdict is its stored header's AD bit
		segs[i] = wireChaseSegment{body: body, ansOff: len(body), ad: body[3]&0x20 != 0}
		if vBool("hop.dnssec") {
			segs[i].flags = wireHasDNSSEC
		}
		allAD = allAD && segs[i].ad
	}
	storedRA := segs[0].body[3]&0x80 != 0
	dst := make([]byte, 0, 64)
	out, info, ok := composeWireChase(dst, &req, new(CacheEntry), segs)
	vAssert("composed", ok && len(out) == 12+7)
	vAssert("id-echoed", out[0] == raw[0] && out[1] == raw[1])
	vAssert("qr-set-aa-clear-opcode-query", out[2]&0x80 != 0 && out[2]&0x04 == 0 && out[2]&0x78 == 0)
	vAssert("rd-and-cd-echoed", out[2]&0x01 == raw[2]&0x01 && out[3]&0x10 == raw[3]&0x10)
	vAssert("ra-as-stored", (out[3]&0x80 != 0) == storedRA)
	vAssert("counts", out[4] == 0 && out[5] == 1 && out[6] == 0 && out[7] == 0 && out[8] == 0 && out[9] == 0 && out[10] == 0 && out[11] == 0)
	adOnWire := out[3]&0x20 != 0
	clientCD := raw[3]&0x10 != 0
	vAssert("ad-only-if-every-hop-validated-and-not-cd", adOnWire == (allAD && !clientCD))
	vAssert("declared-ad-matches-the-wire", info.AuthenticatedData == adOnWire)
	same := true
	for i := 12; i < 19; i++ {
		same = same && out[i] == raw[i]
	}
	vAssert("question-echoed", same)
}
