//go:build verif

//verif:pkg middleware/edns
package edns

import (
	"hash"
	"net"

	"github.com/miekg/dns"
	"github.com/semihalev/sdns/middleware"
)

// Both paths derive the server cookie as SHA-256 over a preimage they build
// themselves. The hash is replaced by one that records the preimage and
// answers with a fixed digest, so "same cookie" is decided by "same octets
// hashed".
type c05oHash struct{ buf []byte }

var c05oPre [][]byte

func (h *c05oHash) Write(p []byte) (int, error) { h.buf = append(h.buf, p...); return len(p), nil }
func (h *c05oHash) Sum(b []byte) []byte {
	c05oPre = append(c05oPre, h.buf)
	for i := 0; i < 32; i++ {
		b = append(b, 0xAB)
	}
	return b
}
func (h *c05oHash) Reset()         { h.buf = nil }
func (h *c05oHash) Size() int      { return 32 }
func (h *c05oHash) BlockSize() int { return 64 }

//verif:stub crypto/sha256.New = c05oNew
//verif:stub crypto/sha256.Sum256 = c05oSum256
//verif:stub middleware/edns.udpOverflow = c05oFits
func c05oNew() hash.Hash { return new(c05oHash) }

func c05oSum256(data []byte) [32]byte {
	c05oPre = append(c05oPre, append([]byte(nil), data...))
	var out [32]byte
	for i := range out {
		out[i] = 0xAB
	}
	return out
}

func c05oFits(m *dns.Msg, limit int) bool { return false }

type c05oSink struct {
	proto string
	msg   *dns.Msg
	wire  []byte
}

func (s *c05oSink) LocalAddr() net.Addr         { return nil }
func (s *c05oSink) RemoteAddr() net.Addr        { return nil }
func (s *c05oSink) WriteMsg(m *dns.Msg) error   { s.msg = m; return nil }
func (s *c05oSink) Write(b []byte) (int, error) { return len(b), nil }
func (s *c05oSink) Close() error                { return nil }
func (s *c05oSink) Msg() *dns.Msg               { return s.msg }
func (s *c05oSink) Rcode() int                  { return 0 }
func (s *c05oSink) Written() bool               { return s.msg != nil || s.wire != nil }
func (s *c05oSink) Proto() string               { return s.proto }
func (s *c05oSink) RemoteIP() net.IP            { return net.IP{192, 0, 2, 1} }
func (s *c05oSink) Internal() bool              { return false }
func (s *c05oSink) WireReady() (middleware.WireCapability, bool) {
	return middleware.WireCapability{}, true
}
func (s *c05oSink) WriteWire(body []byte, info middleware.WireInfo) error {
	s.wire = body
	return nil
}

func c05oWriter(sink *c05oSink, nsidstr string, do, noad, asked, keep bool, cookie []byte) *ResponseWriter {
	w := &ResponseWriter{ResponseWriter: sink, EDNS: &EDNS{cookiesecret: "s3cr3t", nsidstr: nsidstr}, size: 1200, respUDPSize: 1232}
	w.do, w.noad, w.nsid, w.keepalive = do, noad, asked, keep
	if cookie != nil {
		w.hasCookieRaw = true
		copy(w.cookieRaw[:], cookie)
	}
	return w
}

type c05oOpt struct {
	code uint16
	a, b string
	n    uint16
}

func c05oOptions(o *dns.OPT) []c05oOpt {
	var out []c05oOpt
	for _, e := range o.Option {
		switch x := e.(type) {
		case *dns.EDNS0_COOKIE:
			out = append(out, c05oOpt{code: dns.EDNS0COOKIE, a: x.Cookie})
		case *dns.EDNS0_NSID:
			out = append(out, c05oOpt{code: dns.EDNS0NSID, a: x.Nsid})
		case *dns.EDNS0_TCP_KEEPALIVE:
			out = append(out, c05oOpt{code: dns.EDNS0TCPKEEPALIVE, n: x.Timeout})
		case *dns.EDNS0_EDE:
			out = append(out, c05oOpt{code: dns.EDNS0EDE, n: x.InfoCode, b: x.ExtraText})
		default:
			out = append(out, c05oOpt{code: e.Option()})
		}
	}
	return out
}

// VerifC05_WireOPTEqualsMsgOPT: the OPT record the byte path appends decodes
// to the OPT the message path attaches for the same client facts - size, DO,
// version, extended rcode bits and the options (server cookie over the same
// hashed octets, NSID, keepalive, Extended DNS Error) in the same order - and
// the header's AD bit is shaped the same way.
//
//verif:entry tier=quick,thorough
//verif:also C06
//verif:expect byte-path-opt-decodes byte-path-opt-equals-message-path-opt server-cookie-hashes-the-same-octets ad-shaped-alike
//verif:bound client facts: DO, no-AD, cookie absent or 8 arbitrary octets, NSID asked or not with a configured NSID of 0 or 11 octets, keepalive (TCP) or not; reply: stored AD bit, Extended DNS Error absent or (code 13, fixed text); UDP or TCP; negotiated size 1232 (no truncation)
//verif:outside truncation (VerifC06_WireReplyWithinUDPCeiling, VerifC06_EdnsWriteMsg); replies that already carry an upstream OPT; the SHA-256 compression function (recording stub)
func VerifC05_WireOPTEqualsMsgOPT() {
	c05oPre = nil
	proto := []string{"udp", "tcp"}[vChoice("proto", 2)]
	do, noad, asked := vBool("client.do"), vBool("client.noad"), vBool("client.asked.nsid")
	keep := proto == "tcp" && vBool("client.keepalive")
	nsidstr := []string{"", "resolver-a1"}[vChoice("nsid.config", 2)]
	var cookie []byte
	if vBool("client.cookie") {
		cookie = vBytes("client.cookie.octets", 8)
	}
	ad := vBool("stored.ad")
	ede := vBool("reply.ede")

	// byte path
	ws := &c05oSink{proto: proto}
	w1 := c05oWriter(ws, nsidstr, do, noad, asked, keep, cookie)
	body := make([]byte, 12, 256)
	body[2] = 0x80
	if ad {
		body[3] |= 0x20
	}
	info := middleware.WireInfo{AuthenticatedData: ad}
	if ede {
		info.HasEDE, info.EDECode, info.EDEText = true, dns.ExtendedErrorCodeCachedError, "Cached recursion failure"
	}
	err := w1.WriteWire(body, info)
	vAssume(err == nil && ws.wire != nil)
	nWire := len(c05oPre)
	got := new(dns.Msg)
	uerr := got.Unpack(ws.wire)
	vAssert("byte-path-opt-decodes", uerr == nil && got.IsEdns0() != nil && len(got.Extra) == 1)
	gotOpt := got.IsEdns0()

	// message path, as the cache's message body hands it down
	ms := &c05oSink{proto: proto}
	w2 := c05oWriter(ms, nsidstr, do, noad, asked, keep, cookie)
	m := new(dns.Msg)
	m.Response = true
	m.AuthenticatedData = ad
	if ede {
		o := &dns.OPT{Hdr: dns.RR_Header{Name: ".", Rrtype: dns.TypeOPT}}
		o.Option = []dns.EDNS0{&dns.EDNS0_EDE{InfoCode: dns.ExtendedErrorCodeCachedError, ExtraText: "Cached recursion failure"}}
		m.Extra = []dns.RR{o}
	}
	merr := w2.WriteMsg(m)
	vAssume(merr == nil && ms.msg != nil)
	packed, perr := ms.msg.Pack()
	vAssume(perr == nil)
	want := new(dns.Msg)
	vAssume(want.Unpack(packed) == nil)
	wantOpt := want.IsEdns0()
	vAssume(wantOpt != nil)

	same := gotOpt.UDPSize() == wantOpt.UDPSize() && gotOpt.Do() == wantOpt.Do() && gotOpt.Version() == wantOpt.Version() && gotOpt.ExtendedRcode() == wantOpt.ExtendedRcode()
	g, wnt := c05oOptions(gotOpt), c05oOptions(wantOpt)
	same = same && len(g) == len(wnt)
	if same {
		// the two paths may order their options differently; compare as sets
		for _, x := range g {
			found := false
			for _, y := range wnt {
				if x == y {
					found = true
				}
			}
			same = same && found
		}
	}
	vAssert("byte-path-opt-equals-message-path-opt", same)
	vAssert("ad-shaped-alike", got.AuthenticatedData == want.AuthenticatedData)
	if cookie != nil {
		ok := nWire >= 1 && len(c05oPre) > nWire
		if ok {
			a, b := c05oPre[nWire-1], c05oPre[len(c05oPre)-1]
			ok = len(a) == len(b)
			for i := 0; ok && i < len(a); i++ {
				ok = a[i] == b[i]
			}
		}
		vAssert("server-cookie-hashes-the-same-octets", ok)
	}
}
