//go:build verif

//verif:pkg middleware/dns64
package dns64

import (
	"context"
	"net"

	"github.com/miekg/dns"
)

type c20Sink struct {
	got   *dns.Msg
	calls int
}

func (s *c20Sink) LocalAddr() net.Addr         { return nil }
func (s *c20Sink) RemoteAddr() net.Addr        { return nil }
func (s *c20Sink) WriteMsg(m *dns.Msg) error   { s.got = m; s.calls++; return nil }
func (s *c20Sink) Write(b []byte) (int, error) { return len(b), nil }
func (s *c20Sink) Close() error                { return nil }
func (s *c20Sink) Msg() *dns.Msg               { return s.got }
func (s *c20Sink) Rcode() int                  { return 0 }
func (s *c20Sink) Written() bool               { return s.calls > 0 }
func (s *c20Sink) Proto() string               { return "udp" }
func (s *c20Sink) RemoteIP() net.IP            { return net.IP{192, 0, 2, 1} }
func (s *c20Sink) Internal() bool              { return false }

// c20Queryer is the secondary A lookup: an arbitrary outcome.
type c20Queryer struct {
	calls int
	resp  *dns.Msg
	as    []*dns.A
}

func (q *c20Queryer) Query(ctx context.Context, req *dns.Msg) (*dns.Msg, error) {
	q.calls++
	vAssert("secondary-lookup-asks-A-for-the-same-name", len(req.Question) == 1 && req.Question[0].Qtype == dns.TypeA && req.Question[0].Name == "host.example.")
	switch vChoice("a.outcome", 4) {
	case 0:
		return nil, errVerif
	case 1:
		return nil, nil
	case 2:
		r := new(dns.Msg)
		r.Rcode = dns.RcodeServerFailure
		q.resp = r
		return r, nil
	}
	r := new(dns.Msg)
	r.Response = true
	owner := "host.example."
	if vBool("a.viaCNAME") {
		r.Answer = append(r.Answer, &dns.CNAME{Hdr: dns.RR_Header{Name: "host.example.", Rrtype: dns.TypeCNAME, Class: dns.ClassINET, Ttl: vU32("cname.ttl")}, Target: "real.example."})
		owner = "real.example."
	}
	n := vChoice("a.count", 3)
	for i := 0; i < n; i++ {
		a := &dns.A{Hdr: dns.RR_Header{Name: owner, Rrtype: dns.TypeA, Class: dns.ClassINET, Ttl: vU32("a.ttl")}, A: net.IP(vBytes("a.addr", 4))}
		r.Answer = append(r.Answer, a)
		q.as = append(q.as, a)
	}
	q.resp = r
	return r, nil
}

var c20DNSSECCodes = map[uint16]bool{1: true, 2: true, 27: true, 5: true, 6: true, 7: true, 8: true, 9: true, 10: true, 11: true, 12: true}

// VerifC20_Dispatch: when the AAAA reply may be replaced by a synthesis and
// when it must be passed through untouched.
//
//verif:entry tier=quick,thorough
//verif:bound upstream AAAA reply: rcode in {NOERROR, SERVFAIL, NXDOMAIN, REFUSED}, AD symbolic, no OPT / OPT with 0-2 Extended DNS Errors of any 16-bit code, answer empty or one native AAAA, authority with/without SOA (symbolic ttl/minimum); secondary A lookup: error / nil / SERVFAIL / 0-2 A records (symbolic ttl, address) with or without a CNAME; one /96 prefix with symbolic bytes
func VerifC20_Dispatch() {
	pfx := make(net.IP, 16)
	copy(pfx, vBytes("pfx", 12))
	vAssume(pfx[8] == 0)
	p := &net.IPNet{IP: pfx, Mask: net.CIDRMask(96, 128)}
	q := new(c20Queryer)
	d := &DNS64{cfg: &compiled{prefixes: []compiledPrefix{{net: p}}}, queryer: q}
	req := new(dns.Msg)
	req.Question = []dns.Question{{Name: "host.example.", Qtype: dns.TypeAAAA, Qclass: dns.ClassINET}}
	req.RecursionDesired = true
	sink := new(c20Sink)
	w := &responseWriter{ResponseWriter: sink, d: d, ctx: context.Background(), req: req, qname: "host.example."}

	m := new(dns.Msg)
	m.Response = true
	m.Question = req.Question
	m.Rcode = []int{dns.RcodeSuccess, dns.RcodeServerFailure, dns.RcodeNameError, dns.RcodeRefused}[vChoice("rcode", 4)]
	m.AuthenticatedData = vBool("ad")
	var codes []uint16
	if vBool("hasOPT") {
		opt := &dns.OPT{Hdr: dns.RR_Header{Name: ".", Rrtype: dns.TypeOPT}}
		n := vChoice("ede.count", 3)
		for i := 0; i < n; i++ {
			c := vU16("ede.code")
			codes = append(codes, c)
			opt.Option = append(opt.Option, &dns.EDNS0_EDE{InfoCode: c})
		}
		m.Extra = []dns.RR{opt}
	}
	nativeAAAA := false
	if m.Rcode == dns.RcodeSuccess && vBool("nativeAAAA") {
		nativeAAAA = true
		m.Answer = []dns.RR{&dns.AAAA{Hdr: dns.RR_Header{Name: "host.example.", Rrtype: dns.TypeAAAA, Class: dns.ClassINET, Ttl: 60}, AAAA: net.IP(vBytes("native", 16))}}
	}
	negTTL := uint32(600)
	if vBool("hasSOA") {
		soa := &dns.SOA{Hdr: dns.RR_Header{Name: "example.", Rrtype: dns.TypeSOA, Class: dns.ClassINET, Ttl: vU32("soa.ttl")}, Ns: "ns.example.", Mbox: "h.example.", Minttl: vU32("soa.min")}
		m.Ns = []dns.RR{soa}
		t := soa.Hdr.Ttl
		if soa.Minttl > 0 && soa.Minttl < t {
			t = soa.Minttl
		}
		if t > 0 {
			negTTL = t
		}
	}

	err := w.WriteMsg(m)
	out := sink.got
	vAssert("exactly-one-reply", err == nil && sink.calls == 1 && out != nil)
	vAssert("at-most-one-secondary-lookup", q.calls <= 1)

	dnssecFail, cachedFail := false, false
	for _, c := range codes {
		if m.Rcode == dns.RcodeServerFailure && c20DNSSECCodes[c] {
			dnssecFail = true
		}
		if m.Rcode == dns.RcodeServerFailure && c == dns.ExtendedErrorCodeCachedError {
			cachedFail = true
		}
	}
	if m.Rcode == dns.RcodeNameError || dnssecFail || cachedFail {
		vAssert("terminal-reply-passed-through-untouched", out == m && q.calls == 0)
		return
	}
	if nativeAAAA {
		vAssert("usable-native-AAAA-not-replaced", out == m && q.calls == 0)
		return
	}
	synthesised := 0
	for _, rr := range out.Answer {
		aaaa, ok := rr.(*dns.AAAA)
		if !ok {
			continue
		}
		synthesised++
		// it must be the RFC 6052 /96 embedding of one of the A records, with that record's owner
		match := false
		for _, a := range q.as {
			same := aaaa.Hdr.Name == a.Hdr.Name && len(aaaa.AAAA) == 16 && aaaa.Hdr.Ttl <= a.Hdr.Ttl
			for i := 0; i < 12; i++ {
				same = same && aaaa.AAAA[i] == pfx[i]
			}
			for i := 0; i < 4; i++ {
				same = same && aaaa.AAAA[12+i] == a.A[i]
			}
			match = match || same
		}
		vAssert("every-AAAA-is-the-embedding-of-an-A", match)
		vAssert("ttl-within-negative-ttl", aaaa.Hdr.Ttl <= negTTL)
	}
	if synthesised > 0 {
		vAssert("synthesis-never-carries-AD", !out.AuthenticatedData)
		vAssert("synthesis-answers-the-client-question", len(out.Question) == 1 && out.Question[0].Qtype == dns.TypeAAAA && out.Rcode == dns.RcodeSuccess)
	}
	if out != m {
		vAssert("rewritten-reply-never-carries-AD", !out.AuthenticatedData)
	}
}
