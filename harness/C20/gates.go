//go:build verif

//verif:pkg middleware/dns64
package dns64

import (
	"context"
	"net"

	"github.com/miekg/dns"
	"github.com/semihalev/sdns/middleware"
)

type c20Transport struct {
	internal bool
}

func (t *c20Transport) LocalAddr() net.Addr         { return nil }
func (t *c20Transport) RemoteAddr() net.Addr        { return &net.UDPAddr{IP: net.IP{10, 9, 8, 7}, Port: 5353} }
func (t *c20Transport) WriteMsg(m *dns.Msg) error   { return nil }
func (t *c20Transport) Write(b []byte) (int, error) { return len(b), nil }
func (t *c20Transport) Close() error                { return nil }
func (t *c20Transport) Internal() bool              { return t.internal }

var c20G struct {
	next    int
	wrapped bool
}

// downstream is a sink: it records whether the writer it sees is DNS64's wrapper
//
//verif:stub (*middleware.Chain).Next = c20NextSink
func c20NextSink(ch *middleware.Chain, ctx context.Context) {
	c20G.next++
	_, c20G.wrapped = ch.Writer.(*responseWriter)
}

// VerifC20_Gates: the AAAA reply may be rewritten (the writer is wrapped) only
// for a recursion-desired, non-CD, class-IN AAAA query from an eligible client
// for a non-excluded zone. Only that direction is the property: a further
// gate (the code has one for resolver-internal sub-queries) is not a breach.
//
//verif:entry tier=quick,thorough
//verif:expect rewrite-armed-only-when-every-gate-passes
//verif:bound decoded request with symbolic RD, CD, qclass, qtype in {A, AAAA, PTR, MX}; internal flag symbolic; client network list empty / containing / not containing the client; excluded-zone list empty / covering / not covering the name
func VerifC20_Gates() {
	c20G.next, c20G.wrapped = 0, false
	cfg := &compiled{prefixes: []compiledPrefix{{net: mustCIDR("64:ff9b::/96"), wellKnown: true}}}
	eligible := true
	switch vChoice("clients", 3) {
	case 1:
		cfg.clientNetworks = []*net.IPNet{mustCIDR("10.0.0.0/8")}
	case 2:
		cfg.clientNetworks = []*net.IPNet{mustCIDR("192.168.0.0/16")}
		eligible = false
	}
	excluded := false
	switch vChoice("zones", 3) {
	case 1:
		cfg.excludeZones = []string{"example."}
		excluded = true
	case 2:
		cfg.excludeZones = []string{"other."}
	}
	d := &DNS64{cfg: cfg}
	d.pool.New = func() any { return &responseWriter{} }
	req := new(dns.Msg)
	qtype := []uint16{dns.TypeA, dns.TypeAAAA, dns.TypePTR, dns.TypeMX}[vChoice("qtype", 4)]
	qclass := vU16("qclass")
	req.Question = []dns.Question{{Name: "Host.Example.", Qtype: qtype, Qclass: qclass}}
	req.RecursionDesired = vBool("rd")
	req.CheckingDisabled = vBool("cd")
	t := &c20Transport{internal: vBool("internal")}
	ch := middleware.NewChain(nil)
	ch.Reset(t, req)
	d.ServeDNS(context.Background(), ch)
	vAssert("query-continues-exactly-once", c20G.next == 1)
	may := req.RecursionDesired && !req.CheckingDisabled && qclass == dns.ClassINET && qtype == dns.TypeAAAA && eligible && !excluded
	if c20G.wrapped {
		vAssert("rewrite-armed-only-when-every-gate-passes", may)
	}
	_, still := ch.Writer.(*responseWriter)
	vAssert("wrapper-removed-afterwards", !still)
}
