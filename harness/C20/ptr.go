//go:build verif

//verif:pkg middleware/dns64
package dns64

import (
	"context"
	"net"

	"github.com/miekg/dns"
	"github.com/semihalev/sdns/middleware"
)

type c20pTransport struct{ msgs []*dns.Msg }

func (t *c20pTransport) LocalAddr() net.Addr         { return nil }
func (t *c20pTransport) RemoteAddr() net.Addr        { return &net.UDPAddr{IP: net.IP{10, 9, 8, 7}, Port: 5353} }
func (t *c20pTransport) WriteMsg(m *dns.Msg) error   { t.msgs = append(t.msgs, m); return nil }
func (t *c20pTransport) Write(b []byte) (int, error) { return len(b), nil }
func (t *c20pTransport) Close() error                { return nil }

var c20pTargets []net.IP

// The decimal spelling of the in-addr.arpa name is not the subject: the sink
// records which IPv4 address the reverse name was mapped back to.
//
//verif:stub middleware/dns64.inAddrArpa = c20pArpa
func c20pArpa(v4 net.IP) string {
	c20pTargets = append(c20pTargets, append(net.IP(nil), v4...))
	return "4.3.2.1.in-addr.arpa."
}

var c20pPrefixes = []string{"2001:db8:122:344::/96", "2001:db8::/32", "2001:db8:100::/40", "2001:db8:122::/48", "2001:db8:122:300::/56", "2001:db8:122:344::/64"}

const c20pHex = "0123456789abcdef"

func c20pName(a net.IP, upper []byte) string {
	var b []byte
	for i := 15; i >= 0; i-- {
		for _, nib := range []byte{a[i] & 0xF, a[i] >> 4} {
			c := c20pHex[nib]
			b = append(b, c, '.')
		}
	}
	_ = upper
	return string(b) + "ip6.arpa."
}

// VerifC20_PTRRoundTrip: the reverse name of a synthesised address maps back
// to the IPv4 address it was synthesised from, and a reverse name outside the
// configured prefixes is left to ordinary resolution.
//
//verif:entry tier=quick,thorough
//verif:expect reverse-of-a-synthesised-address-is-translated reverse-maps-back-to-the-same-ipv4 reply-is-a-cname-owned-by-the-question foreign-reverse-name-is-not-translated
//verif:bound one configured prefix: the /96 form (quick) or any of the six RFC 6052 lengths (thorough), non-well-known, alone or listed after an overlapping 2001:db8::/32; every IPv4 address; the reverse name spelled in lower-case nibbles; a second case with the address moved outside the prefix (first octet flipped)
//verif:outside upper-case nibble spellings (ServeDNS lower-cases the name before this point); the best-effort PTR chase behind the CNAME (no queryer configured); the well-known prefix's exclusion list (VerifC20_Dispatch)
func VerifC20_PTRRoundTrip() {
	c20pTargets = nil
	n := 1
	if vTier() > 0 {
		n = len(c20pPrefixes)
	}
	p := mustCIDR(c20pPrefixes[vChoice("prefix", n)])
	cfg := &compiled{prefixes: []compiledPrefix{{net: p}}}
	overlap := vBool("overlapping.shorter.prefix.first")
	short := mustCIDR("2001:db8::/32")
	if overlap {
		// a shorter prefix that also contains the synthesised address but
		// under which it is not a well-formed embedding: translation must
		// go on to the prefix it was synthesised under
		cfg.prefixes = []compiledPrefix{{net: short}, {net: p}}
	}
	d := &DNS64{cfg: cfg}
	v4 := net.IP(vBytes("v4", 4))
	addr := embedIPv4(p, v4)
	foreign := vBool("outside.prefix")
	if foreign {
		addr[0] ^= 0x10
	}
	if overlap && !foreign {
		// an address that happens to be a well-formed embedding under both
		// prefixes is genuinely ambiguous (either IPv4 is a right answer):
		// outside the claim
		_, both := extractIPv4(short, addr)
		vAssume(!both)
	}
	qname := c20pName(addr, nil)
	req := new(dns.Msg)
	req.Id = vU16("id")
	req.RecursionDesired = true
	req.Question = []dns.Question{{Name: qname, Qtype: dns.TypePTR, Qclass: dns.ClassINET}}
	t := new(c20pTransport)
	ch := middleware.NewChain(nil)
	ch.Reset(t, req)
	handled := d.handlePTR(context.Background(), ch, qname)

	if foreign {
		vAssert("foreign-reverse-name-is-not-translated", !handled && len(t.msgs) == 0 && len(c20pTargets) == 0)
		return
	}
	vAssert("reverse-of-a-synthesised-address-is-translated", handled && len(t.msgs) == 1 && len(c20pTargets) == 1)
	got := c20pTargets[0].To4()
	vAssert("reverse-maps-back-to-the-same-ipv4", got != nil && got[0] == v4[0] && got[1] == v4[1] && got[2] == v4[2] && got[3] == v4[3])
	m := t.msgs[0]
	ok := m.Response && m.Id == req.Id && len(m.Answer) >= 1 && !m.AuthenticatedData
	if ok {
		c, isC := m.Answer[0].(*dns.CNAME)
		ok = isC && c.Hdr.Name == qname && c.Target == "4.3.2.1.in-addr.arpa."
	}
	vAssert("reply-is-a-cname-owned-by-the-question", ok)
}
