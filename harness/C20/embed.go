//go:build verif

//verif:pkg middleware/dns64
package dns64

import "net"

// rfc6052Pos is the RFC 6052 §2.2 table written out independently of the
// implementation: for each legal prefix length, the byte positions of the
// four IPv4 octets inside the 16-byte address.
func rfc6052Pos(bits int) [4]int {
	switch bits {
	case 32:
		return [4]int{4, 5, 6, 7}
	case 40:
		return [4]int{5, 6, 7, 9}
	case 48:
		return [4]int{6, 7, 9, 10}
	case 56:
		return [4]int{7, 9, 10, 11}
	case 64:
		return [4]int{9, 10, 11, 12}
	}
	return [4]int{12, 13, 14, 15}
}

var legalBits = [6]int{32, 40, 48, 56, 64, 96}

// vPref64 builds a configured prefix the way net.ParseCIDR does: symbolic
// bytes, masked to the prefix length.
func vPref64(bits int) *net.IPNet {
	ip := make(net.IP, 16)
	copy(ip, vBytes("pfx", 16))
	mask := net.CIDRMask(bits, 128)
	return &net.IPNet{IP: ip.Mask(mask), Mask: mask}
}

// VerifC20_EmbedRoundTrip: for every legal length, every prefix and all 2^32
// IPv4 addresses, embed puts the octets where RFC 6052 says, keeps the prefix,
// zeroes octet 8 and the suffix, and extract inverts it.
//
//verif:entry tier=quick,thorough
//verif:bound 6 legal prefix lengths x all 2^128 prefix byte values x all 2^32 IPv4 addresses
func VerifC20_EmbedRoundTrip() {
	bits := legalBits[vChoice("len", 6)]
	p := vPref64(bits)
	if err := validatePrefix(p); err != nil {
		vAssert("only-96-with-u-octet-refused", bits == 96 && p.IP[8] != 0)
		return
	}
	vAssert("96-needs-zero-u-octet", bits != 96 || p.IP[8] == 0)
	v4 := net.IP(vBytes("v4", 4))
	out := embedIPv4(p, v4)
	vAssert("len16", len(out) == 16)
	pos := rfc6052Pos(bits)
	used := [16]bool{}
	ok := true
	for i := 0; i < 4; i++ {
		ok = ok && out[pos[i]] == v4[i]
		used[pos[i]] = true
	}
	vAssert("octets-at-rfc6052-positions", ok)
	pfxOK, restZero := true, true
	for i := 0; i < 16; i++ {
		if used[i] {
			continue
		}
		if i < bits/8 {
			pfxOK = pfxOK && out[i] == p.IP[i]
		} else {
			restZero = restZero && out[i] == 0
		}
	}
	vAssert("prefix-preserved", pfxOK)
	vAssert("u-octet-and-suffix-zero", restZero && out[8] == 0)
	// (no assertion against net.IPNet.Contains: it unmaps IPv4-mapped-looking
	// addresses first and is not the RFC 6052 containment; "prefix-preserved"
	// above is the byte-level statement.)
	back, found := extractIPv4(p, out)
	vAssert("extract-inverts", found && len(back) == 4 && back[0] == v4[0] && back[1] == v4[1] && back[2] == v4[2] && back[3] == v4[3])
	// synthesizeAAAA uses the same embedding and the caller's owner/ttl
}

// VerifC20_ExtractExact: for any address, extract succeeds exactly when the
// address is inside the prefix with the reserved octet and suffix zero, and
// then embed(extract(a)) == a (so the ip6.arpa mapping is a bijection).
//
//verif:entry tier=quick,thorough
//verif:bound 6 legal prefix lengths x all prefixes x all 2^128 addresses
func VerifC20_ExtractExact() {
	bits := legalBits[vChoice("len", 6)]
	p := vPref64(bits)
	vAssume(validatePrefix(p) == nil)
	a := net.IP(vBytes("a", 16))
	pos := rfc6052Pos(bits)
	used := [16]bool{}
	for i := 0; i < 4; i++ {
		used[pos[i]] = true
	}
	inPfx, restZero := true, true
	for i := 0; i < 16; i++ {
		if i < bits/8 {
			inPfx = inPfx && a[i] == p.IP[i]
		} else if !used[i] {
			restZero = restZero && a[i] == 0
		}
	}
	want := inPfx && restZero && a[8] == 0
	back, found := extractIPv4(p, a)
	vAssert("extract-iff-conformant", found == want)
	if found {
		vAssert("extract-reads-rfc6052-positions", back[0] == a[pos[0]] && back[1] == a[pos[1]] && back[2] == a[pos[2]] && back[3] == a[pos[3]])
		again := embedIPv4(p, back)
		same := true
		for i := 0; i < 16; i++ {
			same = same && again[i] == a[i]
		}
		vAssert("embed-extract-identity", same)
	}
}

// VerifC20_IllegalLengths: every mask length other than the six legal ones is
// refused, as is an IPv4 mask.
//
//verif:entry tier=quick,thorough
//verif:bound all 129 IPv6 mask lengths, IPv4 masks 0..32, nil prefix
func VerifC20_IllegalLengths() {
	bits := vChoice("bits", 129)
	p := vPref64(bits)
	legal := bits == 32 || bits == 40 || bits == 48 || bits == 56 || bits == 64 || bits == 96
	err := validatePrefix(p)
	if !legal {
		vAssert("illegal-length-refused", err != nil)
	} else {
		vAssert("legal-length-accepted-unless-u-octet", (err == nil) == (bits != 96 || p.IP[8] == 0))
	}
	if bits <= 32 {
		q := &net.IPNet{IP: net.IP(vBytes("v4net", 4)), Mask: net.CIDRMask(bits, 32)}
		vAssert("ipv4-prefix-refused", validatePrefix(q) != nil)
	}
	if bits == 0 {
		vAssert("nil-refused", validatePrefix(nil) != nil)
	}
}
