//go:build verif

//verif:pkg middleware/resolver
package resolver

import (
	"encoding/gob"
	"io"
	"os"

	"github.com/miekg/dns"
)

// A three-cell file-system model: the target name, one temp file, the
// directory entry. Every call can fail (symbolic error) and the harness
// checks the crash-safety invariant after every step, so "a crash after any
// prefix of the persistence steps" is covered by construction.
const (
	c09Old = iota // previous complete content
	c09New        // new complete content, durable
	c09Torn       // name points at data that may be incomplete after a crash
)

var c09FS struct {
	target      int
	tmpExists   bool
	tmpComplete bool
	tmpSynced   bool
	tmpClosed   bool
	renamed     bool
	dirSynced   bool
	dirOpen     bool
	steps       int
	tmp, dir    *os.File
}

func c09Step() {
	c09FS.steps++
	// the invariant that must hold at every possible crash point
	vAssert("target-never-torn", c09FS.target != c09Torn)
}

//verif:stub os.CreateTemp = c09CreateTemp
func c09CreateTemp(dir, pattern string) (*os.File, error) {
	if vBool("createtemp.err") {
		c09Step()
		return nil, errVerif
	}
	c09FS.tmp = new(os.File)
	c09FS.tmpExists = true
	c09Step()
	return c09FS.tmp, nil
}

//verif:stub (*os.File).Name = c09Name
func c09Name(f *os.File) string { return "/state/trust-anchor.db.tmp.123" }

//verif:stub encoding/gob.NewEncoder = c09NewEncoder
func c09NewEncoder(w io.Writer) *gob.Encoder { return new(gob.Encoder) }

//verif:stub (*encoding/gob.Encoder).Encode = c09Encode
func c09Encode(enc *gob.Encoder, e any) error {
	if vBool("encode.err") {
		c09Step() // a failed encode may have written a prefix
		return errVerif
	}
	c09FS.tmpComplete = true
	c09Step()
	return nil
}

//verif:stub (*os.File).Sync = c09Sync
func c09Sync(f *os.File) error {
	fail := vBool("sync.err")
	if f == c09FS.tmp && !fail {
		c09FS.tmpSynced = c09FS.tmpComplete
	}
	if f == c09FS.dir && !fail {
		c09FS.dirSynced = c09FS.renamed
	}
	c09Step()
	if fail {
		return errVerif
	}
	return nil
}

//verif:stub (*os.File).Close = c09Close
func c09Close(f *os.File) error {
	fail := vBool("close.err")
	if f == c09FS.tmp {
		c09FS.tmpClosed = true
	}
	if f == c09FS.dir {
		c09FS.dirOpen = false
	}
	c09Step()
	if fail {
		return errVerif
	}
	return nil
}

//verif:stub os.Rename = c09Rename
func c09Rename(oldpath, newpath string) error {
	if vBool("rename.err") {
		c09Step()
		return errVerif
	}
	vAssert("rename-from-the-temp-to-the-target", oldpath == "/state/trust-anchor.db.tmp.123" && newpath == "/state/trust-anchor.db" && c09FS.tmpExists)
	if c09FS.tmpComplete && c09FS.tmpSynced && c09FS.tmpClosed {
		c09FS.target = c09New
	} else {
		c09FS.target = c09Torn
	}
	c09FS.renamed = true
	c09FS.tmpExists = false
	c09Step()
	return nil
}

//verif:stub os.Remove = c09Remove
func c09Remove(name string) error {
	vAssert("only-the-temp-is-removed", name == "/state/trust-anchor.db.tmp.123")
	c09FS.tmpExists = false
	c09Step()
	return nil
}

//verif:stub os.Open = c09Open
func c09Open(name string) (*os.File, error) {
	if vBool("open.err") {
		c09Step()
		return nil, errVerif
	}
	c09FS.dir = new(os.File)
	c09FS.dirOpen = true
	c09Step()
	return c09FS.dir, nil
}

// VerifC09_AtomicGobWrite: with an error possible at every file-system call
// and a crash possible after every one, the state file is always either the
// previous complete content or the new complete content; success means new
// content with the directory entry synced; no temp file is left behind on
// the paths that report failure before the rename.
//
//verif:entry tier=quick,thorough
//verif:bound every combination of failures of CreateTemp / Encode / Sync / Close / Rename / Open(dir) / Sync(dir) / Close(dir); invariant asserted after each of the <= 9 file-system steps (= every crash point)
func VerifC09_AtomicGobWrite() {
	c09FS.target, c09FS.tmpExists, c09FS.tmpComplete, c09FS.tmpSynced, c09FS.tmpClosed = c09Old, false, false, false, false
	c09FS.renamed, c09FS.dirSynced, c09FS.dirOpen, c09FS.steps, c09FS.tmp, c09FS.dir = false, false, false, 0, nil, nil
	anchors := TrustAnchors{}
	err := atomicGobWrite("/state/trust-anchor.db", &anchors)
	vAssert("final-state-complete", c09FS.target == c09Old || c09FS.target == c09New)
	if err == nil {
		vAssert("success-means-new-and-durable", c09FS.target == c09New && c09FS.dirSynced && !c09FS.dirOpen)
	}
	if !c09FS.renamed {
		vAssert("failure-before-rename-keeps-old-and-cleans-up", err != nil && c09FS.target == c09Old && !c09FS.tmpExists)
	}
}

// VerifC09_SameKeyExceptRevoke: a revocation is recognised only for the very
// same key material with exactly the REVOKE bit differing - never by tag.
//
//verif:entry tier=quick,thorough
//verif:bound all flags/protocol/algorithm values of both keys; public keys of 0-3 symbolic characters each
func VerifC09_SameKeyExceptRevoke() {
	a := &dns.DNSKEY{Flags: vU16("a.flags"), Protocol: vU8("a.proto"), Algorithm: vU8("a.alg"), PublicKey: vString("a.pk", vChoice("a.len", 4))}
	b := &dns.DNSKEY{Flags: vU16("b.flags"), Protocol: vU8("b.proto"), Algorithm: vU8("b.alg"), PublicKey: vString("b.pk", vChoice("b.len", 4))}
	got := sameKeyExceptRevoke(a, b)
	want := a.Algorithm == b.Algorithm && a.Protocol == b.Protocol && a.PublicKey == b.PublicKey && a.Flags^b.Flags == 0x0080
	vAssert("exactly-same-material-and-only-revoke-differs", got == want)
	vAssert("nil-never-matches", !sameKeyExceptRevoke(nil, b) && !sameKeyExceptRevoke(a, nil))
}
