//go:build verif

//verif:pkg middleware/resolver
package resolver

import (
	"github.com/miekg/dns"
	"github.com/semihalev/sdns/middleware/resolver/dnssec"
)

var c09p struct {
	maps    []map[uint16][]*dns.DNSKEY
	answers []bool
}

// Signature mathematics is C14's subject: here the verifier is an oracle that
// answers arbitrarily and remembers which keys it was allowed to use. The key
// tag is a checksum that collides on purpose: every key material maps to the
// same tag (plus the REVOKE bit, as the real tag moves by 128 with it).
//
//verif:stub middleware/resolver/dnssec.VerifyRRSIGWithWork = c09pVerify
//verif:stub middleware/resolver/dnssec.KeyTag = c09pTag
func c09pVerify(zone string, keys map[uint16][]*dns.DNSKEY, msg *dns.Msg, work dnssec.SignatureWork) (bool, error) {
	c09p.maps = append(c09p.maps, keys)
	a := vBool("signatures.verify")
	c09p.answers = append(c09p.answers, a)
	if a {
		return true, nil
	}
	return false, dnssec.ErrNoSignatures
}

func c09pTag(k *dns.DNSKEY) uint16 {
	t := uint16(20326)
	if k.Flags&DNSKEYFlagRevoke != 0 {
		t += DNSKEYFlagRevoke
	}
	return t
}

func c09pKey(tag string, nflags, nalgs int) *dns.DNSKEY {
	k := &dns.DNSKEY{Flags: []uint16{257, 256, 257 | DNSKEYFlagRevoke, 256 | DNSKEYFlagRevoke}[vChoice(tag+".flags", nflags)], Protocol: 3,
		Algorithm: []uint8{8, 13}[vChoice(tag+".alg", nalgs)], PublicKey: []string{"AwEAAa", "AwEAAb"}[vChoice(tag+".material", 2)]}
	k.Hdr = dns.RR_Header{Name: ".", Rrtype: dns.TypeDNSKEY, Class: dns.ClassINET, Ttl: 172800}
	return k
}

// VerifC09_TwoPassAuthentication: which keys may authenticate a fetched root
// DNSKEY set, and what the caller is told it may do with the result.
//
//verif:entry tier=quick,thorough
//verif:expect full-authentication-only-by-current-anchors revocation-only-authentication-by-revoked-copies-of-current-anchors untrusted-keys-never-reach-the-verifier unauthenticated-set-changes-nothing
//verif:bound 1-2 current anchors (KSK or ZSK, 2 key materials) and 1-2 fetched DNSKEYs (flags in {KSK, ZSK, KSK+REVOKE, ZSK+REVOKE}, 2 key materials, the first also in a second algorithm); every key tag collides (same tag, +128 with REVOKE); the signature verifier answers arbitrarily per pass
//verif:outside the signature verifier itself (C14, C01); which anchors AutoTA passes in as current (VerifC09_RefreshStep)
func VerifC09_TwoPassAuthentication() {
	c09p.maps, c09p.answers = nil, nil
	var root []dns.RR
	var rootKeys []*dns.DNSKEY
	for i := 0; i < 1+vChoice("anchors", 2); i++ {
		k := c09pKey("anchor", 2, 1)
		rootKeys = append(rootKeys, k)
		root = append(root, k)
	}
	var rrs []dns.RR
	var fetched []*dns.DNSKEY
	for i := 0; i < 1+vChoice("fetched", 2); i++ {
		k := c09pKey("fetched", 4, 2-i)
		fetched = append(fetched, k)
		rrs = append(rrs, k)
	}
	rrs = append(rrs, &dns.RRSIG{Hdr: dns.RR_Header{Name: ".", Rrtype: dns.TypeRRSIG, Class: dns.ClassINET, Ttl: 172800}, TypeCovered: dns.TypeDNSKEY, KeyTag: 20326, SignerName: "."})

	ok, revOnly, err := verifyFetchedKeysWithWork(root, rrs, nil)

	isAnchor := func(k *dns.DNSKEY) bool {
		for _, a := range rootKeys {
			if a == k && a.Flags&DNSKEYFlagKSK != 0 {
				return true
			}
		}
		return false
	}
	isRevokedCopy := func(k *dns.DNSKEY) bool {
		got := false
		for _, f := range fetched {
			got = got || f == k
		}
		if !got || k.Flags&DNSKEYFlagRevoke == 0 {
			return false
		}
		for _, a := range rootKeys {
			if a.Flags&DNSKEYFlagKSK != 0 && a.PublicKey == k.PublicKey && a.Algorithm == k.Algorithm && a.Protocol == k.Protocol && a.Flags|DNSKEYFlagRevoke == k.Flags && a.Flags&DNSKEYFlagRevoke == 0 {
				return true
			}
		}
		return false
	}
	allOf := func(m map[uint16][]*dns.DNSKEY, pred func(*dns.DNSKEY) bool) bool {
		all := len(m) > 0
		for _, ks := range m {
			for _, k := range ks {
				all = all && pred(k)
			}
		}
		return all
	}
	for _, m := range c09p.maps {
		vAssert("untrusted-keys-never-reach-the-verifier", allOf(m, isAnchor) || allOf(m, isRevokedCopy))
	}
	if !ok {
		vAssert("unauthenticated-set-changes-nothing", !revOnly && err != nil)
		return
	}
	last := len(c09p.maps) - 1
	if !revOnly {
		vAssert("full-authentication-only-by-current-anchors", last == 0 && c09p.answers[0] && allOf(c09p.maps[0], isAnchor))
	} else {
		vAssert("revocation-only-authentication-by-revoked-copies-of-current-anchors", last == 1 && !c09p.answers[0] && c09p.answers[1] && allOf(c09p.maps[1], isRevokedCopy))
	}
}
