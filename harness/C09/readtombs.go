//go:build verif

//verif:pkg middleware/resolver
package resolver

import (
	"encoding/gob"
	"errors"
	"fmt"
	"io"
	"io/fs"
	"os"
)

var c09r struct {
	open   int // 0 opens, 1 does not exist, 2 another error
	decode int // 0 decodes, 1 io.EOF (nothing to read), 2 io.ErrUnexpectedEOF, 3 a wrapped io.EOF, 4 another error
}

// The file system and the gob decoder are stubs: what is asked is how their
// outcomes are classified.
//
//verif:stub os.Open = c09rOpen
//verif:stub (*os.File).Close = c09rClose
//verif:stub encoding/gob.NewDecoder = c09rNewDecoder
//verif:stub (*encoding/gob.Decoder).Decode = c09rDecode
func c09rOpen(name string) (*os.File, error) {
	switch c09r.open {
	case 1:
		return nil, &fs.PathError{Op: "open", Path: name, Err: os.ErrNotExist}
	case 2:
		return nil, &fs.PathError{Op: "open", Path: name, Err: os.ErrPermission}
	}
	return new(os.File), nil
}

func c09rClose(f *os.File) error { return nil }

func c09rNewDecoder(r io.Reader) *gob.Decoder { return new(gob.Decoder) }

func c09rDecode(d *gob.Decoder, e any) error {
	switch c09r.decode {
	case 1:
		return io.EOF
	case 2:
		return io.ErrUnexpectedEOF
	case 3:
		return fmt.Errorf("gob: %w", io.EOF)
	case 4:
		return errVerif
	}
	return nil
}

// VerifC09_RevocationStoreReadIsClassifiedFailClosed: reading the revocation
// store yields "nothing revoked yet" only when the file does not exist; a file
// that is there but does not decode - garbage, a torn tail, or nothing at all
// to read (the atomic writer never leaves an empty file behind, so an empty
// one has lost its content) - is reported as corrupt, which is what makes
// AutoTA clear the trust set; a file that cannot be opened is an error too.
//
//verif:entry tier=quick,thorough
//verif:expect missing-store-is-empty undecodable-store-is-corrupt unopenable-store-is-an-error decodable-store-is-returned
//verif:bound open: succeeds / does not exist / permission error; decode: succeeds / io.EOF / io.ErrUnexpectedEOF / a wrapped io.EOF / another error
//verif:outside the gob format itself; what AutoTA does with the classification (VerifC09_RefreshStep: corrupt and unopenable stores both fail closed)
func VerifC09_RevocationStoreReadIsClassifiedFailClosed() {
	c09r.open, c09r.decode = vChoice("open", 3), vChoice("decode", 5)
	t, err := readTombstones("/var/sdns/trust-anchor-tombstones.db")
	switch {
	case c09r.open == 1:
		vAssert("missing-store-is-empty", err == nil && t != nil && len(t) == 0)
	case c09r.open == 2:
		vAssert("unopenable-store-is-an-error", err != nil && t == nil)
	case c09r.decode != 0:
		vAssert("undecodable-store-is-corrupt", t == nil && err != nil && errors.Is(err, errCorruptTombstones))
	default:
		vAssert("decodable-store-is-returned", err == nil && t != nil)
	}
}
