//go:build verif

//verif:pkg middleware/resolver
package resolver

import (
	"context"
	"time"

	"github.com/miekg/dns"
	"github.com/semihalev/sdns/config"
	"github.com/semihalev/sdns/internal/authority"
	"github.com/semihalev/sdns/middleware"
	"github.com/semihalev/sdns/middleware/resolver/dnssec"
)

// One RFC 5011 refresh as an inductive step. Key universe: three key
// materials k1, k2, k3; k3's tag collides with k1's (tags are 16-bit
// checksums). Disk, configuration, the fetched DNSKEY set, every
// cryptographic verdict, the clock and both file writes are symbolic.
const (
	c09Tag1 = 1000
	c09Tag2 = 2000
)

func c09Key(m int, revoked bool) *dns.DNSKEY {
	flags := uint16(257)
	if revoked {
		flags |= DNSKEYFlagRevoke
	}
	return &dns.DNSKEY{Hdr: dns.RR_Header{Name: ".", Rrtype: dns.TypeDNSKEY, Class: dns.ClassINET}, Flags: flags, Protocol: 3, Algorithm: 8, PublicKey: []string{"", "k1", "k2", "k3"}[m]}
}

//verif:stub middleware/resolver/dnssec.KeyTag = c09KeyTag
func c09KeyTag(k *dns.DNSKEY) uint16 {
	t := uint16(c09Tag1)
	if k.PublicKey == "k2" {
		t = c09Tag2
	}
	if k.Flags&DNSKEYFlagRevoke != 0 {
		t += DNSKEYFlagRevoke
	}
	return t
}

var c09D struct {
	stateReadErr, tombCorrupt bool
	tombOpenErr               bool
	state                     TrustAnchors
	tombs                     Tombstones
	resolveErr                bool
	fetched                   []dns.RR
	verifyOK, revOnly         bool
	selfSigned                bool
	stageErr                  bool
	tombWriteErr, stateWriteErr bool
	wroteTombs                Tombstones
	wroteState                TrustAnchors
	writes                    []string
}

//verif:stub middleware/resolver.readFromTAFile = c09ReadState
func c09ReadState(filename string) (TrustAnchors, error) {
	if c09D.stateReadErr {
		return nil, errVerif
	}
	out := TrustAnchors{}
	for k, v := range c09D.state {
		cp := *v
		out[k] = &cp
	}
	return out, nil
}

//verif:stub middleware/resolver.readTombstones = c09ReadTombs
func c09ReadTombs(filename string) (Tombstones, error) {
	if c09D.tombCorrupt {
		return nil, errCorruptTombstones
	}
	if c09D.tombOpenErr {
		// the file is there but cannot be opened (EACCES, EIO, EMFILE ...)
		return nil, errVerif
	}
	out := Tombstones{}
	for k, v := range c09D.tombs {
		out[k] = v
	}
	return out, nil
}

//verif:stub middleware/resolver.writeTombstones = c09WriteTombs
func c09WriteTombs(filename string, t Tombstones) error {
	c09D.writes = append(c09D.writes, "tombstones")
	if c09D.tombWriteErr {
		return errVerif
	}
	c09D.wroteTombs = Tombstones{}
	for k, v := range t {
		c09D.wroteTombs[k] = v
	}
	return nil
}

//verif:stub middleware/resolver.writeToTAFile = c09WriteState
func c09WriteState(filename string, s TrustAnchors) error {
	c09D.writes = append(c09D.writes, "state")
	if c09D.stateWriteErr {
		return errVerif
	}
	c09D.wroteState = TrustAnchors{}
	for k, v := range s {
		cp := *v
		c09D.wroteState[k] = &cp
	}
	return nil
}

//verif:stub (*middleware/resolver.Resolver).Resolve = c09Resolve
func c09Resolve(r *Resolver, ctx context.Context, req *dns.Msg, servers *authority.Servers, root bool, depth int, level int, nomin bool, parentDS []dns.RR, extra ...bool) (*dns.Msg, error) {
	if c09D.resolveErr {
		return nil, errVerif
	}
	m := new(dns.Msg)
	m.Answer = c09D.fetched
	return m, nil
}

//verif:stub middleware/resolver.verifyFetchedKeysWithWork = c09Verify
func c09Verify(rootKeys []dns.RR, rrs []dns.RR, work dnssec.SignatureWork) (bool, bool, error) {
	if !c09D.verifyOK {
		return false, false, errVerif
	}
	return true, c09D.revOnly, nil
}

//verif:stub middleware/resolver.stageRevocationSelfSignatures = c09Stage
func c09Stage(rrs []dns.RR, fetchedTags []uint16, kskFetched, kskCurrent TrustAnchors, tombstones Tombstones, work dnssec.SignatureWork) (map[uint16]bool, error) {
	if c09D.stageErr {
		return nil, errVerif
	}
	out := map[uint16]bool{}
	for _, t := range fetchedTags {
		if ta := kskFetched[t]; ta != nil && ta.DNSKey.Flags&DNSKEYFlagRevoke != 0 {
			out[t] = c09D.selfSigned
		}
	}
	return out, nil
}

//verif:stub context.WithDeadline = c09WithDeadline
func c09WithDeadline(parent context.Context, d time.Time) (context.Context, context.CancelFunc) {
	return parent, func() {}
}

//verif:stub middleware.EnsureRecursionWork = c09EnsureWork
func c09EnsureWork(ctx context.Context, policy middleware.RecursionWorkPolicy) (context.Context, *middleware.RecursionWorkLedger) {
	return ctx, nil
}

//verif:stub middleware.FinishRecursionWork = c09FinishWork
func c09FinishWork(ctx context.Context) {}

func c09Trusted(r *Resolver, pk string) bool {
	for _, rr := range r.rootKeys {
		if k, ok := rr.(*dns.DNSKEY); ok && k.PublicKey == pk {
			return true
		}
	}
	return false
}

// VerifC09_RefreshStep
//
//verif:entry tier=quick,thorough
//verif:bound key universe k1,k2,k3 (k3 collides with k1's tag); configured anchors {k1} or {k1,k2}; on-disk state: tag-1000 slot in {absent, k1 Valid, k1 Missing, k1 Revoked, k3 AddPend}, tag-2000 slot in {absent, k2 Valid, k2 AddPend}, symbolic FirstSeen; tombstone store: any subset of {k1,k2}, corrupt, or present but not openable; state file readable or not; fetched DNSKEY set: any subset of {k1, k1+REVOKE, k2, k3} or a fetch error; authentication verdict ok / revocation-only / failed; revocation self-signature verdict; staging error; either or both file writes failing; arbitrary clock (one refresh assumed to take < 1 h); memory starts as after a restart (trust = configured keys)
func VerifC09_RefreshStep() {
	d := &c09D
	*d = struct {
		stateReadErr, tombCorrupt   bool
		tombOpenErr                 bool
		state                       TrustAnchors
		tombs                       Tombstones
		resolveErr                  bool
		fetched                     []dns.RR
		verifyOK, revOnly           bool
		selfSigned                  bool
		stageErr                    bool
		tombWriteErr, stateWriteErr bool
		wroteTombs                  Tombstones
		wroteState                  TrustAnchors
		writes                      []string
	}{}
	k1, k2 := c09Key(1, false), c09Key(2, false)
	cfgKeys := []dns.RR{k1}
	if vBool("config.hasK2") {
		cfgKeys = append(cfgKeys, k2)
	}
	// disk
	d.state = TrustAnchors{}
	switch vChoice("disk.slot1000", 5) {
	case 1:
		d.state[c09Tag1] = &TrustAnchor{DNSKey: c09Key(1, false), State: StateValid, FirstSeen: vTime("fs1")}
	case 2:
		d.state[c09Tag1] = &TrustAnchor{DNSKey: c09Key(1, false), State: StateMissing, FirstSeen: vTime("fs1")}
	case 3:
		d.state[c09Tag1] = &TrustAnchor{DNSKey: c09Key(1, false), State: StateRevoked, FirstSeen: vTime("fs1")}
	case 4:
		d.state[c09Tag1] = &TrustAnchor{DNSKey: c09Key(3, false), State: StateAddPend, FirstSeen: vTime("fs3")}
	}
	switch vChoice("disk.slot2000", 3) {
	case 1:
		d.state[c09Tag2] = &TrustAnchor{DNSKey: c09Key(2, false), State: StateValid, FirstSeen: vTime("fs2")}
	case 2:
		d.state[c09Tag2] = &TrustAnchor{DNSKey: c09Key(2, false), State: StateAddPend, FirstSeen: vTime("fs2")}
	}
	d.stateReadErr = vBool("disk.stateUnreadable")
	d.tombs = Tombstones{}
	if vBool("disk.tomb.k1") {
		d.tombs[dnskeyMaterialFP(k1)] = &Tombstone{DNSKey: c09Key(1, true)}
	}
	if vBool("disk.tomb.k2") {
		d.tombs[dnskeyMaterialFP(k2)] = &Tombstone{DNSKey: c09Key(2, true)}
	}
	d.tombCorrupt = vBool("disk.tombCorrupt")
	d.tombOpenErr = !d.tombCorrupt && vBool("disk.tombOpenErr")
	// the wire
	d.resolveErr = vBool("fetch.err")
	if vBool("fetch.k1") {
		d.fetched = append(d.fetched, c09Key(1, false))
	}
	if vBool("fetch.k1revoked") {
		d.fetched = append(d.fetched, c09Key(1, true))
	}
	if vBool("fetch.k2") {
		d.fetched = append(d.fetched, c09Key(2, false))
	}
	if vBool("fetch.k3") {
		d.fetched = append(d.fetched, c09Key(3, false))
	}
	d.verifyOK, d.revOnly, d.selfSigned, d.stageErr = vBool("verify.ok"), vBool("verify.revocationOnly"), vBool("revocation.selfSigned"), vBool("stage.err")
	d.tombWriteErr, d.stateWriteErr = vBool("write.tomb.err"), vBool("write.state.err")

	r := &Resolver{cfg: &config.Config{Directory: "/var/sdns"}, rootServers: new(authority.Servers), netTimeout: time.Second}
	r.configuredRootKeys = cfgKeys
	r.rootKeys = append([]dns.RR(nil), cfgKeys...) // restart: memory = configuration

	// ghost: revocations already on record before this refresh
	recorded1 := !d.tombCorrupt && d.tombs[dnskeyMaterialFP(k1)] != nil
	if !d.stateReadErr && d.state[c09Tag1] != nil && d.state[c09Tag1].State == StateRevoked && d.state[c09Tag1].DNSKey.PublicKey == "k1" {
		recorded1 = true
	}
	recorded2 := !d.tombCorrupt && d.tombs[dnskeyMaterialFP(k2)] != nil

	c0 := vClockCount()
	r.AutoTA()
	// one refresh does not itself take longer than an hour of clock time (the
	// hold-downs are 30 and 90 days; without this the unconstrained model clock
	// lets a key "wait out" its hold-down between two statements of one run)
	if n := vClockCount(); n > c0+1 {
		vAssume(vClockAt(n-1).Sub(vClockAt(c0)) < time.Hour)
	}

	if d.tombCorrupt || d.tombOpenErr {
		vAssert("unreadable-revocation-store-fails-closed", len(r.rootKeys) == 0 && len(d.writes) == 0)
		return
	}
	vAssert("recorded-revocation-never-trusted-again-k1", !recorded1 || !c09Trusted(r, "k1"))
	vAssert("recorded-revocation-never-trusted-again-k2", !recorded2 || !c09Trusted(r, "k2"))
	vAssert("tombstone-order-then-state", len(d.writes) == 0 || (len(d.writes) == 2 && d.writes[0] == "tombstones" && d.writes[1] == "state"))
	authenticated := !d.resolveErr && d.verifyOK && !d.stageErr
	if !authenticated {
		vAssert("unauthenticated-response-changes-nothing-on-disk", len(d.writes) == 0)
	}
	// k3 was never trusted, never configured, and cannot have completed a hold-down unless it was pending on disk
	k3Pending := !d.stateReadErr && d.state[c09Tag1] != nil && d.state[c09Tag1].DNSKey.PublicKey == "k3"
	if c09Trusted(r, "k3") {
		vAssert("new-key-only-after-pending-and-full-authentication", k3Pending && authenticated && !d.revOnly)
	}
	// the add hold-down: a pending key is promoted (trusted in memory, or
	// written as Valid/Missing) only if this accepted refresh still publishes
	// it and 30 days have passed since it was first seen
	lastClock := vClockAt(vClockCount() - 1)
	promoted := func(pk string, tag uint16) bool {
		if c09Trusted(r, pk) {
			return true
		}
		if ta := d.wroteState[tag]; ta != nil && ta.DNSKey.PublicKey == pk && (ta.State == StateValid || ta.State == StateMissing) {
			return true
		}
		return false
	}
	fetchedPlain := func(pk string) bool {
		for _, rr := range d.fetched {
			if k := rr.(*dns.DNSKEY); k.PublicKey == pk && k.Flags&DNSKEYFlagRevoke == 0 {
				return true
			}
		}
		return false
	}
	if k3Pending && promoted("k3", c09Tag1) {
		vAssert("pending-key-promoted-only-if-still-published-after-30-days", authenticated && !d.revOnly && fetchedPlain("k3") && lastClock.Sub(d.state[c09Tag1].FirstSeen) > 720*time.Hour)
	}
	k2Pending := !d.stateReadErr && d.state[c09Tag2] != nil && d.state[c09Tag2].State == StateAddPend && len(cfgKeys) == 1
	if k2Pending && promoted("k2", c09Tag2) {
		vAssert("pending-key-promoted-only-if-still-published-after-30-days", authenticated && !d.revOnly && fetchedPlain("k2") && lastClock.Sub(d.state[c09Tag2].FirstSeen) > 720*time.Hour)
	}
	// a key that is accepted as revoked in this refresh
	acceptedNow := authenticated && len(d.writes) == 2 && d.wroteTombs != nil && d.wroteTombs[dnskeyMaterialFP(k1)] != nil && !recorded1
	if acceptedNow {
		vAssert("newly-revoked-key-leaves-the-trust-set", !c09Trusted(r, "k1"))
		fetchedRevoked := false
		for _, rr := range d.fetched {
			if k := rr.(*dns.DNSKEY); k.PublicKey == "k1" && k.Flags&DNSKEYFlagRevoke != 0 {
				fetchedRevoked = true
			}
		}
		vAssert("revocation-needs-the-revoked-key-published-and-self-signed", fetchedRevoked && d.selfSigned)
	}
	// revocation-only authentication may complete a revocation and nothing else
	if authenticated && d.revOnly && d.wroteState != nil {
		seeded := false
		for tag, ta := range d.wroteState {
			if ta.State == StateAddPend {
				old := d.state[tag]
				if d.stateReadErr || old == nil || old.State != StateAddPend || old.DNSKey.PublicKey != ta.DNSKey.PublicKey {
					seeded = true
				}
			}
		}
		vAssert("revocation-only-response-seeds-no-new-key", !seeded)
	}
	// whatever was written, a key tombstoned on disk before stays tombstoned
	if d.wroteTombs != nil {
		vAssert("tombstones-are-permanent", (!recorded1 || d.wroteTombs[dnskeyMaterialFP(k1)] != nil || d.tombs[dnskeyMaterialFP(k1)] == nil) && (!recorded2 || d.wroteTombs[dnskeyMaterialFP(k2)] != nil))
	}
	// state written to disk never lists a tombstoned key as an active anchor
	if d.wroteState != nil && d.wroteTombs != nil {
		bad := false
		for _, ta := range d.wroteState {
			if (ta.State == StateValid || ta.State == StateMissing) && d.wroteTombs[dnskeyMaterialFP(ta.DNSKey)] != nil {
				bad = true
			}
		}
		vAssert("no-active-anchor-is-tombstoned-on-disk", !bad)
	}
}
