//go:build verif

//verif:pkg middleware/blocklist
package blocklist

import (
	"bufio"
	"io"
	"io/fs"
	"os"
	"path/filepath"
	"time"

	"github.com/semihalev/sdns/config"
)

// File-system model for the persist -> reload round trip: a directory of
// named files, each a list of lines. persist()'s temp file collects the lines
// it is given and becomes "local" at the rename; the reload walks the
// directory, opens every file and scans it line by line. No call fails here
// (failures are the subject of VerifC18_PersistConverges).
var c18r struct {
	files   map[string][]string
	order   []string
	tmp     []string
	tmpName string
	reading []string
	at      int
	opened  []string
}

//verif:stub os.CreateTemp = c18rCreateTemp
func c18rCreateTemp(dir, pattern string) (*os.File, error) {
	c18r.tmp, c18r.tmpName = nil, dir+"/local.tmp.1"
	return new(os.File), nil
}

//verif:stub (*os.File).Name = c18rName
func c18rName(f *os.File) string { return c18r.tmpName }

//verif:stub (*os.File).WriteString = c18rWriteString
func c18rWriteString(f *os.File, s string) (int, error) {
	if len(s) > 0 && s[len(s)-1] == '\n' {
		c18r.tmp = append(c18r.tmp, s[:len(s)-1])
	} else {
		vFail("persist-writes-whole-lines")
	}
	return len(s), nil
}

//verif:stub (*os.File).Sync = c18rSync
func c18rSync(f *os.File) error { return nil }

//verif:stub (*os.File).Close = c18rClose
func c18rClose(f *os.File) error { return nil }

//verif:stub os.Rename = c18rRename
func c18rRename(oldpath, newpath string) error {
	if oldpath != c18r.tmpName {
		vFail("rename-of-something-else")
	}
	if _, ok := c18r.files[newpath]; !ok {
		c18r.order = append(c18r.order, newpath)
	}
	c18r.files[newpath] = c18r.tmp
	c18r.tmp = nil
	return nil
}

//verif:stub os.Remove = c18rRemove
func c18rRemove(name string) error { return nil }

type c18rInfo struct {
	name string
	dir  bool
}

func (i c18rInfo) Name() string       { return i.name }
func (i c18rInfo) Size() int64        { return 0 }
func (i c18rInfo) Mode() fs.FileMode  { return 0 }
func (i c18rInfo) ModTime() time.Time { return time.Time{} }
func (i c18rInfo) IsDir() bool        { return i.dir }
func (i c18rInfo) Sys() any           { return nil }

//verif:stub os.Stat = c18rStat
func c18rStat(name string) (os.FileInfo, error) { return c18rInfo{name: name, dir: true}, nil }

//verif:stub path/filepath.Walk = c18rWalk
func c18rWalk(root string, fn filepath.WalkFunc) error {
	if err := fn(root, c18rInfo{name: root, dir: true}, nil); err != nil {
		return err
	}
	for _, p := range c18r.order {
		if err := fn(p, c18rInfo{name: p}, nil); err != nil {
			return err
		}
	}
	return nil
}

//verif:stub os.Open = c18rOpen
func c18rOpen(name string) (*os.File, error) {
	c18r.reading, c18r.at = c18r.files[name], -1
	c18r.opened = append(c18r.opened, name)
	return new(os.File), nil
}

//verif:stub bufio.NewScanner = c18rNewScanner
func c18rNewScanner(r io.Reader) *bufio.Scanner { return new(bufio.Scanner) }

//verif:stub (*bufio.Scanner).Scan = c18rScan
func c18rScan(s *bufio.Scanner) bool {
	c18r.at++
	return c18r.at < len(c18r.reading)
}

//verif:stub (*bufio.Scanner).Text = c18rText
func c18rText(s *bufio.Scanner) string { return c18r.reading[c18r.at] }

//verif:stub (*bufio.Scanner).Err = c18rErr
func c18rErr(s *bufio.Scanner) error { return nil }

// entries that cover one another in every way the matcher knows: a plain
// parent covers its subdomains and a wildcard below it; a wildcard covers
// what lies strictly below it; the same name in another letter case
var c18rNames = []string{
	"example.com.",
	"sub.example.com.",
	"*.example.com.",
	"deep.sub.example.com.",
	"*.sub.example.com.",
	"SUB.Example.COM.",
	// the root: as a plain entry it covers every name there is, and its
	// canonical spelling is the one-character name a careless parser drops
	".",
}

func c18rSame(a, b map[string]bool) bool {
	if len(a) != len(b) {
		return false
	}
	for k := range a {
		if !b[k] {
			return false
		}
	}
	return true
}

// VerifC18_ReloadIsExact: after any history of API additions and removals,
// a fresh start that reads what the last mutation persisted holds exactly the
// list that was in memory - entry for entry, also the entries another entry
// already covers (they matter as soon as the covering entry is removed).
//
//verif:entry tier=quick,thorough paths=700000
//verif:expect reloaded-list-is-the-in-memory-list reload-read-the-persisted-file some-covered-entry-persisted
//verif:bound a history of 3 (quick) / 4 (thorough) API calls - Set or Remove, the last one also SetBatch or RemoveBatch (batches of two) - over 7 entries that cover one another (plain parent/child/grandchild, wildcards at two levels, a mixed-case duplicate, the root); optional whitelist entry; the real snapshot/persist code writes the file, the real loadInitial/readBlocklists/parseHostFile read it back; every file operation succeeds
//verif:outside I/O failures (VerifC18_PersistConverges); other list files in the directory and remote refresh; bufio.Scanner's line splitting (lines are handed over as written); map iteration orders other than the executor's
func VerifC18_ReloadIsExact() {
	c18r.files, c18r.order, c18r.opened = map[string][]string{}, nil, nil
	cfg := &config.Config{BlockListDir: "/bl"}
	if vBool("whitelist.sub") {
		cfg.Whitelist = []string{"sub.example.com"}
	}
	b := &BlockList{m: map[string]bool{}, wild: map[string]bool{}, w: map[string]bool{}, cfg: cfg}
	b.loadInitial()
	steps := 3
	if vTier() > 0 {
		steps = 4
	}
	n := len(c18rNames)
	mutated := false
	for i := 0; i < steps; i++ {
		x := c18rNames[vChoice("op.name", n)]
		kinds := 2
		if i == steps-1 {
			kinds = 4
		}
		switch vChoice("op.kind", kinds) {
		case 0:
			mutated = b.Set(x) || mutated
		case 1:
			mutated = b.Remove(x) || mutated
		case 2:
			y := c18rNames[vChoice("op.second", n)]
			mutated = b.SetBatch([]string{x, y}) > 0 || mutated
		default:
			y := c18rNames[vChoice("op.second", n)]
			mutated = b.RemoveBatch([]string{x, y}) > 0 || mutated
		}
	}
	if !mutated {
		return
	}
	if (b.m["example.com."] && (b.m["sub.example.com."] || b.wild["example.com."])) || (b.wild["example.com."] && b.m["deep.sub.example.com."]) {
		vReach("some-covered-entry-persisted")
	}

	r := &BlockList{m: map[string]bool{}, wild: map[string]bool{}, w: map[string]bool{}, cfg: cfg}
	c18r.opened = nil
	r.loadInitial()
	vAssert("reload-read-the-persisted-file", len(c18r.opened) == 1 && c18r.opened[0] == "/bl/local")
	vAssert("reloaded-list-is-the-in-memory-list", c18rSame(b.m, r.m) && c18rSame(b.wild, r.wild))
}
