//go:build verif

//verif:pkg middleware/blocklist
package blocklist

// Names are generated from label arrays so the reference can speak about
// whole labels. Label characters: any ASCII byte except '.', '\\' (no escapes:
// outside the claim) - mixed case included.

type c18Name struct {
	labels [][]byte
	text   string
}

func c18Gen(tag string, nlabels, nchars int, rooted bool) c18Name {
	var n c18Name
	var text []byte
	for i := 0; i < nlabels; i++ {
		lab := vBytes(tag, nchars)
		for _, c := range lab {
			vAssume(c < 0x80 && c != '.' && c != '\\' && c != 0)
		}
		n.labels = append(n.labels, lab)
		text = append(text, lab...)
		if i < nlabels-1 || rooted {
			text = append(text, '.')
		}
	}
	n.text = string(text)
	return n
}

func c18Lower(c byte) byte {
	if c >= 'A' && c <= 'Z' {
		return c + 32
	}
	return c
}

func c18LabelEq(a, b []byte) bool {
	if len(a) != len(b) {
		return false
	}
	eq := true
	for i := range a {
		eq = eq && c18Lower(a[i]) == c18Lower(b[i])
	}
	return eq
}

// c18Suffix: entry's labels are the trailing labels of name's; strict = proper suffix.
func c18Suffix(entry, name [][]byte, strict bool) bool {
	if len(entry) > len(name) || (strict && len(entry) == len(name)) {
		return false
	}
	ok := true
	d := len(name) - len(entry)
	for i := range entry {
		ok = ok && c18LabelEq(entry[i], name[d+i])
	}
	return ok
}

// VerifC18_Exists: blocked exactly when the name or a parent is a plain
// entry, or a strict parent is a wildcard entry, and neither it nor a parent
// is whitelisted - on whole labels, case-insensitively.
//
//verif:entry tier=quick,thorough
//verif:bound 0-1 plain, 0-1 wildcard, 0-1 whitelist entries of 1-2 labels and a query of 1-3 labels, 1 character per label (quick) / 2 characters (thorough), any ASCII byte except '.', '\\', NUL, mixed case; entries with or without the trailing dot
func VerifC18_Exists() {
	nc := 1
	if vTier() > 0 {
		nc = 2
	}
	b := &BlockList{m: map[string]bool{}, wild: map[string]bool{}, w: map[string]bool{}}
	var plain, wild, white *c18Name
	if vChoice("hasWhite", 2) == 1 {
		n := c18Gen("white", 1+vChoice("white.labels", 2), nc, true)
		white = &n
		// the whitelist is loaded through the same canonicalisation as everything else
		b.w[c18Canon(n.text)] = true
	}
	if vChoice("hasPlain", 2) == 1 {
		n := c18Gen("plain", 1+vChoice("plain.labels", 2), nc, vChoice("plain.rooted", 2) == 1)
		vAssume(n.labels[0][0] != '*' || len(n.labels[0]) > 1)
		plain = &n
		added := b.setLocked(n.text)
		vAssert("set-refused-iff-whitelisted", added == !(white != nil && c18Suffix(white.labels, n.labels, false)))
		if !added {
			plain = nil
		}
	}
	if vChoice("hasWild", 2) == 1 {
		n := c18Gen("wild", 1+vChoice("wild.labels", 2), nc, true)
		wild = &n
		if !b.setLocked("*." + n.text) {
			wild = nil
		}
	}
	q := c18Gen("q", 1+vChoice("q.labels", 3), nc, vChoice("q.rooted", 2) == 1)
	want := false
	if plain != nil && c18Suffix(plain.labels, q.labels, false) {
		want = true
	}
	if wild != nil && c18Suffix(wild.labels, q.labels, true) {
		want = true
	}
	if white != nil && c18Suffix(white.labels, q.labels, false) {
		want = false
	}
	vAssert("blocked-iff-rule", b.Exists(q.text) == want)
}

func c18Canon(s string) string {
	out := make([]byte, len(s))
	for i := 0; i < len(s); i++ {
		out[i] = c18Lower(s[i])
	}
	return string(out)
}
