//go:build verif

//verif:pkg middleware/blocklist
package blocklist

import (
	"os"
	"sync"

	"github.com/semihalev/sdns/config"
)

// File-system model for persist(): the "local" file holds the snapshot of
// some version (fileVersion), or is torn. Every call can fail.
var c18FS struct {
	fileVersion uint64 // version whose complete snapshot "local" holds
	torn        bool
	writing     uint64 // version being written into the temp file
	tmpExists   bool
	tmpComplete bool
	tmpSynced   bool
	tmpClosed   bool
	tmp         *os.File
}

func c18Step() { vAssert("local-file-never-partial", !c18FS.torn) }

//verif:stub os.CreateTemp = c18CreateTemp
func c18CreateTemp(dir, pattern string) (*os.File, error) {
	if vBool("createtemp.err") {
		return nil, errVerif
	}
	c18FS.tmp = new(os.File)
	c18FS.tmpExists, c18FS.tmpComplete, c18FS.tmpSynced, c18FS.tmpClosed = true, false, false, false
	return c18FS.tmp, nil
}

//verif:stub (*os.File).Name = c18TmpName
func c18TmpName(f *os.File) string { return "/bl/local.tmp.1" }

// the last WriteString of a snapshot completes the temp file; the harness
// counts lines: header + entries
var c18Lines, c18Want int

//verif:stub (*os.File).WriteString = c18WriteString
func c18WriteString(f *os.File, s string) (int, error) {
	if vBool("write.err") {
		return 0, errVerif
	}
	c18Lines++
	if c18Lines == c18Want {
		c18FS.tmpComplete = true
	}
	return len(s), nil
}

//verif:stub (*os.File).Sync = c18Sync
func c18Sync(f *os.File) error {
	if vBool("sync.err") {
		return errVerif
	}
	c18FS.tmpSynced = c18FS.tmpComplete
	return nil
}

//verif:stub (*os.File).Close = c18Close
func c18Close(f *os.File) error {
	c18FS.tmpClosed = true
	if vBool("close.err") {
		return errVerif
	}
	return nil
}

//verif:stub os.Rename = c18Rename
func c18Rename(oldpath, newpath string) error {
	if vBool("rename.err") {
		return errVerif
	}
	vAssert("rename-temp-to-local", oldpath == "/bl/local.tmp.1" && newpath == "/bl/local" && c18FS.tmpExists)
	if c18FS.tmpComplete && c18FS.tmpSynced && c18FS.tmpClosed {
		c18FS.fileVersion = c18FS.writing
		if c18FS.writing == 2 {
			c18NewerLanded = true
		}
	} else {
		c18FS.torn = true
	}
	c18FS.tmpExists = false
	c18Step()
	return nil
}

//verif:stub os.Remove = c18Remove
func c18Remove(name string) error {
	vAssert("only-temp-removed", name == "/bl/local.tmp.1")
	c18FS.tmpExists = false
	return nil
}

func c18Persist(b *BlockList, s blockSnapshot) {
	c18FS.writing = s.version
	c18Lines, c18Want = 0, 1+len(s.exact)+len(s.wild)
	b.persist(s)
	c18Step()
	vAssert("no-temp-left-behind", !c18FS.tmpExists)
}

// VerifC18_PersistConverges: two snapshots taken in order (v1 < v2) reach
// persist() in either order with arbitrary I/O failures: the file is always a
// complete snapshot, never goes backwards, and if the newer write succeeded
// the file holds the newer state.
//
//verif:entry tier=quick,thorough
//verif:bound two snapshots (0-1 plain, 0-1 wildcard entry each) persisted in both orders; a symbolic failure at every CreateTemp/WriteString/Sync/Close/Rename
func VerifC18_PersistConverges() {
	b := &BlockList{m: map[string]bool{}, wild: map[string]bool{}, w: map[string]bool{}, cfg: &config.Config{BlockListDir: "/bl"}}
	const base = 0
	c18FS.fileVersion, c18FS.torn, c18FS.tmpExists = base, false, false
	c18Pending, c18SaveMu = nil, nil
	b.mu.Lock()
	if vBool("first.addsPlain") {
		b.setLocked("a.example.")
	}
	s1 := b.snapshotLocked()
	if vBool("second.addsWild") {
		b.setLocked("*.b.example.")
	}
	s2 := b.snapshotLocked()
	b.mu.Unlock()
	vAssert("versions-ordered", s1.version == base+1 && s2.version == base+2)
	newerFirst := vBool("newerFirst")
	before := c18FS.fileVersion
	if newerFirst {
		c18Persist(b, s2)
		afterNewer := c18FS.fileVersion
		c18Persist(b, s1)
		vAssert("stale-snapshot-never-overwrites-newer", c18FS.fileVersion >= afterNewer)
	} else {
		c18Persist(b, s1)
		c18Persist(b, s2)
	}
	vAssert("file-never-goes-backwards", c18FS.fileVersion >= before)
	vAssert("file-is-one-of-the-snapshots", c18FS.fileVersion == base || c18FS.fileVersion == s1.version || c18FS.fileVersion == s2.version)
}


// Lock interference: when the running persist() reaches saveMu.Lock() while
// another writer is pending, that other writer gets the lock first and runs to
// completion - the one interleaving the mutex allows between "decide" and
// "write". (All other mutexes are uncontended in this single-threaded model.)
var (
	c18Pending *blockSnapshot
	c18SaveMu  *sync.Mutex
	c18Owner   *BlockList
)

//verif:stub (*sync.Mutex).Lock = c18Lock
func c18Lock(m *sync.Mutex) {
	if m == c18SaveMu && c18Pending != nil {
		other := *c18Pending
		c18Pending = nil
		// the overtaken writer's own bookkeeping (which snapshot it is writing,
		// how many lines it owes) is per writer: keep it across the other's run
		w, l, n := c18FS.writing, c18Lines, c18Want
		c18Persist(c18Owner, other)
		c18FS.writing, c18Lines, c18Want = w, l, n
	}
}

// VerifC18_PersistOverlap: an older snapshot's writer that is overtaken at
// the lock by a newer snapshot's writer must not roll the file back.
//
//verif:entry tier=quick,thorough
//verif:bound snapshots v1 < v2; persist(v1) is overtaken at saveMu by a complete persist(v2); symbolic I/O failures at every call of both writes
func VerifC18_PersistOverlap() {
	b := &BlockList{m: map[string]bool{}, wild: map[string]bool{}, w: map[string]bool{}, cfg: &config.Config{BlockListDir: "/bl"}}
	c18FS.fileVersion, c18FS.torn, c18FS.tmpExists = 0, false, false
	b.setLocked("a.example.")
	s1 := b.snapshotLocked()
	b.setLocked("b.example.")
	s2 := b.snapshotLocked()
	c18NewerLanded = false
	c18Owner, c18SaveMu, c18Pending = b, &b.saveMu, &s2
	c18Persist(b, s1)
	vAssert("the-overtaking-writer-ran", c18Pending == nil)
	// after both: if the newer snapshot reached the file it is still there
	vAssert("file-is-a-complete-snapshot", c18FS.fileVersion == 0 || c18FS.fileVersion == s1.version || c18FS.fileVersion == s2.version)
	vAssert("newer-snapshot-not-rolled-back", !c18NewerLanded || c18FS.fileVersion == s2.version)
}

var c18NewerLanded bool
