//go:build verif

//verif:pkg middleware/blocklist
package blocklist

import (
	"os"

	"github.com/semihalev/sdns/config"
)

// File-system model for persist(): the "local" file holds the snapshot of
// some version (fileVersion), or is torn. Every call can fail.
var c18FS struct {
	fileVersion uint64 // version whose complete snapshot "local" holds
	torn        bool
	writing     uint64 // version being written into the temp file
	tmpExists   bool
	tmpComplete bool
	tmpSynced   bool
	tmpClosed   bool
	tmp         *os.File
}

func c18Step() { vAssert("local-file-never-partial", !c18FS.torn) }

//verif:stub os.CreateTemp = c18CreateTemp
func c18CreateTemp(dir, pattern string) (*os.File, error) {
	if vBool("createtemp.err") {
		return nil, errVerif
	}
	c18FS.tmp = new(os.File)
	c18FS.tmpExists, c18FS.tmpComplete, c18FS.tmpSynced, c18FS.tmpClosed = true, false, false, false
	return c18FS.tmp, nil
}

//verif:stub (*os.File).Name = c18TmpName
func c18TmpName(f *os.File) string { return "/bl/local.tmp.1" }

// the last WriteString of a snapshot completes the temp file; the harness
// counts lines: header + entries
var c18Lines, c18Want int

//verif:stub (*os.File).WriteString = c18WriteString
func c18WriteString(f *os.File, s string) (int, error) {
	if vBool("write.err") {
		return 0, errVerif
	}
	c18Lines++
	if c18Lines == c18Want {
		c18FS.tmpComplete = true
	}
	return len(s), nil
}

//verif:stub (*os.File).Sync = c18Sync
func c18Sync(f *os.File) error {
	if vBool("sync.err") {
		return errVerif
	}
	c18FS.tmpSynced = c18FS.tmpComplete
	return nil
}

//verif:stub (*os.File).Close = c18Close
func c18Close(f *os.File) error {
	c18FS.tmpClosed = true
	if vBool("close.err") {
		return errVerif
	}
	return nil
}

//verif:stub os.Rename = c18Rename
func c18Rename(oldpath, newpath string) error {
	if vBool("rename.err") {
		return errVerif
	}
	vAssert("rename-temp-to-local", oldpath == "/bl/local.tmp.1" && newpath == "/bl/local" && c18FS.tmpExists)
	if c18FS.tmpComplete && c18FS.tmpSynced && c18FS.tmpClosed {
		c18FS.fileVersion = c18FS.writing
	} else {
		c18FS.torn = true
	}
	c18FS.tmpExists = false
	c18Step()
	return nil
}

//verif:stub os.Remove = c18Remove
func c18Remove(name string) error {
	vAssert("only-temp-removed", name == "/bl/local.tmp.1")
	c18FS.tmpExists = false
	return nil
}

func c18Persist(b *BlockList, s blockSnapshot) {
	c18FS.writing = s.version
	c18Lines, c18Want = 0, 1+len(s.exact)+len(s.wild)
	b.persist(s)
	c18Step()
	vAssert("no-temp-left-behind", !c18FS.tmpExists)
}

// VerifC18_PersistConverges: two snapshots taken in order (v1 < v2) reach
// persist() in either order with arbitrary I/O failures: the file is always a
// complete snapshot, never goes backwards, and if the newer write succeeded
// the file holds the newer state.
//
//verif:entry tier=quick,thorough
//verif:bound two snapshots (0-1 plain, 0-1 wildcard entry each) persisted in both orders; a symbolic failure at every CreateTemp/WriteString/Sync/Close/Rename; arbitrary starting lastPersisted/file version
func VerifC18_PersistConverges() {
	b := &BlockList{m: map[string]bool{}, wild: map[string]bool{}, w: map[string]bool{}, cfg: &config.Config{BlockListDir: "/bl"}}
	base := vU64("version0")
	vAssume(base < 1<<60)
	b.version, b.lastPersisted = base, base
	c18FS.fileVersion, c18FS.torn, c18FS.tmpExists = base, false, false
	b.mu.Lock()
	if vBool("first.addsPlain") {
		b.setLocked("a.example.")
	}
	s1 := b.snapshotLocked()
	if vBool("second.addsWild") {
		b.setLocked("*.b.example.")
	}
	s2 := b.snapshotLocked()
	b.mu.Unlock()
	vAssert("versions-ordered", s1.version == base+1 && s2.version == base+2)
	newerFirst := vBool("newerFirst")
	before := c18FS.fileVersion
	if newerFirst {
		c18Persist(b, s2)
		afterNewer := c18FS.fileVersion
		c18Persist(b, s1)
		vAssert("stale-snapshot-never-overwrites-newer", c18FS.fileVersion >= afterNewer)
	} else {
		c18Persist(b, s1)
		c18Persist(b, s2)
	}
	vAssert("file-never-goes-backwards", c18FS.fileVersion >= before)
	vAssert("bookkeeping-matches-file", b.lastPersisted == c18FS.fileVersion)
	vAssert("file-is-one-of-the-snapshots", c18FS.fileVersion == base || c18FS.fileVersion == s1.version || c18FS.fileVersion == s2.version)
}
