//go:build verif

//verif:pkg middleware/blocklist
package blocklist

import (
	"context"
	"net"

	"github.com/miekg/dns"
	"github.com/semihalev/sdns/middleware"
)

type c18sTransport struct {
	msgs []*dns.Msg
	raw  int
}

func (t *c18sTransport) LocalAddr() net.Addr         { return nil }
func (t *c18sTransport) RemoteAddr() net.Addr        { return &net.UDPAddr{IP: net.IP{192, 0, 2, 9}, Port: 5353} }
func (t *c18sTransport) WriteMsg(m *dns.Msg) error   { t.msgs = append(t.msgs, m); return nil }
func (t *c18sTransport) Write(b []byte) (int, error) { t.raw++; return len(b), nil }
func (t *c18sTransport) Close() error                { return nil }

var c18sNext int

// Cache, resolver and upstream traffic all lie behind Chain.Next: a sink.
//
//verif:stub (*middleware.Chain).Next = c18sNextSink
func c18sNextSink(ch *middleware.Chain, ctx context.Context) { c18sNext++ }

var c18sNames = []string{"ads.example.", "ADS.Example.", "x.ads.example.", "badads.example.", "example.", "pixel.tracker.test.", "tracker.test.", "ok.tracker.test.", "deep.ok.tracker.test."}
var c18sBlocked = []bool{true, true, true, false, false, true, false, false, false}

// VerifC18_BlockedReplyShape: what a blocked name gets, and that nothing
// else is touched.
//
//verif:entry tier=quick,thorough
//verif:expect blocked-name-never-reaches-cache-or-upstream unblocked-name-is-untouched blocked-reply-written-exactly-once blocked-a-gets-the-null-route blocked-aaaa-gets-the-v6-null-route blocked-other-type-gets-empty-authoritative-answer
//verif:bound list = {plain ads.example., wildcard *.tracker.test., whitelist ok.tracker.test.}; query name one of 9 (listed, case variant, child, string-suffix near miss, parent, wildcard child, wildcard apex, whitelisted, below whitelisted); every 16-bit query type; every query id
//verif:outside the matching rule over arbitrary names (VerifC18_Exists); wire-born requests that have not been decoded
func VerifC18_BlockedReplyShape() {
	c18sNext = 0
	b := &BlockList{nullroute: net.IP{0, 0, 0, 0}, null6route: net.ParseIP("::0")}
	b.m = map[string]bool{"ads.example.": true}
	b.wild = map[string]bool{"tracker.test.": true}
	b.w = map[string]bool{"ok.tracker.test.": true}
	i := vChoice("qname", len(c18sNames))
	qname := c18sNames[i]
	qtype := vU16("qtype")
	req := new(dns.Msg)
	req.Id = vU16("id")
	req.RecursionDesired = true
	req.Question = []dns.Question{{Name: qname, Qtype: qtype, Qclass: dns.ClassINET}}
	t := new(c18sTransport)
	ch := middleware.NewChain(nil)
	ch.Reset(t, req)
	b.ServeDNS(context.Background(), ch)

	if !c18sBlocked[i] {
		vAssert("unblocked-name-is-untouched", c18sNext == 1 && len(t.msgs) == 0 && t.raw == 0)
		return
	}
	vAssert("blocked-name-never-reaches-cache-or-upstream", c18sNext == 0)
	vAssert("blocked-reply-written-exactly-once", len(t.msgs)+t.raw == 1 && len(t.msgs) == 1)
	m := t.msgs[0]
	hdr := m.Response && m.Id == req.Id && m.Rcode == dns.RcodeSuccess && m.Authoritative && len(m.Question) == 1 && m.Question[0] == req.Question[0]
	switch qtype {
	case dns.TypeA:
		ok := hdr && len(m.Answer) == 1
		if ok {
			a, isA := m.Answer[0].(*dns.A)
			ok = isA && a.A.Equal(net.IP{0, 0, 0, 0}) && a.Hdr.Name == qname && a.Hdr.Rrtype == dns.TypeA
		}
		vAssert("blocked-a-gets-the-null-route", ok)
	case dns.TypeAAAA:
		ok := hdr && len(m.Answer) == 1
		if ok {
			a, is6 := m.Answer[0].(*dns.AAAA)
			ok = is6 && a.AAAA.Equal(net.IPv6zero) && a.Hdr.Name == qname && a.Hdr.Rrtype == dns.TypeAAAA
		}
		vAssert("blocked-aaaa-gets-the-v6-null-route", ok)
	default:
		vAssert("blocked-other-type-gets-empty-authoritative-answer", hdr && len(m.Answer) == 0)
	}
}
