//go:build verif

//verif:pkg server
package server

import (
	"time"

	"github.com/semihalev/sdns/middleware"
)

// The pipeline behind the inline pass is a script: it stages a reply or not,
// declines blocking work (handoff) or not, and may panic after either.
type c11iPipeline struct {
	stage   bool
	handoff bool
	panics  bool
	calls   int
}

func (p *c11iPipeline) ServeRaw(w middleware.Transport, raw []byte, readTime time.Time) bool {
	return true
}
func (p *c11iPipeline) InlineReady() bool { return true }
func (p *c11iPipeline) ServeRawReplay(w middleware.Transport, raw []byte, readTime time.Time) bool {
	return true
}

func (p *c11iPipeline) ServeRawInline(w middleware.Transport, raw []byte, readTime time.Time) bool {
	p.calls++
	if p.stage {
		reply := []byte{raw[0], raw[1], 0x81, 0x82, 0, 0, 0, 0, 0, 0, 0, 0}
		_, _ = w.Write(reply)
	}
	if p.panics {
		panic("handler panicked while unwinding")
	}
	return !p.handoff
}

// VerifC11_InlinePassEndsInExactlyOneOutcome: the inline pass over a received
// datagram ends in exactly one of three ways - the staged reply joins the
// reader's send burst (which sends it and releases the job), the job is handed
// back unanswered for a worker to replay, or the job is released unanswered -
// and a staged reply is always the first: once bytes answering this query are
// staged, the query is never also handed to a worker (which would answer it a
// second time and release the slab twice), whatever the pipeline returned and
// even if a handler panicked after staging.
//
//verif:entry tier=quick,thorough
//verif:also C10
//verif:expect staged-reply-is-terminal handed-back-job-is-unanswered-and-marked-for-replay unanswered-done-job-is-released exactly-one-outcome
//verif:bound one datagram with a symbolic 12-octet header plus question; pipeline script: stages a reply or not, declines (handoff) or not, panics afterwards or not; header verdicts ignore / NOTIMP / FORMERR / accept all reachable
//verif:outside the reader loop around serveInline and the send itself (udp_batch_linux.go; real sockets); the worker replay (VerifC11_AtMostOneReply covers the writer)
func VerifC11_InlinePassEndsInExactlyOneOutcome() {
	e := new(udpEngine)
	p := &c11iPipeline{stage: vBool("pipeline.stages.a.reply"), handoff: vBool("pipeline.declines"), panics: vBool("pipeline.panics")}
	e.inline = p
	j := &udpJob{engine: e}
	j.state = udpJobReading
	hdr := vBytes("hdr", 12)
	copy(j.rx[:], hdr)
	copy(j.rx[12:], []byte{1, 'x', 0, 0, 1, 0, 1})
	j.rxLen = 19
	e.leased.Store(1)
	burst := new(udpTXBurst)

	done := e.serveInline(j, burst)

	inBurst := burst.n == 1 && burst.jobs[0] == j
	handedBack := !done
	released := j.state == udpJobFree
	outcomes := 0
	if inBurst {
		outcomes++
	}
	if handedBack {
		outcomes++
	}
	if released {
		outcomes++
	}
	vAssert("exactly-one-outcome", outcomes == 1 && burst.n <= 1)
	if j.txLen > 0 || inBurst {
		vAssert("staged-reply-is-terminal", inBurst && done && j.state == udpJobServing && !j.replay)
	}
	if handedBack {
		vAssert("handed-back-job-is-unanswered-and-marked-for-replay", j.txLen == 0 && j.replay && j.state == udpJobReading && p.calls == 1)
	}
	if done && !inBurst {
		vAssert("unanswered-done-job-is-released", released && e.leased.Load() == 0)
	}
}
