//go:build verif

//verif:pkg middleware
package middleware

import (
	"net"

	"github.com/miekg/dns"
)

type c11Sink struct {
	writes   int
	msgs     int
	lastBody []byte
}

func (s *c11Sink) LocalAddr() net.Addr  { return nil }
func (s *c11Sink) RemoteAddr() net.Addr { return &net.UDPAddr{IP: net.IP{192, 0, 2, 9}, Port: 5300} }
func (s *c11Sink) WriteMsg(m *dns.Msg) error {
	s.msgs++
	return vErr("transport.writemsg.err")
}
func (s *c11Sink) Write(b []byte) (int, error) {
	s.writes++
	s.lastBody = b
	return len(b), vErr("transport.write.err")
}
func (s *c11Sink) Close() error { return nil }

// Decoding/packing are the library's and the pooled packer's (C15); here
// their outcomes are arbitrary.
//
//verif:stub (*github.com/miekg/dns.Msg).Unpack = c11Unpack
func c11Unpack(m *dns.Msg, b []byte) error { return vErr("unpack.err") }

//verif:stub internal/wire.TryPack = c11TryPack
func c11TryPack(m *dns.Msg, consume func([]byte) error) (bool, error) {
	if vBool("trypack.handled") {
		return true, consume([]byte{0, 1, 2, 3, 4, 5, 6, 7, 8, 9, 10, 11})
	}
	return false, nil
}

// VerifC11_AtMostOneReply: whatever sequence of write calls the layers above
// make, and whatever the transport / decoder / packer return, at most one
// reply reaches the transport, and once one was committed every further
// write is refused without touching it.
//
//verif:entry tier=quick,thorough
//verif:bound every sequence of 3 (quick) / 4 (thorough) calls from {Write, WriteMsg, WriteWire, BeginWire+CommitWire}; transport, unpack and pack outcomes symbolic at every call; direct-pack capability on or off
func VerifC11_AtMostOneReply() {
	n := 3
	if vTier() > 0 {
		n = 4
	}
	sink := new(c11Sink)
	w := new(responseWriter)
	w.Reset(sink)
	vAssert("fresh-writer-unwritten", !w.Written() && w.Proto() == "udp")
	w.directPack = vBool("directPack")
	body := []byte{0xab, 0xcd, 0x81, 0x80, 0, 1, 0, 0, 0, 0, 0, 0}
	for i := 0; i < n; i++ {
		before := sink.writes + sink.msgs
		was := w.Written()
		var err error
		switch vChoice("op", 4) {
		case 0:
			_, err = w.Write(body)
		case 1:
			err = w.WriteMsg(new(dns.Msg))
		case 2:
			err = w.WriteWire(body, WireInfo{})
		case 3:
			buf := w.BeginWire(len(body), 0)
			if was {
				vAssert("no-lease-after-commit", buf == nil)
			}
			err = w.CommitWire(append(buf, body...), WireInfo{})
		}
		sent := sink.writes + sink.msgs - before
		if was {
			vAssert("refused-after-first-commit", err == errAlreadyWritten && sent == 0)
		} else {
			vAssert("one-transport-call-per-accepted-write", sent <= 1 && (sent == 1) == w.Written())
		}
		vAssert("at-most-one-reply", sink.writes+sink.msgs <= 1)
	}
}
