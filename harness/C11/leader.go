//go:build verif

//verif:pkg middleware/cache
package cache

import (
	"context"
	"net"
	"net/netip"
	"time"

	"github.com/miekg/dns"
	"github.com/semihalev/sdns/internal/waitgroup"
	"github.com/semihalev/sdns/middleware"
)

type c11lCtx struct {
	err error
	dl  time.Time
	has bool
}

func (c *c11lCtx) Deadline() (time.Time, bool) { return c.dl, c.has }
func (c *c11lCtx) Done() <-chan struct{}       { return nil }
func (c *c11lCtx) Err() error                  { return c.err }
func (c *c11lCtx) Value(key any) any           { return nil }

type c11lTransport struct{ msgs int }

func (t *c11lTransport) LocalAddr() net.Addr         { return nil }
func (t *c11lTransport) RemoteAddr() net.Addr        { return &net.UDPAddr{IP: net.IP{192, 0, 2, 9}, Port: 5353} }
func (t *c11lTransport) WriteMsg(m *dns.Msg) error   { t.msgs++; return nil }
func (t *c11lTransport) Write(b []byte) (int, error) { t.msgs++; return len(b), nil }
func (t *c11lTransport) Close() error                { return nil }

var c11l struct {
	joined   []*waitgroup.Generation
	joinKeys []uint64
	done     []*waitgroup.Generation
	doneKeys []uint64
	next     int
	probe    bool
}

// Every lookup rung misses, the dedup table always elects this request leader
// of a fresh generation, and what lies downstream is a sink: the question is
// only whether the generation this request now leads is released on every way
// out of Cache.ServeDNS. A generation that is never released wedges every
// later client asking for the same name.
//
//verif:stub (*middleware/cache.Cache).checkCache = c11lNoEntry
//verif:stub (*middleware/cache.Cache).lookupNXDomainCut = c11lNoCut
//verif:stub (*middleware/cache.Cache).lookupDenialProof = c11lNoProof
//verif:stub (*middleware/cache.Store).LookupFailure = c11lNoFailure
//verif:stub (*middleware/cache.Store).FailureRetryKey = c11lRetryKey
//verif:stub (*middleware/cache.Store).failureMissWitness = c11lNoWitness
//verif:stub (*internal/waitgroup.WaitGroup).JoinGeneration = c11lJoin
//verif:stub (*internal/waitgroup.WaitGroup).Regroup = c11lRegroup
//verif:stub (*internal/waitgroup.WaitGroup).DoneGeneration = c11lDone
//verif:stub (*middleware.Chain).Next = c11lNext
func c11lNoEntry(c *Cache, key uint64) *CacheEntry { return nil }
func c11lNoCut(c *Cache, ctx context.Context, req *dns.Msg, scope netip.Prefix) *nxDomainCutEntry {
	return nil
}
func c11lNoProof(c *Cache, ctx context.Context, req *dns.Msg, scope netip.Prefix) (*dns.Msg, middleware.ValidatedNegativeProofKind, string) {
	return nil, middleware.ValidatedNegativeProofUnknown, ""
}
func c11lNoFailure(s *Store, req *dns.Msg, scope netip.Prefix) (FailureHit, bool) {
	return FailureHit{}, false
}
func c11lRetryKey(s *Store, req *dns.Msg, scope netip.Prefix) (uint64, bool) {
	return 4242, c11l.probe
}
func c11lNoWitness(s *Store, qname string, qclass uint16) []denialWitnessPair { return nil }

func c11lJoin(wg *waitgroup.WaitGroup, key uint64) (*waitgroup.Generation, bool) {
	g := new(waitgroup.Generation)
	c11l.joined = append(c11l.joined, g)
	c11l.joinKeys = append(c11l.joinKeys, key)
	return g, true
}
func c11lRegroup(wg *waitgroup.WaitGroup, key uint64, prev *waitgroup.Generation) (*waitgroup.Generation, bool) {
	return c11lJoin(wg, key)
}
func c11lDone(wg *waitgroup.WaitGroup, key uint64, g *waitgroup.Generation) {
	c11l.done = append(c11l.done, g)
	c11l.doneKeys = append(c11l.doneKeys, key)
}
func c11lNext(ch *middleware.Chain, ctx context.Context) { c11l.next++ }

// VerifC11_LeaderAlwaysReleasesItsGeneration
//
//verif:entry tier=quick,thorough
//verif:expect every-led-generation-is-released-exactly-once expired-leader-starts-no-resolution live-leader-resolves-once
//verif:bound one external query that misses every cache rung and is elected leader; request context alive, cancelled, or with a deadline at a symbolic instant (before, between or after the function's clock readings); ordinary miss or expired-failure probe key; recursion desired
//verif:outside follower paths (waiting on another leader: VerifC11_Generations models the generations); what downstream does with the request
func VerifC11_LeaderAlwaysReleasesItsGeneration() {
	c11l.joined, c11l.joinKeys, c11l.done, c11l.doneKeys, c11l.next = nil, nil, nil, nil, 0
	c11l.probe = vBool("failure.probe")
	base := new(c11lCtx)
	if vBool("ctx.cancelled") {
		if vBool("ctx.cancel.deadline") {
			base.err = context.DeadlineExceeded
		} else {
			base.err = context.Canceled
		}
	}
	if vBool("ctx.hasDeadline") {
		base.has, base.dl = true, vTime("ctx.deadline")
	}
	t0 := vNow()
	c := &Cache{store: new(Store), metrics: new(CacheMetrics), wg: new(waitgroup.WaitGroup)}
	c.writerPool.New = func() any { return new(ResponseWriter) }
	req := new(dns.Msg)
	req.SetQuestion("www.example.", dns.TypeA)
	req.Id = vU16("id")
	t := new(c11lTransport)
	ch := middleware.NewChain(nil)
	ch.Reset(t, req)
	c.ServeDNS(base, ch)

	ok := len(c11l.joined) == len(c11l.done)
	for i := range c11l.joined {
		ok = ok && i < len(c11l.done) && c11l.done[i] == c11l.joined[i] && c11l.doneKeys[i] == c11l.joinKeys[i]
	}
	vAssert("every-led-generation-is-released-exactly-once", ok && len(c11l.joined) == 1)
	dead := base.err != nil || (base.has && !t0.Before(base.dl))
	if dead {
		vAssert("expired-leader-starts-no-resolution", c11l.next == 0)
	}
	if base.err == nil && !base.has {
		vAssert("live-leader-resolves-once", c11l.next == 1)
	}
}
