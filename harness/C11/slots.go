//go:build verif

//verif:pkg middleware/resolver
package resolver

import "hash/maphash"

// which bucket a zone hashes to is irrelevant to the accounting
//
//verif:stub hash/maphash.String = c11Hash
func c11Hash(seed maphash.Seed, s string) uint64 { return c11Bucket }

var c11Bucket uint64

// VerifC11_ZoneSlotBalance: the per-zone in-flight limiter never leaks a
// slot: a refused acquire leaves the zone's count exactly as it was, an
// admitted one raises it by one and its release puts it back; the count
// never exceeds the quota. (After load stops every slot is free again.)
//
//verif:entry tier=quick,thorough
//verif:bound every quota 1..2^30, every current count 0..quota, two consecutive acquires on the same zone followed by the releases in either order
func VerifC11_ZoneSlotBalance() {
	c11Bucket = uint64(vChoice("bucket", 3)) * 1365
	l := &zoneInflightLimiter{perZone: vI32("perZone")}
	vAssume(l.perZone >= 1 && l.perZone <= 1<<30)
	b := &l.buckets[c11Hash(l.seed, "zone.example.")%zoneInflightBuckets]
	pre := vI32("inflight")
	vAssume(pre >= 0 && pre <= l.perZone)
	b.Store(pre)

	rel1, ok1 := l.acquire("zone.example.")
	after1 := b.Load()
	if !ok1 {
		vAssert("refusal-leaves-count", after1 == pre && rel1 == nil && pre == l.perZone)
	} else {
		vAssert("admission-takes-one", after1 == pre+1 && after1 <= l.perZone && rel1 != nil)
	}
	rel2, ok2 := l.acquire("zone.example.")
	after2 := b.Load()
	if !ok2 {
		vAssert("second-refusal-leaves-count", after2 == after1 && rel2 == nil)
	} else {
		vAssert("second-admission-takes-one", after2 == after1+1 && after2 <= l.perZone)
	}
	first := vBool("releaseFirstFirst")
	if ok1 && first {
		rel1()
	}
	if ok2 {
		rel2()
	}
	if ok1 && !first {
		rel1()
	}
	vAssert("quiescent-count-restored", b.Load() == pre)
}
