//go:build verif

//verif:pkg internal/waitgroup
package waitgroup

import (
	"context"
	"time"
)

// c11Ctx replaces the timer-backed context: cancellation is a flag, and the
// deadline "fires" when the harness says so (an arbitrary point in the run).
type c11Ctx struct {
	cancelled bool
	timedOut  bool
}

func (c *c11Ctx) Deadline() (time.Time, bool) { return time.Time{}, false }
func (c *c11Ctx) Done() <-chan struct{}       { return nil }
func (c *c11Ctx) Value(key any) any           { return nil }
func (c *c11Ctx) Err() error {
	switch {
	case c.timedOut:
		return context.DeadlineExceeded
	case c.cancelled:
		return context.Canceled
	}
	return nil
}

//verif:stub context.WithTimeout = c11WithTimeout
func c11WithTimeout(parent context.Context, d time.Duration) (context.Context, context.CancelFunc) {
	c := new(c11Ctx)
	return c, func() {
		if !c.timedOut {
			c.cancelled = true
		}
	}
}

const c11Actors = 3

type c11Actor struct {
	gen    *Generation // token held (nil: idle)
	leader bool
}

// VerifC11_Generations: bounded model check of the dedup generations under
// every sequence of atomic operations by up to three callers of one key.
//
//verif:entry tier=quick,thorough
//verif:bound every sequence of 4 (quick) / 6 (thorough) operations from {join, leader-done, follower-regroup, deadline-fires} by 3 actors on one key; each operation atomic as the mutex makes it
func VerifC11_Generations() {
	steps := 4
	if vTier() > 0 {
		steps = 6
	}
	wg := New(time.Second)
	const key = 7
	var act [c11Actors]c11Actor
	var gens []*Generation     // every generation ever created, in order
	leaders := map[*Generation]int{} // how many times leadership of a generation was granted
	finished := map[*Generation]bool{}
	note := func(g *Generation, leader bool) {
		seen := false
		for _, x := range gens {
			seen = seen || x == g
		}
		if !seen {
			gens = append(gens, g)
		}
		if leader {
			leaders[g]++
		}
	}
	for s := 0; s < steps; s++ {
		a := vChoice("actor", c11Actors)
		me := &act[a]
		switch vChoice("op", 4) {
		case 0: // an idle caller arrives
			if me.gen != nil {
				vCut("actor busy")
			}
			g, leader := wg.JoinGeneration(key)
			vAssert("join-returns-token", g != nil)
			vAssert("join-never-hands-out-a-finished-generation-as-leader", !leader || !finished[g])
			note(g, leader)
			me.gen, me.leader = g, leader
		case 1: // a leader finishes
			if me.gen == nil || !me.leader {
				vCut("not a leader")
			}
			g := me.gen
			wg.DoneGeneration(key, g)
			finished[g] = true
			vAssert("done-ends-the-generation", g.Err() != nil)
			wg.mu.RLock()
			cur := wg.groups[key]
			wg.mu.RUnlock()
			vAssert("finished-generation-not-retained", cur != g)
			me.gen, me.leader = nil, false
		case 2: // a follower whose generation ended regroups
			if me.gen == nil || me.leader || me.gen.Err() == nil {
				vCut("not a follower of an ended generation")
			}
			prev := me.gen
			timedOut := prev.Err() == context.DeadlineExceeded
			g, leader := wg.Regroup(key, prev)
			if timedOut {
				vAssert("timed-out-generation-never-re-led", g == prev && !leader)
				me.gen, me.leader = nil, false
				break
			}
			vAssert("regroup-moves-on", g != nil && g != prev)
			vAssert("cohort-shares-one-next", prev.next == g)
			note(g, leader)
			me.gen, me.leader = g, leader
		case 3: // the bounded wait of some live generation expires
			if len(gens) == 0 {
				vCut("no generation")
			}
			g := gens[vChoice("gen", len(gens))]
			c := g.ctx.(*c11Ctx)
			if c.cancelled || c.timedOut {
				vCut("already ended")
			}
			c.timedOut = true
		}
		// safety after every step
		for _, g := range gens {
			vAssert("at-most-one-leader-per-generation", leaders[g] <= 1)
		}
		held := 0
		for i := range act {
			if act[i].leader && act[i].gen != nil && !finished[act[i].gen] {
				held++
				wg.mu.RLock()
				cur := wg.groups[key]
				wg.mu.RUnlock()
				// a live leader's generation is the current one unless it timed out and was superseded
				vAssert("live-leader-is-current-or-timed-out", cur == act[i].gen || act[i].gen.Err() == context.DeadlineExceeded)
			}
		}
		_ = held
	}
}
