//go:build verif

//verif:pkg internal/cache
package cache

// One inductive step of the open-addressing table: a symbolic table that
// satisfies the representation invariant R, one real operation with symbolic
// arguments, then R again plus map semantics for a fresh symbolic probe key.

type c16Map = UInt64Map[uint64]

// The table's correctness must not depend on which hash spreads the keys, so
// primaryIndex is replaced by an uninterpreted function of the key, reduced
// to the table size: the claim then covers every hash function, the real
// one included (over-approximation; the multiply in the real hash is what
// the solvers time out on).
//
//verif:stub (*internal/cache.UInt64Map[uint64]).primaryIndex = c16Hash
func c16Hash(m *c16Map, key uint64) int { return int(vUF1("pidx", key)) & m.mask }

func c16N() int {
	// N=8 (growth to 16) did not finish within the thorough budget on any
	// back end (a few hundred paths in 400 s): both tiers run N=4.
	return 4
}

// c16InCyc: t lies in the cyclic half-open range [h, i).
func c16InCyc(h, t, i int) bool {
	return (h <= i && h <= t && t < i) || (h > i && (t >= h || t < i))
}

// c16Inv is R(m) from DESIGN.md appendix A.1, unrolled over the slots.
func c16Inv(m *c16Map) bool {
	n := len(m.data)
	ok := n > 0 && n&(n-1) == 0 && m.mask == n-1 && m.growAt > 0 && m.growAt < n
	occ := 0
	for i := 0; i < n; i++ {
		ki := m.data[i].Key
		if ki != 0 {
			occ++
		}
		ok = ok && (ki != 0 || m.data[i].Value == 0)
		for j := i + 1; j < n; j++ {
			ok = ok && (ki == 0 || ki != m.data[j].Key)
		}
		h := m.primaryIndex(ki)
		for t := 0; t < n; t++ {
			ok = ok && (ki == 0 || !c16InCyc(h, t, i) || m.data[t].Key != 0)
		}
	}
	z := 0
	if m.hasZeroKey {
		z = 1
	}
	ok = ok && occ <= m.growAt && m.size == occ+z && (m.hasZeroKey || m.zeroVal == 0)
	return ok
}

// c16Abs is the abstraction function: full scan, independent of probing.
func c16Abs(m *c16Map, q uint64) (uint64, bool) {
	if q == 0 {
		return m.zeroVal, m.hasZeroKey
	}
	var v uint64
	found := false
	for i := range m.data {
		if m.data[i].Key == q {
			v, found = m.data[i].Value, true
		}
	}
	return v, found
}

// c16Count: number of reachable entries by scan.
func c16Count(m *c16Map) int {
	c := 0
	for i := range m.data {
		if m.data[i].Key != 0 {
			c++
		}
	}
	if m.hasZeroKey {
		c++
	}
	return c
}

func c16Table() *c16Map { return c16TableN(c16N()) }

func c16TableN(n int) *c16Map {
	m := &c16Map{data: make([]Pair[uint64], n), mask: n - 1, growAt: n * 3 / 4}
	for i := 0; i < n; i++ {
		m.data[i].Key = vU64("key")
		m.data[i].Value = vU64("val")
	}
	m.hasZeroKey = vBool("hasZero")
	m.zeroVal = vU64("zeroVal")
	m.size = vInt("size")
	vAssume(c16Inv(m))
	return m
}

// after: the real Get and the scan agree with the expected map semantics.
func c16CheckProbe(m *c16Map, q uint64, wantV uint64, wantOK bool, tag string) {
	gv, gok := m.Get(q)
	av, aok := c16Abs(m, q)
	vAssert(tag+"-get-eq-spec", gok == wantOK && (!wantOK || gv == wantV))
	vAssert(tag+"-scan-eq-spec", aok == wantOK && (!wantOK || av == wantV))
	vAssert(tag+"-has-eq-get", m.Has(q) == gok)
}

//verif:entry tier=quick,thorough
//verif:bound N=4 slots (both tiers; N=8 exceeded the budget), growth to 2N included; all 2^64 keys and values; arbitrary R-state
func VerifC16_Put() {
	m := c16Table()
	k, v, q := vU64("k"), vU64("v"), vU64("q")
	pv, pok := c16Abs(m, q)
	_, had := c16Abs(m, k)
	before := m.Len()
	m.Put(k, v)
	vAssert("put-inv", c16Inv(m))
	wantV, wantOK := pv, pok
	if q == k {
		wantV, wantOK = v, true
	}
	c16CheckProbe(m, q, wantV, wantOK, "put")
	d := 1
	if had {
		d = 0
	}
	vAssert("put-len", m.Len() == before+d && m.Len() == c16Count(m))
}

//verif:entry tier=quick,thorough
//verif:bound as VerifC16_Put
func VerifC16_PutIfNotExists() {
	m := c16Table()
	k, v, q := vU64("k"), vU64("v"), vU64("q")
	pv, pok := c16Abs(m, q)
	kv, had := c16Abs(m, k)
	before := m.Len()
	rv, inserted := m.PutIfNotExists(k, v)
	vAssert("pine-inv", c16Inv(m))
	vAssert("pine-result", inserted == !had && ((had && rv == kv) || (!had && rv == v)))
	wantV, wantOK := pv, pok
	if q == k && !had {
		wantV, wantOK = v, true
	}
	c16CheckProbe(m, q, wantV, wantOK, "pine")
	d := 0
	if inserted {
		d = 1
	}
	vAssert("pine-len", m.Len() == before+d && m.Len() == c16Count(m))
}

//verif:entry tier=quick,thorough
//verif:bound as VerifC16_Put (no growth on delete)
func VerifC16_Del() {
	m := c16Table()
	k, q := vU64("k"), vU64("q")
	pv, pok := c16Abs(m, q)
	_, had := c16Abs(m, k)
	before := m.Len()
	removed := m.Del(k)
	vAssert("del-inv", c16Inv(m))
	vAssert("del-result", removed == had)
	wantV, wantOK := pv, pok
	if q == k {
		wantV, wantOK = 0, false
	}
	c16CheckProbe(m, q, wantV, wantOK, "del")
	d := 0
	if had {
		d = 1
	}
	vAssert("del-len", m.Len() == before-d && m.Len() == c16Count(m))
}

//verif:entry tier=quick,thorough
//verif:bound as VerifC16_Put; offset any int, n in 0..3, skip any key
func VerifC16_Evict() {
	m := c16Table()
	off, n, skip, q := vInt("offset"), vInt("n"), vU64("skip"), vU64("q")
	vAssume(n >= -1 && n <= 3)
	pv, pok := c16Abs(m, q)
	_, skipHad := c16Abs(m, skip)
	before := m.Len()
	deleted := m.EvictKeysAt(off, n, skip)
	vAssert("evict-inv", c16Inv(m))
	vAssert("evict-count", deleted >= 0 && (n <= 0 || deleted <= n) && (n > 0 || deleted == 0) && m.Len() == before-deleted && m.Len() == c16Count(m))
	gv, gok := m.Get(q)
	av, aok := c16Abs(m, q)
	// a key is either still there with its value, or was evicted; the skipped key is never evicted
	vAssert("evict-get-eq-scan", gok == aok && (!gok || gv == av))
	vAssert("evict-no-new-or-changed", !gok || (pok && gv == pv))
	vAssert("evict-skip-protected", q != skip || gok == pok)
	_ = skipHad
	// enough victims => exactly n deleted
	avail := before
	if skipHad {
		avail--
	}
	vAssert("evict-takes-n-when-available", n <= 0 || avail < n || deleted == n)
}

//verif:entry tier=quick,thorough
//verif:bound as VerifC16_Put
func VerifC16_GrowClear() {
	m := c16Table()
	q := vU64("q")
	pv, pok := c16Abs(m, q)
	before := m.Len()
	if vBool("doGrow") {
		n0 := len(m.data)
		m.grow()
		vAssert("grow-inv", c16Inv(m) && len(m.data) == 2*n0)
		c16CheckProbe(m, q, pv, pok, "grow")
		vAssert("grow-len", m.Len() == before && m.Len() == c16Count(m))
	} else {
		m.Clear()
		vAssert("clear-inv", c16Inv(m) && m.Len() == 0)
		c16CheckProbe(m, q, 0, false, "clear")
	}
}
