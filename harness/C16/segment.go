//go:build verif

//verif:pkg internal/cache
package cache

// Segmented wrapper, single writer: two segments, each an arbitrary table
// satisfying R; the global count equals the sum of the segment sizes.
//
//verif:stub (*internal/cache.UInt64Map[uint64]).primaryIndex = c16Hash
//verif:stub (*internal/cache.SegmentUInt64Map[uint64]).getSegmentIndex = c16SegIdx
func c16SegIdx(m *SegmentUInt64Map[uint64], key uint64) uint {
	return uint(vUF1("segidx", key)) & uint(m.segmentMask)
}

func c16Seg() *SegmentUInt64Map[uint64] {
	m := &SegmentUInt64Map[uint64]{segmentMask: 1, segmentBits: 1}
	m.segments = []*segment[uint64]{{data: c16TableN(2)}, {data: c16TableN(2)}}
	m.count.Store(int64(m.segments[0].data.Len() + m.segments[1].data.Len()))
	// representation invariant of the wrapper: an entry lives in the segment
	// its key selects (a state no history reaches otherwise: every insert
	// goes through getSegmentIndex)
	for i, sg := range m.segments {
		for j := range sg.data.data {
			k := sg.data.data[j].Key
			vAssume(k == 0 || c16SegIdx(m, k) == uint(i))
		}
		vAssume(!sg.data.hasZeroKey || c16SegIdx(m, 0) == uint(i))
	}
	return m
}

func c16SegInv(m *SegmentUInt64Map[uint64]) bool {
	return c16Inv(m.segments[0].data) && c16Inv(m.segments[1].data) &&
		m.count.Load() == int64(m.segments[0].data.Len()+m.segments[1].data.Len())
}

// abstraction: which value a key has, looking only at the segment it hashes to
func c16SegAbs(m *SegmentUInt64Map[uint64], q uint64) (uint64, bool) {
	return c16Abs(m.segments[c16SegIdx(m, q)].data, q)
}

//verif:entry tier=quick,thorough
//verif:bound 2 segments x N=2 slots growing to 4 (both tiers), arbitrary R-states, all keys/values, capacity any int64; segment index and slot hash are uninterpreted functions of the key
func VerifC16_SegmentSetWithCap() {
	m := c16Seg()
	k, v, q := vU64("k"), vU64("v"), vU64("q")
	capacity := vI64("capacity")
	pv, pok := c16SegAbs(m, q)
	pre := m.Len()
	m.SetWithCap(k, v, capacity)
	vAssert("segcap-inv", c16SegInv(m))
	gv, gok := m.Get(k)
	vAssert("insert-never-evicts-its-own-key", gok && gv == v)
	post := m.Len()
	vAssert("insert-adds-at-most-one", post <= pre+1)
	// single writer: from within capacity the table ends within capacity,
	// or holds nothing but the key just written
	if pre <= capacity {
		vAssert("stays-within-capacity-unless-alone", post <= capacity || post == 1)
	}
	// and from the one-over state a concurrent writer may leave behind it
	// does not drift further
	if pre == capacity+1 && pre > 1 {
		vAssert("over-capacity-state-does-not-grow", post <= pre)
	}
	// any other key keeps its value or was evicted; nothing changes value or appears
	if q != k {
		nv, nok := c16SegAbs(m, q)
		vAssert("others-unchanged-or-evicted", !nok || (pok && nv == pv))
		rv, rok := m.Get(q)
		vAssert("get-agrees-with-scan", rok == nok && (!rok || rv == nv))
	}
	vAssert("never-two-segment-locks", vMaxLocks() <= 1 && vLocksHeld() == 0)
}

//verif:entry tier=quick,thorough
//verif:bound as VerifC16_SegmentSetWithCap
func VerifC16_SegmentSetDel() {
	m := c16Seg()
	k, v, q := vU64("k"), vU64("v"), vU64("q")
	pv, pok := c16SegAbs(m, q)
	_, had := c16SegAbs(m, k)
	pre := m.Len()
	if vBool("doDel") {
		removed := m.Del(k)
		vAssert("del-inv", c16SegInv(m))
		vAssert("del-result-and-count", removed == had && m.Len() == pre-c16B2I(had))
		nv, nok := c16SegAbs(m, q)
		vAssert("del-map-semantics", (q == k && !nok) || (q != k && nok == pok && (!nok || nv == pv)))
	} else {
		m.Set(k, v)
		vAssert("set-inv", c16SegInv(m))
		vAssert("set-count", m.Len() == pre+c16B2I(!had))
		nv, nok := c16SegAbs(m, q)
		vAssert("set-map-semantics", (q == k && nok && nv == v) || (q != k && nok == pok && (!nok || nv == pv)))
	}
	vAssert("one-lock-at-a-time", vMaxLocks() <= 1 && vLocksHeld() == 0)
}

func c16B2I(b bool) int64 {
	if b {
		return 1
	}
	return 0
}
