//go:build verif

//verif:pkg internal/cache
package cache

// Identity compare-and-swap / compare-and-delete of the bounded cache, over a
// two-segment table of interface values (pointer identity).
//
//verif:stub (*internal/cache.UInt64Map[any]).primaryIndex = c16HashAny
//verif:stub (*internal/cache.SegmentUInt64Map[any]).getSegmentIndex = c16SegIdxAny
func c16HashAny(m *UInt64Map[any], key uint64) int { return int(vUF1("pidx", key)) & m.mask }
func c16SegIdxAny(m *SegmentUInt64Map[any], key uint64) uint {
	return uint(vUF1("segidx", key)) & uint(m.segmentMask)
}

type c16Val struct{ n int }

// VerifC16_CASIdentity: CompareAndSwap / CompareAndDelete act only when the
// identical current value is present; otherwise nothing changes. (The late
// write of a background refresh never overwrites newer data.)
//
//verif:entry tier=quick,thorough
//verif:also C04
//verif:bound two segments with 4 slots; the probed key present with value A, present with a different value B, or absent; a second unrelated key present or not; old argument drawn from {A, B, nil}, new value from {A, B, a fresh C} (so old == new is included); all key values
func VerifC16_CASIdentity() {
	a, b, c := &c16Val{1}, &c16Val{2}, &c16Val{3}
	m := NewSegmentUInt64Map[any](4, 64)
	m.segments = m.segments[:2]
	m.segmentMask, m.segmentBits = 1, 1
	for _, s := range m.segments {
		s.data = &UInt64Map[any]{data: make([]Pair[any], 4), mask: 3, growAt: 3}
	}
	cch := &Cache{data: &SyncUInt64Map[any]{data: m}, maxSize: 64}
	k, other := vU64("k"), vU64("other")
	vAssume(k != other)
	var cur any
	switch vChoice("current", 3) {
	case 0:
		cur = a
		m.Set(k, a)
	case 1:
		cur = b
		m.Set(k, b)
	}
	if vBool("otherPresent") {
		m.Set(other, c)
	}
	var old any
	switch vChoice("old", 3) {
	case 0:
		old = a
	case 1:
		old = b
	}
	// the replacement may be the very value named as old (an idempotent
	// refresh), the other known value, or a fresh one
	var nw any = c
	switch vChoice("new", 3) {
	case 0:
		nw = a
	case 1:
		nw = b
	}
	pre := cch.Len()
	ov, ook := cch.Get(other)
	if vBool("doSwap") {
		swapped := cch.CompareAndSwap(k, old, nw)
		nv, nok := cch.Get(k)
		if cur != nil && old == cur {
			vAssert("swap-when-identical", swapped && nok && nv == nw)
		} else {
			vAssert("no-swap-otherwise", !swapped && nok == (cur != nil) && (!nok || nv == cur))
		}
		vAssert("swap-keeps-count", cch.Len() == pre)
	} else {
		deleted := cch.CompareAndDelete(k, old)
		nv, nok := cch.Get(k)
		if cur != nil && old == cur {
			vAssert("delete-when-identical", deleted && !nok && cch.Len() == pre-1)
		} else {
			vAssert("no-delete-otherwise", !deleted && nok == (cur != nil) && (!nok || nv == cur) && cch.Len() == pre)
		}
	}
	nov, nook := cch.Get(other)
	vAssert("other-key-untouched", nook == ook && nov == ov)
	vAssert("one-lock-at-a-time", vMaxLocks() <= 1 && vLocksHeld() == 0)
}
