//go:build verif

//verif:pkg middleware/resolver
package resolver

import (
	"context"
	"time"

	"github.com/miekg/dns"
	"github.com/semihalev/sdns/internal/authority"
	"github.com/semihalev/sdns/middleware"
)

var c08d struct {
	calls    int
	deadline time.Time
	key      uint64
	depth    int
	level    int
	same     bool
}

// The descent itself (network, validation) is a sink that records the lease
// it is handed; whether the cached servers are the ones already being asked
// (the loop heuristic) is arbitrary.
//
//verif:stub (*middleware/resolver.Resolver).resolve = c08dResolve
//verif:stub (*middleware/resolver.Resolver).equalServers = c08dEqual
//verif:stub middleware/resolver.debugLogEnabled = c08dNoDebug
func c08dResolve(r *Resolver, ctx context.Context, rs *resolveState) (*dns.Msg, error) {
	c08d.calls++
	c08d.deadline, c08d.key, c08d.depth, c08d.level = rs.cutDeadline, rs.cutKey, rs.depth, rs.level
	return nil, nil
}

func c08dEqual(r *Resolver, a, b *authority.Servers) bool { return c08d.same }
func c08dNoDebug() bool                                   { return false }

// VerifC08_CachedDescentKeepsShorterLease: descending through a cached
// delegation keeps the shorter of the cached lease and the lease the request
// already carries, hands it to the answer cache, and always spends depth.
//
//verif:entry tier=quick,thorough
//verif:also C12
//verif:expect descent-lease-never-later-than-the-cached-lease descent-lease-never-later-than-the-inherited-lease answer-cache-cut-never-later-than-the-descent-lease cached-descent-always-spends-depth exhausted-depth-stops-the-descent
//verif:bound one call of Resolver.resolveWithCachedNameservers; inherited lease and cached lease each zero (unbounded) or any instant; remaining depth any int32; cached servers same-as-current or not; request meta present
//verif:outside what resolve() does next (a sink); leases compared as instants on one clock line
func VerifC08_CachedDescentKeepsShorterLease() {
	c08d.calls = 0
	c08d.same = vBool("cached.sameServers")
	rs := &resolveState{req: new(dns.Msg), servers: new(authority.Servers)}
	rs.req.Question = []dns.Question{{Name: "www.sub.example.", Qtype: dns.TypeA, Qclass: dns.ClassINET}}
	depth0 := int(vI32("depth"))
	rs.depth = depth0
	rs.level = 2
	var inherited, cachedExp time.Time
	if vBool("inherited.bounded") {
		inherited = vTime("inherited.deadline")
		vAssume(!inherited.IsZero())
	}
	if vBool("cached.bounded") {
		cachedExp = vTime("cached.expires")
		vAssume(!cachedExp.IsZero())
	}
	rs.cutDeadline, rs.cutKey = inherited, vU64("inherited.key")
	cached := &authority.Delegation{Servers: new(authority.Servers), ExpiresAt: cachedExp}
	meta := new(middleware.ResponseMeta)
	ctx := middleware.WithResponseMeta(context.Background(), meta)
	key := vU64("cached.key")
	_, err := new(Resolver).resolveWithCachedNameservers(ctx, rs, cached, key, rs.req.Question[0], false)

	if c08d.calls == 0 {
		vAssert("exhausted-depth-stops-the-descent", err != nil && depth0 <= 10)
		return
	}
	vAssert("cached-descent-always-spends-depth", c08d.calls == 1 && c08d.depth < depth0 && c08d.depth > 0)
	if !cachedExp.IsZero() {
		vAssert("descent-lease-never-later-than-the-cached-lease", !c08d.deadline.IsZero() && !c08d.deadline.After(cachedExp))
	}
	if !inherited.IsZero() {
		vAssert("descent-lease-never-later-than-the-inherited-lease", !c08d.deadline.IsZero() && !c08d.deadline.After(inherited))
	}
	cut := meta.CutUntil()
	if !c08d.deadline.IsZero() {
		vAssert("answer-cache-cut-never-later-than-the-descent-lease", !cut.IsZero() && !cut.After(c08d.deadline))
	}
}
