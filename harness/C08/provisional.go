//go:build verif

//verif:pkg middleware/resolver
package resolver

import (
	"context"
	"net/netip"
	"time"

	"github.com/miekg/dns"
	"github.com/semihalev/sdns/internal/authority"
)

var c08p struct {
	until    []time.Time
	clocks   []time.Time
	lookups  int
	failAddr bool
}

// The address lookups for glueless nameservers (network) answer arbitrarily;
// the delegation cache is a sink that records every provisional lease.
//
//verif:stub (*internal/authority.Cache).SetUntil = c08pSetUntil
//verif:stub (*middleware/resolver.Resolver).lookupNSAddrV4 = c08pLookup
//verif:stub (*middleware/resolver.Resolver).addIPv4Cache = c08pAddCache
//verif:stub (*middleware/resolver.Resolver).getIPv4Cache = c08pGetCache
//verif:stub internal/authority.NewServerFromAddrPort = c08pServer
func c08pSetUntil(n *authority.Cache, key uint64, dsSet []dns.RR, servers *authority.Servers, expiresAt time.Time) {
	c08p.until = append(c08p.until, expiresAt)
	c08p.clocks = append(c08p.clocks, vNow())
}

func c08pLookup(r *Resolver, ctx context.Context, qname string, cd bool) ([]netip.Addr, error) {
	c08p.lookups++
	if vBool("nsaddr.lookup.fails") {
		return nil, errC08pNet
	}
	return []netip.Addr{netip.AddrFrom4([4]byte{192, 0, 2, byte(10 + c08p.lookups)})}, nil
}

func c08pAddCache(r *Resolver, m map[string][]netip.Addr)              {}
func c08pGetCache(r *Resolver, name string) ([]netip.Addr, bool)        { return nil, false }
func c08pServer(ap netip.AddrPort) *authority.Server                    { return new(authority.Server) }

type c08pErr struct{}

func (c08pErr) Error() string { return "i/o timeout" }

var errC08pNet error = c08pErr{}

// VerifC08_ProvisionalDelegationBoundedByCut: while the addresses of glueless
// nameservers are being looked up, the partially built delegation is
// published so concurrent queries can use it - but never for longer than the
// lease the parent granted (already over included), and never for more than a
// minute.
//
//verif:entry tier=quick,thorough
//verif:expect provisional-lease-never-later-than-the-cut provisional-lease-at-most-a-minute some-provisional-entry-published
//verif:bound one delegation with one glued and two glueless nameservers; lease (cut) absent, or any instant - in the past, within the minute, far ahead; each address lookup fails or succeeds arbitrarily; DNSSEC off (so the trust-anchor gate is open)
//verif:outside the lookups themselves; IPv6 enrichment
func VerifC08_ProvisionalDelegationBoundedByCut() {
	c08p.until, c08p.clocks, c08p.lookups = nil, nil, 0
	r := new(Resolver)
	r.delegations = new(authority.Cache)
	var cut time.Time
	if vBool("cut.present") {
		cut = vTime("cut")
		vAssume(!cut.IsZero())
	}
	servers := &authority.Servers{List: []*authority.Server{new(authority.Server)}}
	hosts := hostSet{"ns1.example.": {}, "ns2.example.": {}, "ns3.example.": {}}
	found := hostSet{"ns1.example.": {}}
	q := dns.Question{Name: "example.", Qtype: dns.TypeNS, Qclass: dns.ClassINET}
	start := vNow()
	err := r.lookupV4Nss(context.Background(), q, servers, vU64("key"), nil, found, hosts, false, cut)
	_ = err
	for i, e := range c08p.until {
		vReach("some-provisional-entry-published")
		if !cut.IsZero() {
			vAssert("provisional-lease-never-later-than-the-cut", !e.IsZero() && !e.After(cut))
		}
		vAssert("provisional-lease-at-most-a-minute", !e.IsZero() && !e.After(c08p.clocks[i].Add(time.Minute)) && !start.After(c08p.clocks[i]))
	}
}
