//go:build verif

//verif:pkg internal/authority
package authority

import (
	"time"

	"github.com/semihalev/sdns/internal/cache"
)

// The table behind the delegation cache is C16's subject; one-cell map model here.
var c08Cell struct {
	has bool
	key uint64
	val any
}

//verif:stub (*internal/cache.Cache).Get = c08Get
//verif:stub (*internal/cache.Cache).Add = c08Add
func c08Get(c *cache.Cache, key uint64) (any, bool) {
	if c08Cell.has && c08Cell.key == key {
		return c08Cell.val, true
	}
	return nil, false
}

func c08Add(c *cache.Cache, key uint64, value any) {
	c08Cell.has, c08Cell.key, c08Cell.val = true, key, value
}

var c08Clock time.Time

func c08Now() time.Time { return c08Clock }

func c08Cache() *Cache {
	c08Cell.has, c08Cell.key, c08Cell.val = false, 0, nil
	c08Clock = vNow()
	return &Cache{cache: new(cache.Cache), now: c08Now}
}

// VerifC08_SetUntil: an absolute lease is stored verbatim, capped at 12 h
// from now, never extended, and not at all when already over.
//
//verif:entry tier=quick,thorough
//verif:bound arbitrary clock, arbitrary requested expiry (any instant, zero included), arbitrary key
func VerifC08_SetUntil() {
	n := c08Cache()
	now := c08Clock
	var want time.Time
	if vBool("nonzero") {
		want = vTime("expiresAt")
	}
	key := vU64("key")
	servers := new(Servers)
	n.SetUntil(key, nil, servers, want)
	if !want.After(now) {
		vAssert("past-or-zero-not-stored", !c08Cell.has)
		return
	}
	vAssert("stored", c08Cell.has && c08Cell.key == key)
	d := c08Cell.val.(*Delegation)
	vAssert("never-later-than-requested", !d.ExpiresAt.After(want))
	vAssert("never-later-than-12h", !d.ExpiresAt.After(now.Add(12*time.Hour)))
	vAssert("no-lower-clamp", d.ExpiresAt.Equal(want) || d.ExpiresAt.Equal(now.Add(12*time.Hour)))
	vAssert("servers-kept", d.Servers == servers)
}

// VerifC08_SetRelative: same for the relative form.
//
//verif:entry tier=quick,thorough
//verif:bound arbitrary clock, any ttl (64-bit), arbitrary key
func VerifC08_SetRelative() {
	n := c08Cache()
	now := c08Clock
	ttl := time.Duration(vI64("ttl"))
	n.Set(vU64("key"), nil, new(Servers), ttl)
	if ttl <= 0 {
		vAssert("nonpositive-not-stored", !c08Cell.has)
		return
	}
	vAssert("stored", c08Cell.has)
	d := c08Cell.val.(*Delegation)
	life := d.ExpiresAt.Sub(now)
	vAssert("lease-le-requested-and-12h", life <= ttl && life <= 12*time.Hour && life > 0)
	vAssert("no-floor", life == ttl || life == 12*time.Hour)
}

// VerifC08_GetRespectsLease: a hit is returned only strictly before its expiry.
//
//verif:entry tier=quick,thorough
//verif:bound arbitrary stored expiry, arbitrary later clock, same or different key
func VerifC08_GetRespectsLease() {
	n := c08Cache()
	exp := vTime("expiresAt")
	key := vU64("key")
	c08Cell.has, c08Cell.key, c08Cell.val = true, key, &Delegation{Servers: new(Servers), ExpiresAt: exp}
	c08Clock = vNow()
	probe := vU64("probe")
	d, err := n.Get(probe)
	if probe != key {
		vAssert("other-key-misses", d == nil && err != nil)
		return
	}
	vAssert("hit-iff-before-expiry", (d != nil) == c08Clock.Before(exp) && (d == nil) == (err != nil))
	vAssert("hit-is-the-stored-lease", d == nil || d.ExpiresAt.Equal(exp))
}
