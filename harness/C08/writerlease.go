//go:build verif

//verif:pkg middleware/cache
package cache

import (
	"context"
	"net"
	"net/netip"
	"time"

	"github.com/miekg/dns"
	"github.com/semihalev/sdns/middleware"
)

// every shared-state write of the cache's write-back is a sink that records
// the lease it was given
var c08w struct {
	leases []time.Time
	keys   []uint64
	kinds  []string
}

//verif:stub (*middleware/cache.Store).RecordDenialProof = c08wRecordProof
//verif:stub (*middleware/cache.Store).RecordNXDomainCut = c08wRecordCut
//verif:stub (*middleware/cache.Store).SetFromResponseWithKey = c08wSet
//verif:stub (*middleware/cache.Store).SetFromResponseScoped = c08wSetScoped
//verif:stub (*middleware/cache.Store).resetMatchingFailures = c08wReset
//verif:stub (*middleware/cache.Cache).additionalAnswer = c08wNoChase
//verif:stub middleware.validatedNegativeProofFingerprint = c08wSeal
func c08wRecordProof(s *Store, proof *dns.Msg, zone string, kind middleware.ValidatedNegativeProofKind, cutUntil time.Time) bool {
	c08w.leases, c08w.keys, c08w.kinds = append(c08w.leases, cutUntil), append(c08w.keys, 0), append(c08w.kinds, "proof")
	return true
}

func c08wRecordCut(s *Store, proof *dns.Msg, deniedName, zone string, cutUntil time.Time) bool {
	c08w.leases, c08w.keys, c08w.kinds = append(c08w.leases, cutUntil), append(c08w.keys, 0), append(c08w.kinds, "cut")
	return true
}

func c08wSet(s *Store, key uint64, resp *dns.Msg, cutUntil time.Time, cutKey uint64) {
	c08w.leases, c08w.keys, c08w.kinds = append(c08w.leases, cutUntil), append(c08w.keys, cutKey), append(c08w.kinds, "entry")
}

func c08wSetScoped(s *Store, key uint64, resp *dns.Msg, scope netip.Prefix, cutUntil time.Time, cutKey uint64) {
	c08w.leases, c08w.keys, c08w.kinds = append(c08w.leases, cutUntil), append(c08w.keys, cutKey), append(c08w.kinds, "entry")
}

func c08wReset(s *Store, q dns.Question, cd bool, scope netip.Prefix)  {}
func c08wNoChase(c *Cache, ctx context.Context, msg *dns.Msg) *dns.Msg { return msg }
func c08wSeal(proof *dns.Msg) ([32]byte, bool)                         { return [32]byte{1}, proof != nil }

type c08wSink struct{ wrote *dns.Msg }

func (s *c08wSink) LocalAddr() net.Addr         { return nil }
func (s *c08wSink) RemoteAddr() net.Addr        { return nil }
func (s *c08wSink) WriteMsg(m *dns.Msg) error   { s.wrote = m; return nil }
func (s *c08wSink) Write(b []byte) (int, error) { return len(b), nil }
func (s *c08wSink) Close() error                { return nil }
func (s *c08wSink) Msg() *dns.Msg               { return s.wrote }
func (s *c08wSink) Rcode() int                  { return 0 }
func (s *c08wSink) Written() bool               { return s.wrote != nil }
func (s *c08wSink) Proto() string               { return "udp" }
func (s *c08wSink) RemoteIP() net.IP            { return nil }
func (s *c08wSink) Internal() bool              { return false }

// VerifC08_WriteBackFilesTheLeaseWithEverythingItStores: whatever the cache's
// write-back stores for a resolved answer - the entry itself (shared or
// audience-scoped), an aggressive denial proof, a subtree cut - is stored
// with exactly the delegation lease the resolution accumulated in the request
// tree's meta, so none of it outlives the delegation it was learned through;
// no lease (forwarded or local answers) leaves them unbounded.
//
//verif:entry tier=quick,thorough
//verif:also C04
//verif:expect every-stored-item-carries-the-requests-lease the-answer-itself-is-stored denial-state-carries-the-lease-too
//verif:bound one write-back of a positive answer or a validated (aggressive or not) NXDOMAIN / NODATA; request meta with no lease or a lease at any instant with any delegation key; client scope none or 198.51.100.0/24 with the authority's scope echoed or not
//verif:outside how the stores apply the lease (VerifC04_Remaining, VerifC04_DenialProofExpiry, VerifC08_GetRespectsLease); how the resolver accumulates it (VerifC08_LeaseDerivation, VerifC08_CachedDescentKeepsShorterLease); the alias chase before the write (VerifC04_ChaseInheritsLifetime, also run for C08)
func VerifC08_WriteBackFilesTheLeaseWithEverythingItStores() {
	c08w.leases, c08w.keys, c08w.kinds = nil, nil, nil
	meta := new(middleware.ResponseMeta)
	var lease time.Time
	var leaseKey uint64
	if vBool("resolution.accumulated.a.lease") {
		lease, leaseKey = vTime("lease"), vU64("lease.key")
		vAssume(!lease.IsZero())
		meta.BoundCutFor(lease, leaseKey)
	}
	ctx := middleware.WithResponseMeta(context.Background(), meta)
	req := new(dns.Msg)
	req.SetQuestion("www.example.", dns.TypeA)
	res := new(dns.Msg)
	res.SetReply(req)
	negative := false
	switch vChoice("answer.kind", 3) {
	case 0:
		res.Answer = []dns.RR{&dns.A{Hdr: dns.RR_Header{Name: "www.example.", Rrtype: dns.TypeA, Class: dns.ClassINET, Ttl: 300}, A: net.IP{192, 0, 2, 1}}}
	case 1:
		res.Rcode = dns.RcodeNameError
		negative = true
	default:
		negative = true
	}
	if negative {
		res.Ns = []dns.RR{&dns.SOA{Hdr: dns.RR_Header{Name: "example.", Rrtype: dns.TypeSOA, Class: dns.ClassINET, Ttl: 300}, Ns: "ns.example.", Mbox: "h.example.", Minttl: 300}}
		if vBool("denial.validated") {
			middleware.MarkValidatedNegativeProofResponse(ctx, res, middleware.ValidatedNegativeProof{Subject: "www.example.", Zone: "example.", Kind: middleware.ValidatedNegativeProofNSEC, Aggressive: vBool("denial.aggressive")})
		}
	}
	w := &ResponseWriter{ResponseWriter: new(c08wSink), cache: &Cache{store: new(Store)}, ctx: ctx, req: req, meta: meta}
	if vBool("client.scope") {
		w.clientScope = netip.MustParsePrefix("198.51.100.0/24")
		if vBool("authority.echoes.scope") {
			opt := &dns.OPT{Hdr: dns.RR_Header{Name: ".", Rrtype: dns.TypeOPT}}
			opt.Option = []dns.EDNS0{&dns.EDNS0_SUBNET{Code: dns.EDNS0SUBNET, Family: 1, SourceNetmask: 24, SourceScope: 24, Address: net.IP{198, 51, 100, 0}}}
			res.Extra = []dns.RR{opt}
		}
	}
	err := w.WriteMsg(res)
	vAssume(err == nil)

	entries := 0
	ok := true
	for i, l := range c08w.leases {
		ok = ok && l.Equal(lease) && (c08w.kinds[i] != "entry" || c08w.keys[i] == leaseKey)
		if c08w.kinds[i] == "entry" {
			entries++
		} else {
			vReach("denial-state-carries-the-lease-too")
		}
	}
	vAssert("every-stored-item-carries-the-requests-lease", ok)
	vAssert("the-answer-itself-is-stored", entries == 1)
}
