//go:build verif

//verif:pkg middleware/resolver
//verif:profile arith
package resolver

import (
	"context"
	"time"

	"github.com/miekg/dns"
	"github.com/semihalev/sdns/config"
	"github.com/semihalev/sdns/internal/authority"
	"github.com/semihalev/sdns/middleware"
)

// processDelegation with its network / crypto / cache callees replaced by
// nondeterministic stubs; every call that publishes or propagates a lease is
// a sink whose deadline is checked.
var c08 struct {
	dsTTLs     []uint32
	dsErr      bool
	cachedHit  bool
	cachedExp  time.Time
	sinkCount  int
	deadlines  []time.Time
	resolveRS  []*resolveState
	cachedRS   []*resolveState
	setUntil   []time.Time
}

//verif:stub (*middleware/resolver.Resolver).validateDelegation = c08Validate
func c08Validate(r *Resolver, ctx context.Context, req, resp *dns.Msg, q dns.Question, parentDS []dns.RR, zone string) ([]dns.RR, error) {
	if c08.dsErr {
		return nil, errVerif
	}
	var out []dns.RR
	for _, t := range c08.dsTTLs {
		out = append(out, &dns.DS{Hdr: dns.RR_Header{Name: q.Name, Rrtype: dns.TypeDS, Class: dns.ClassINET, Ttl: t}})
	}
	return out, nil
}

//verif:stub (*middleware/resolver.Resolver).clearResolutionZoneFailure = c08Clear
func c08Clear(r *Resolver, q dns.Question, zone string) {}

//verif:stub (*middleware/resolver.Resolver).recordResolutionZoneFailure = c08Record
func c08Record(r *Resolver, ctx context.Context, q dns.Question, zone string, cause error) {}

//verif:stub middleware/resolver.debugLogEnabled = c08NoDebug
func c08NoDebug() bool { return false }

//verif:stub middleware/resolver.noteCut = c08NoteCut
func c08NoteCut(ctx context.Context, deadline time.Time, key uint64) {
	c08.deadlines = append(c08.deadlines, deadline)
}

//verif:stub (*internal/authority.Cache).Get = c08Get
func c08Get(n *authority.Cache, key uint64) (*authority.Delegation, error) {
	if c08.cachedHit {
		return &authority.Delegation{Servers: new(authority.Servers), ExpiresAt: c08.cachedExp}, nil
	}
	return nil, errVerif
}

//verif:stub (*internal/authority.Cache).SetUntil = c08SetUntil
func c08SetUntil(n *authority.Cache, key uint64, dsSet []dns.RR, servers *authority.Servers, expiresAt time.Time) {
	c08.setUntil = append(c08.setUntil, expiresAt)
	c08.deadlines = append(c08.deadlines, expiresAt)
}

//verif:stub (*middleware/resolver.Resolver).resolveWithCachedNameservers = c08Cached
func c08Cached(r *Resolver, ctx context.Context, rs *resolveState, cached *authority.Delegation, key uint64, q dns.Question, cd bool) (*dns.Msg, error) {
	c08.cachedRS = append(c08.cachedRS, rs)
	c08.deadlines = append(c08.deadlines, rs.cutDeadline)
	return nil, nil
}

//verif:stub (*middleware/resolver.Resolver).checkGlueRR = c08Glue
func c08Glue(r *Resolver, resp *dns.Msg, hosts hostSet, level int) (*authority.Servers, hostSet, hostSet) {
	s := new(authority.Servers)
	if vBool("glue.usable") {
		s.List = append(s.List, new(authority.Server))
	}
	return s, hostSet{}, hostSet{}
}

//verif:stub (*middleware/resolver.Resolver).lookupV4Nss = c08LookupV4
func c08LookupV4(r *Resolver, ctx context.Context, q dns.Question, authservers *authority.Servers, key uint64, parentDS []dns.RR, foundv4, hosts hostSet, cd bool, cutDeadline time.Time) error {
	c08.deadlines = append(c08.deadlines, cutDeadline)
	if vBool("nslookup.err") {
		return errVerif
	}
	return nil
}

//verif:stub (*middleware/resolver.Resolver).hasTrustAnchors = c08Anchors
func c08Anchors(r *Resolver) bool { return vBool("hasTrustAnchors") }

//verif:stub (*middleware/resolver.Resolver).resolve = c08Resolve
func c08Resolve(r *Resolver, ctx context.Context, rs *resolveState) (*dns.Msg, error) {
	c08.resolveRS = append(c08.resolveRS, rs)
	return nil, nil
}

// VerifC08_LeaseDerivation: every lease that processDelegation publishes or
// hands down - the answer-cache cut, the delegation-cache expiry, the cut given
// to nameserver-address lookups, the cut inherited by deeper resolution - ends
// no later than (first clock reading of the call) + min NS TTL, + min DS TTL
// when a DS is retained, and the cut inherited from shallower delegations;
// and the request's work ledger travels with every continuation.
//
//verif:entry tier=quick,thorough
//verif:also C12
//verif:bound referral owner in {sub.example., SUB.Example., example. (self-referral), other. (out of bailiwick)} from the servers of example. for www.sub.example.; NS RRset minimum TTL and first-record TTL symbolic (min <= first); DS set of 0-2 records with symbolic TTLs or a validation error; inherited cut absent or any instant; delegation cache hit (any expiry) or miss; glue usable or not; trust anchors present or not; qname-minimisation level, resolve level and nomin symbolic; IPv6 enrichment off
func VerifC08_LeaseDerivation() {
	c08.dsTTLs, c08.deadlines, c08.resolveRS, c08.cachedRS, c08.setUntil = nil, nil, nil, nil, nil
	c08.dsErr = vBool("ds.err")
	for i, n := 0, vChoice("ds.count", 3); i < n; i++ {
		c08.dsTTLs = append(c08.dsTTLs, vU32("ds.ttl"))
	}
	c08.cachedHit = vBool("cache.hit")
	c08.cachedExp = vTime("cache.expiresAt")

	nsTTL, firstTTL := vU32("ns.minTTL"), vU32("ns.firstTTL")
	vAssume(nsTTL <= firstTTL)
	refName := []string{"sub.example.", "example.", "SUB.Example.", "other."}[vChoice("referral.owner", 4)]
	nsInfo := delegationInfo{hosts: hostSet{"ns.sub.example.": {}}, nsTTL: nsTTL,
		nsRecord: &dns.NS{Hdr: dns.RR_Header{Name: refName, Rrtype: dns.TypeNS, Class: dns.ClassINET, Ttl: firstTTL}, Ns: "ns.sub.example."}}
	req := new(dns.Msg)
	req.Question = []dns.Question{{Name: "www.sub.example.", Qtype: dns.TypeA, Qclass: dns.ClassINET}}
	req.CheckingDisabled = vBool("req.cd")
	ledger := middleware.NewRecursionWorkLedger(middleware.RecursionWorkPolicy{Mode: middleware.RecursionWorkEnforce, MaxOutboundQueries: 8})
	rs := &resolveState{req: req, servers: &authority.Servers{Zone: "example."}, depth: 5, level: vChoice("rs.level", 5), nomin: vBool("rs.nomin"), work: ledger}
	var inherited time.Time
	if vBool("hasInheritedCut") {
		inherited = vTime("inheritedCut")
		rs.cutDeadline, rs.cutKey = inherited, 77
	}
	r := &Resolver{delegations: new(authority.Cache), cfg: &config.Config{}, rootServers: new(authority.Servers), dnssec: vBool("dnssec"), qnameMinLevel: vChoice("qmin", 2) * 3}

	c0 := vClockCount()
	_, err := r.processDelegation(context.Background(), rs, new(dns.Msg), nsInfo, vBool("minimized"))
	_ = err
	if vClockCount() == c0 {
		// rejected before any lease was computed
		vAssert("no-lease-without-observation", len(c08.deadlines) == 0 && len(c08.resolveRS) == 0 && len(c08.setUntil) == 0)
		vAssert("only-non-progressing-referrals-are-rejected-early", refName == "example." || refName == "other.")
		return
	}
	observedAt := vClockAt(c0)
	nsBound := observedAt.Add(time.Duration(nsTTL) * time.Second)
	for _, d := range c08.deadlines {
		vAssert("lease-within-min-ns-ttl-from-first-observation", !d.IsZero() && !d.After(nsBound))
		if len(c08.dsTTLs) > 0 && !c08.dsErr {
			minDS := c08.dsTTLs[0]
			for _, t := range c08.dsTTLs {
				if t < minDS {
					minDS = t
				}
			}
			vAssert("lease-within-min-ds-ttl", !d.After(observedAt.Add(time.Duration(minDS)*time.Second)))
		}
		if !inherited.IsZero() {
			vAssert("lease-within-inherited-cut", !d.After(inherited))
		}
	}
	for _, n := range c08.resolveRS {
		vAssert("continuation-keeps-the-work-ledger", n.work == ledger)
		vAssert("continuation-keeps-the-request", n.req == req)
	}
	for _, n := range c08.cachedRS {
		vAssert("cached-descent-keeps-the-work-ledger", n.work == ledger)
	}
	if c08.dsErr {
		vAssert("validation-failure-publishes-nothing", len(c08.deadlines) == 0 && len(c08.resolveRS) == 0)
	}
}
