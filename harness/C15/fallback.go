//go:build verif

//verif:pkg internal/wire
package wire

import (
	"github.com/miekg/dns"
)

// VerifC15_FallbackImmutable: the library fallback used whenever the pooled
// packer declines - and by PackClone for cache entries - produces the
// library's own bytes and, for messages built from the library's records,
// does not write the extended rcode into the caller's OPT.
//
//verif:entry tier=quick,thorough
//verif:expect fallback-bytes-identical-to-library fallback-leaves-the-message-and-its-opt-untouched fallback-error-is-the-librarys
//verif:bound header: every id/flag/opcode and rcode as any int (negative and >4095 included); 1 question, answer none / A / CNAME+A; additional none / OPT / two OPTs / OPT aliased in answer, symbolic size/ttl and 0-1 local option; Compress on/off
//verif:outside messages with PrivateRR or foreign record types (the documented boundary of the promise)
func VerifC15_FallbackImmutable() {
	m := c15Msg()
	var opt *dns.OPT
	switch vChoice("extra", 4) {
	case 1:
		opt = c15OPT("opt")
		m.Extra = []dns.RR{opt}
	case 2:
		first := c15OPT("opt0")
		opt = c15OPT("opt")
		m.Extra = []dns.RR{first, opt}
	case 3:
		opt = c15OPT("opt")
		m.Extra = []dns.RR{opt}
		m.Answer = append(m.Answer, opt)
	}
	var optTTL uint32
	if opt != nil {
		optTTL = opt.Hdr.Ttl
	}
	rcode := m.Rcode
	nAns, nExtra := len(m.Answer), len(m.Extra)
	var a0, e0 dns.RR
	if nAns > 0 {
		a0 = m.Answer[nAns-1]
	}
	if nExtra > 0 {
		e0 = m.Extra[nExtra-1]
	}

	got, err := libraryPackImmutable(m)

	same := m.Rcode == rcode && len(m.Answer) == nAns && len(m.Extra) == nExtra
	if nAns > 0 {
		same = same && m.Answer[nAns-1] == a0
	}
	if nExtra > 0 {
		same = same && m.Extra[nExtra-1] == e0
	}
	if opt != nil && rcode >= 0 && rcode <= 0xFFF {
		same = same && opt.Hdr.Ttl == optTTL
	}
	vAssert("fallback-leaves-the-message-and-its-opt-untouched", same)

	// the reference: the library's own Pack on this very message, run last
	// because it is the call that writes into the OPT
	want, werr := m.Pack()
	vAssert("fallback-error-is-the-librarys", (err == nil) == (werr == nil))
	if err == nil && werr == nil {
		vAssert("fallback-bytes-identical-to-library", c15Bytes(got, want))
	}
}
