//go:build verif

//verif:pkg internal/wire
package wire

import (
	"net"

	"github.com/miekg/dns"
)

// a record type the library does not declare
type c15Foreign struct{ dns.A }

func c15Msg() *dns.Msg {
	m := new(dns.Msg)
	m.Id = vU16("id")
	m.Response, m.Authoritative, m.Truncated = vBool("qr"), vBool("aa"), vBool("tc")
	m.RecursionDesired, m.RecursionAvailable, m.Zero = vBool("rd"), vBool("ra"), vBool("z")
	m.AuthenticatedData, m.CheckingDisabled = vBool("ad"), vBool("cd")
	m.Opcode = int(vU8("opcode") & 0xF)
	m.Rcode = vInt("rcode")
	m.Compress = vBool("compress")
	nq := 1
	if vTier() > 0 {
		nq = 1 + vChoice("questions", 2)
	}
	for i := 0; i < nq; i++ {
		m.Question = append(m.Question, dns.Question{Name: "www.example.org.", Qtype: vU16("qtype"), Qclass: vU16("qclass")})
	}
	switch vChoice("answer", 3) {
	case 1:
		m.Answer = []dns.RR{&dns.A{Hdr: dns.RR_Header{Name: "www.example.org.", Rrtype: dns.TypeA, Class: vU16("a.class"), Ttl: vU32("a.ttl")}, A: net.IP(vBytes("a.addr", 4))}}
	case 2:
		m.Answer = []dns.RR{
			&dns.CNAME{Hdr: dns.RR_Header{Name: "www.example.org.", Rrtype: dns.TypeCNAME, Class: dns.ClassINET, Ttl: vU32("c.ttl")}, Target: "host.example.org."},
			&dns.A{Hdr: dns.RR_Header{Name: "host.example.org.", Rrtype: dns.TypeA, Class: dns.ClassINET, Ttl: vU32("a.ttl")}, A: net.IP(vBytes("a.addr", 4))},
		}
	}
	return m
}

func c15OPT(tag string) *dns.OPT {
	o := &dns.OPT{Hdr: dns.RR_Header{Name: ".", Rrtype: dns.TypeOPT, Class: vU16(tag + ".udp"), Ttl: vU32(tag + ".ttl")}}
	if vBool(tag + ".hasOption") {
		o.Option = append(o.Option, &dns.EDNS0_LOCAL{Code: 65001, Data: vBytes(tag+".data", 2)})
	}
	return o
}

func c15Bytes(a, b []byte) bool {
	if len(a) != len(b) {
		return false
	}
	eq := true
	for i := range a {
		eq = eq && a[i] == b[i]
	}
	return eq
}

// VerifC15_PackParity: whenever the pooled packer accepts a message it emits
// exactly the library's bytes (extended rcode, compression choices and every
// record included), hands out a slice with no spare capacity, and leaves the
// message as it was; otherwise it produced nothing.
//
//verif:entry tier=quick,thorough
//verif:bound header: every id/flag/opcode and rcode as any int (negative and >4095 included); 1 question (quick) / 1-2 (thorough), answer none / A / CNAME+A with symbolic ttl/class/address over concrete compressible names; additional none / OPT / two OPTs / the selected OPT aliased (same pointer) in the answer or authority section with symbolic size/ttl and 0-1 local option of 2 symbolic bytes; Compress on/off; pool state: fresh or dirty buffer (0xEE fill, stale OPT and shim)
func VerifC15_PackParity() {
	m := c15Msg()
	extra := 4
	var opt *dns.OPT
	switch vChoice("extra", extra) {
	case 1:
		opt = c15OPT("opt")
		m.Extra = []dns.RR{opt}
	case 2:
		first := c15OPT("opt0")
		opt = c15OPT("opt")
		m.Extra = []dns.RR{first, opt}
	case 3:
		opt = c15OPT("opt")
		m.Extra = []dns.RR{opt}
		if vBool("alias.in.authority") {
			m.Ns = append(m.Ns, opt)
		} else {
			m.Answer = append(m.Answer, opt)
		}
	}
	if vBool("pool.dirty") {
		st := new(packState)
		for i := 0; i < 96; i++ {
			st.buf[i] = 0xEE
		}
		st.compression = map[string]int{"stale.example.": 12}
		vPoolPut(&packStatePool, st)
	}
	var optTTL uint32
	if opt != nil {
		optTTL = opt.Hdr.Ttl
	}
	rcode := m.Rcode
	var got []byte
	calls := 0
	handled, err := TryPack(m, func(b []byte) error {
		calls++
		got = append([]byte(nil), b...)
		vAssert("no-spare-capacity-exposed", cap(b) == len(b))
		return nil
	})
	vAssert("message-untouched", m.Rcode == rcode && (opt == nil || opt.Hdr.Ttl == optTTL))
	if !handled {
		vAssert("declined-before-any-output", calls == 0 && err == nil)
		return
	}
	vAssert("consumed-once", calls == 1 && err == nil)
	want, perr := m.Pack()
	vAssert("library-accepts-what-we-accepted", perr == nil)
	vAssert("bytes-identical-to-library", c15Bytes(got, want))
}

// VerifC15_Admission: nil, foreign and typed-nil records are declined before
// anything is produced.
//
//verif:entry tier=quick,thorough
//verif:bound a nil record, a typed-nil *dns.A, a harness-defined foreign record type and an OPT with a nil option, each in answer or additional
func VerifC15_Admission() {
	m := c15Msg()
	vAssume(m.Rcode >= 0 && m.Rcode <= 15)
	var bad dns.RR
	switch vChoice("bad", 4) {
	case 0:
		bad = nil
	case 1:
		var a *dns.A
		bad = a
	case 2:
		bad = &c15Foreign{dns.A{Hdr: dns.RR_Header{Name: "x.", Rrtype: dns.TypeA, Class: dns.ClassINET}, A: net.IP{1, 2, 3, 4}}}
	case 3:
		bad = &dns.OPT{Hdr: dns.RR_Header{Name: ".", Rrtype: dns.TypeOPT}, Option: []dns.EDNS0{nil}}
	}
	if vBool("inExtra") {
		m.Extra = append(m.Extra, bad)
	} else {
		m.Answer = append(m.Answer, bad)
	}
	calls := 0
	handled, err := TryPack(m, func(b []byte) error { calls++; return nil })
	vAssert("foreign-or-nil-record-declined-without-output", !handled && err == nil && calls == 0)
}

// VerifC15_DeclineLeavesNoTrace: a message the packer gives up on half-way
// (a record the library refuses to encode, met after names were already
// written into the pooled dictionary) must leave nothing behind: the next
// message packed on the same pooled state still gets the library's bytes.
//
//verif:entry tier=quick,thorough
//verif:bound first message: compressible names + a record with a malformed address (3 or 5 octets) in answer or additional, Compress on/off; second message: as VerifC15_PackParity with 1 question, answer none/A/CNAME+A, no OPT, sharing name suffixes with the first
func VerifC15_DeclineLeavesNoTrace() {
	first := new(dns.Msg)
	first.Compress = vBool("first.compress")
	first.Question = []dns.Question{{Name: "www.example.org.", Qtype: dns.TypeA, Qclass: dns.ClassINET}}
	first.Answer = []dns.RR{&dns.CNAME{Hdr: dns.RR_Header{Name: "www.example.org.", Rrtype: dns.TypeCNAME, Class: dns.ClassINET, Ttl: 30}, Target: "host.example.org."}}
	badLen := 3
	if vBool("first.bad5") {
		badLen = 5
	}
	bad := &dns.A{Hdr: dns.RR_Header{Name: "host.example.org.", Rrtype: dns.TypeA, Class: dns.ClassINET, Ttl: 30}, A: make(net.IP, badLen)}
	if vBool("first.badInExtra") {
		first.Extra = []dns.RR{bad}
	} else {
		first.Answer = append(first.Answer, bad)
	}
	calls := 0
	handled, _ := TryPack(first, func(b []byte) error { calls++; return nil })
	_, libErr := first.Pack()
	vAssert("library-refuses-the-first-message", libErr != nil)
	vAssert("unpackable-message-declined-without-output", !handled && calls == 0)

	m := c15Msg()
	vAssume(m.Rcode >= 0 && m.Rcode <= 15)
	var got []byte
	handled2, err2 := TryPack(m, func(b []byte) error { got = append([]byte(nil), b...); return nil })
	want, perr := m.Pack()
	if handled2 {
		vAssert("second-pack-still-identical-to-library", err2 == nil && perr == nil && c15Bytes(got, want))
	}
}
