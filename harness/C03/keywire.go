//go:build verif

//verif:pkg internal/cache
package cache

import (
	"net/netip"

	"github.com/miekg/dns"
)

// The library renders a non-printable octet through a 1 KiB lookup table
// (dns.escapeByte). Decided once, for all 256 octets and without this stub, by
// VerifC03_EscapeLemma (keywire_lemma.go): the table equals the arithmetic
// below. Every other harness in this file uses the arithmetic form, which the
// solvers handle far better than nested 512-way selects.
//
//verif:stub github.com/miekg/dns.escapeByte = c03EscapeSpec
func c03EscapeSpec(b byte) string {
	return string([]byte{'\\', '0' + b/100, '0' + b/10%10, '0' + b%10})
}

// c03Wire builds an uncompressed wire name with the given label lengths and
// symbolic label octets (all 256 values).
func c03Wire(lens []int) []byte {
	var w []byte
	for _, l := range lens {
		w = append(w, byte(l))
		w = append(w, vBytes("oct", l)...)
	}
	return append(w, 0)
}

// label shapes: total octets <= 2 (quick) / <= 4 (thorough)
var c03Shapes = [][]int{{}, {1}, {2}, {1, 1}, {3}, {1, 2}, {2, 1}, {1, 1, 1}, {4}, {2, 2}, {1, 3}, {3, 1}}

func c03Shape() []int {
	n := 4
	if vTier() > 0 {
		n = len(c03Shapes)
	}
	return c03Shapes[vChoice("shape", n)]
}

func c03FoldEq(a, b string) bool {
	if len(a) != len(b) {
		return false
	}
	eq := true
	for i := 0; i < len(a); i++ {
		x, y := a[i], b[i]
		if x >= 'A' && x <= 'Z' {
			x += 32
		}
		if y >= 'A' && y <= 'Z' {
			y += 32
		}
		eq = eq && x == y
	}
	return eq
}

func c03SameBytes(a, b []byte) bool {
	if len(a) != len(b) {
		return false
	}
	eq := true
	for i := range a {
		eq = eq && a[i] == b[i]
	}
	return eq
}

// VerifC03_WireKeyIdentity: for every uncompressed wire name, the preimage
// hashed by KeyWire is byte-identical to the one Key hashes for the
// presentation name the DNS library decodes from the same octets - so both
// routes address the same cache slot for every label byte value.
//
//verif:entry tier=quick,thorough
//verif:bound wire names of <= 2 label octets in all label shapes (quick) / <= 4 octets, 12 shapes (thorough), every octet value 0-255, all qtype/qclass/cd; presentation form obtained by executing the library's UnpackDomainName symbolically; xxhash = uninterpreted function of the recorded preimage
func VerifC03_WireKeyIdentity() {
	w := c03Wire(c03Shape())
	qtype, qclass, cd := vU16("qtype"), vU16("qclass"), vBool("cd")
	name, off, err := dns.UnpackDomainName(w, 0)
	vAssert("library-decodes", err == nil && off == len(w))
	h0 := vHashCount()
	hw, ok := KeyWire(w, qtype, qclass, cd)
	vAssert("wire-accepts", ok && vHashCount() == h0+1)
	hp := Key(dns.Question{Name: name, Qtype: qtype, Qclass: qclass}, cd)
	vAssert("one-hash-each", vHashCount() == h0+2)
	vAssert("preimages-identical", c03SameBytes(vHashPreimage(h0), vHashPreimage(h0+1)))
	vAssert("hashes-equal", hw == hp)
	hs := KeyString(name, qtype, qclass, cd)
	vAssert("keystring-equal", hs == hp)
	vAssert("wire-equals-its-presentation", WireNameEqualsPresentation(w, name))
}

// VerifC03_WireNameEqualsExact: the collision verifier accepts a stored
// presentation name exactly when it is the decoded name up to ASCII case.
//
//verif:entry tier=quick,thorough
//verif:bound as WireKeyIdentity; the other name is any string of the same length or one shorter/longer
func VerifC03_WireNameEqualsExact() {
	w := c03Wire(c03Shape())
	name, _, err := dns.UnpackDomainName(w, 0)
	vAssume(err == nil)
	d := vChoice("dlen", 3) - 1
	if len(name)+d < 0 {
		return
	}
	other := vString("other", len(name)+d)
	vAssert("equal-iff-fold-equal", WireNameEqualsPresentation(w, other) == c03FoldEq(name, other))
}

// VerifC03_ScopedKey: the ECS extension of the key is identical on both
// routes and distinguishes family, prefix length and address bytes.
//
//verif:entry tier=quick,thorough
//verif:bound one-label names (1 octet), both families, any bits/address bytes
func VerifC03_ScopedKey() {
	w := c03Wire([]int{1})
	name, _, err := dns.UnpackDomainName(w, 0)
	vAssume(err == nil)
	var pfx netip.Prefix
	if vChoice("fam", 2) == 0 {
		var b [4]byte
		copy(b[:], vBytes("a4", 4))
		bits := vInt("bits")
		vAssume(bits >= 0 && bits <= 32)
		pfx = netip.PrefixFrom(netip.AddrFrom4(b), bits)
	} else {
		var b [16]byte
		copy(b[:], vBytes("a6", 16))
		bits := vInt("bits")
		vAssume(bits >= 0 && bits <= 128)
		pfx = netip.PrefixFrom(netip.AddrFrom16(b), bits)
	}
	qtype, qclass, cd := vU16("qtype"), vU16("qclass"), vBool("cd")
	h0 := vHashCount()
	hw, ok := KeyWireWithPrefix(w, qtype, qclass, cd, pfx)
	hp := KeyWithPrefix(dns.Question{Name: name, Qtype: qtype, Qclass: qclass}, cd, pfx)
	vAssert("scoped-preimages-identical", ok && vHashCount() == h0+2 && c03SameBytes(vHashPreimage(h0), vHashPreimage(h0+1)) && hw == hp)
	pre := vHashPreimage(h0 + 1)
	n := len(pre)
	nb := (pfx.Bits() + 7) / 8
	fam := byte(6)
	if pfx.Addr().Is4() {
		fam = 4
	}
	vAssert("scope-suffix-shape", n >= 2+nb && pre[n-nb-2] == fam && pre[n-nb-1] == byte(pfx.Bits()))
	ab := pfx.Addr().AsSlice()
	same := true
	for i := 0; i < nb; i++ {
		same = same && pre[n-nb+i] == ab[i]
	}
	vAssert("scope-address-bytes", same)
	vAssert("invalid-prefix-collapses", KeyWithPrefix(dns.Question{Name: name, Qtype: qtype, Qclass: qclass}, cd, netip.Prefix{}) == Key(dns.Question{Name: name, Qtype: qtype, Qclass: qclass}, cd))
}
