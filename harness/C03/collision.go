//go:build verif

//verif:pkg middleware/cache
//verif:real strings.EqualFold
package cache

import (
	"net/netip"

	"github.com/miekg/dns"
)

// Forced 64-bit key collision: whatever key is probed, the store answers with
// the one entry it holds. Only the full-preimage verification stands between a
// colliding question and somebody else's answer.
var c03Held *CacheEntry

//verif:stub (*middleware/cache.Store).LookupByKey = c03LookupByKey
func c03LookupByKey(s *Store, key uint64) (*CacheEntry, bool) {
	if c03Held == nil {
		return nil, false
	}
	return c03Held, true
}

func c03Scope(tag string) netip.Prefix {
	switch vChoice(tag+".kind", 3) {
	case 0:
		return netip.Prefix{}
	case 1:
		var b [4]byte
		copy(b[:], vBytes(tag+".a4", 4))
		bits := vInt(tag + ".bits")
		vAssume(bits >= 0 && bits <= 32)
		return netip.PrefixFrom(netip.AddrFrom4(b), bits)
	}
	var b [16]byte
	copy(b[:], vBytes(tag+".a6", 16))
	bits := vInt(tag + ".bits")
	vAssume(bits >= 0 && bits <= 128)
	return netip.PrefixFrom(netip.AddrFrom16(b), bits)
}

func c03Lower(c byte) byte {
	if c >= 'A' && c <= 'Z' {
		return c + 32
	}
	return c
}

func c03FoldEqual(a, b string) bool {
	if len(a) != len(b) {
		return false
	}
	eq := true
	for i := 0; i < len(a); i++ {
		eq = eq && c03Lower(a[i]) == c03Lower(b[i])
	}
	return eq
}

// same audience: both unscoped (invalid or /0), or same family, same bits and same network bits
func c03SameAudience(a, b netip.Prefix) bool {
	au := !a.IsValid() || a.Bits() == 0
	bu := !b.IsValid() || b.Bits() == 0
	if au || bu {
		return au && bu
	}
	return a.Addr().Is4() == b.Addr().Is4() && a.Bits() == b.Bits() && a.Masked().Addr() == b.Masked().Addr()
}

// VerifC03_CollisionVerified: an entry admitted for one question, CD
// partition and ECS audience is returned for a probe that collides on the
// 64-bit key only if the probe is that same question, partition and audience.
//
//verif:entry tier=quick,thorough
//verif:bound stored and probed names of 0-3 (quick) / 0-5 (thorough) symbolic bytes (all values), independent lengths; all qtype/qclass/CD; scopes: absent, IPv4 or IPv6 with any bits and any host bits, on both sides; the table always returns the stored entry (collision forced)
func VerifC03_CollisionVerified() {
	maxLen := 3
	if vTier() > 0 {
		maxLen = 5
	}
	name1 := vString("stored.name", vChoice("stored.len", maxLen+1))
	scope1 := c03Scope("stored.scope")
	e := &CacheEntry{question: dns.Question{Name: name1, Qtype: vU16("stored.qtype"), Qclass: vU16("stored.qclass")}, cd: vBool("stored.cd"), scope: normalizeKeyScope(scope1)}
	c03Held = e
	want := CacheKey{Question: dns.Question{Name: vString("probe.name", vChoice("probe.len", maxLen+1)), Qtype: vU16("probe.qtype"), Qclass: vU16("probe.qclass")}, CD: vBool("probe.cd"), Scope: c03Scope("probe.scope")}
	s := new(Store)
	got, ok := s.LookupByKeyVerified(vU64("key"), want)
	if !ok {
		vAssert("miss-returns-nothing", got == nil)
		// no false misses either: the same preimage always verifies
		same := name1 != "" && c03FoldEqual(name1, want.Question.Name) && e.question.Qtype == want.Question.Qtype && e.question.Qclass == want.Question.Qclass && e.cd == want.CD && c03SameAudience(scope1, want.Scope)
		vAssert("own-question-always-hits", !same)
		return
	}
	vAssert("hit-is-the-stored-entry", got == e)
	vAssert("same-name-ascii-fold-only", c03FoldEqual(name1, want.Question.Name))
	vAssert("same-type-class", e.question.Qtype == want.Question.Qtype && e.question.Qclass == want.Question.Qclass)
	vAssert("same-cd-partition", e.cd == want.CD)
	vAssert("same-ecs-audience", c03SameAudience(scope1, want.Scope))
}

// VerifC03_WireCollisionVerified: the wire-path verifier under the same
// forced collision; byte serving covers shared entries only.
//
//verif:entry tier=quick,thorough
//verif:bound stored presentation name of 0-4 symbolic bytes; probed wire name: one label of 1-2 symbolic octets; all qtype/qclass/CD; stored scope absent/IPv4/IPv6
func VerifC03_WireCollisionVerified() {
	name1 := vString("stored.name", vChoice("stored.len", 5))
	scope1 := c03Scope("stored.scope")
	e := &CacheEntry{question: dns.Question{Name: name1, Qtype: vU16("stored.qtype"), Qclass: vU16("stored.qclass")}, cd: vBool("stored.cd"), scope: normalizeKeyScope(scope1)}
	n := 1 + vChoice("wire.octets", 2)
	w := append([]byte{byte(n)}, vBytes("wire.oct", n)...)
	w = append(w, 0)
	qtype, qclass, cd := vU16("probe.qtype"), vU16("probe.qclass"), vBool("probe.cd")
	if !entryMatchesWireQuestion(e, w, qtype, qclass, cd) {
		vReach("miss")
		return
	}
	vAssert("wire-hit-only-unscoped", !scope1.IsValid() || scope1.Bits() == 0)
	vAssert("wire-hit-same-type-class-cd", e.question.Qtype == qtype && e.question.Qclass == qclass && e.cd == cd)
	// the stored name must be the presentation form of the wire name up to ASCII case:
	// for a plain (unescaped) label that is label + "."
	plain := true
	for _, o := range w[1 : 1+n] {
		plain = plain && o > ' ' && o <= '~' && o != '.' && o != '\\' && o != '"' && o != '(' && o != ')' && o != ';' && o != '@' && o != '\''
	}
	if plain {
		ok := len(name1) == n+1 && name1[n] == '.'
		for i := 0; i < n && ok; i++ {
			ok = c03Lower(name1[i]) == c03Lower(w[1+i])
		}
		vAssert("wire-hit-same-name", ok)
	}
}
