//go:build verif

//verif:pkg middleware/cache
package cache

import (
	"net/netip"

	"github.com/miekg/dns"
	"github.com/semihalev/sdns/internal/ecs"
)

var c03sProbes []netip.Prefix
var c03sHitAt int

// The key hash and the table are sinks: every probe's scope is recorded, and
// the table answers "found" at an arbitrary probe (or never).
//
//verif:stub (middleware/cache.CacheKey).Hash = c03sHash
//verif:stub (*middleware/cache.Store).LookupByKey = c03sLookup
func c03sHash(k CacheKey) uint64 {
	c03sProbes = append(c03sProbes, k.Scope)
	return uint64(len(c03sProbes))
}

func c03sLookup(s *Store, key uint64) (*CacheEntry, bool) {
	if int(key) == c03sHitAt {
		return &CacheEntry{}, true
	}
	return nil, false
}

// VerifC03_ScopedProbeStaysInsideTheClient: the longest-prefix probe for an
// audience-scoped answer only ever asks for scopes that contain the client's
// disclosed prefix - never one more specific than what the client disclosed,
// whatever the policy floor says - longest first, and reports the scope it
// found the entry under.
//
//verif:entry tier=quick,thorough
//verif:also C19
//verif:expect probe-never-narrower-than-the-client-disclosed probe-is-the-clients-own-prefix-shortened probes-run-longest-first reported-scope-is-the-probed-one
//verif:bound client prefix: any IPv4 address masked to /0../32 (every length) or an IPv6 2001:db8::/L for L in {0, 32, 48, 56, 64}; policy floor min_scope_v4 / v6 any octet, policy present or absent; the table answers at the 1st, 2nd, 3rd probe or never
//verif:outside which entry the table holds (collision verification is VerifC03_CollisionVerified); IPv6 lengths between the listed ones
func VerifC03_ScopedProbeStaysInsideTheClient() {
	c03sProbes = nil
	c03sHitAt = vChoice("hit.at", 4) // 0 = never
	c := &Cache{store: new(Store)}
	if vBool("policy.present") {
		c.ecsPolicy = &ecs.Policy{Enabled: true, ForwardV4Max: 24, ForwardV6Max: 56, MinScopeV4: vU8("policy.minScopeV4"), MinScopeV6: vU8("policy.minScopeV6")}
	}
	var client netip.Prefix
	if vBool("client.v6") {
		bits := []int{0, 32, 48, 56, 64}[vChoice("client.bits6", 5)]
		client = netip.PrefixFrom(netip.MustParseAddr("2001:db8:1234:5678:9abc::1"), bits).Masked()
	} else {
		a := vBytes("client.addr", 4)
		bits := vChoice("client.bits", 33)
		client = netip.PrefixFrom(netip.AddrFrom4([4]byte{a[0], a[1], a[2], a[3]}), bits).Masked()
	}
	q := dns.Question{Name: "geo.example.", Qtype: dns.TypeA, Qclass: dns.ClassINET}
	entry, key, scope := c.scopedLookup(q, vBool("cd"), client)

	prev := client.Bits() + 1
	for i, p := range c03sProbes {
		vAssert("probe-never-narrower-than-the-client-disclosed", p.IsValid() && p.Bits() <= client.Bits() && p.Bits() >= 1)
		want, err := client.Addr().Prefix(p.Bits())
		vAssert("probe-is-the-clients-own-prefix-shortened", err == nil && p == want)
		vAssert("probes-run-longest-first", p.Bits() < prev)
		prev = p.Bits()
		if entry != nil && i == len(c03sProbes)-1 {
			vAssert("reported-scope-is-the-probed-one", scope == p && int(key) == len(c03sProbes))
		}
	}
}
