//go:build verif

//verif:pkg middleware/cache
package cache

import (
	"net/netip"
	"time"

	"github.com/miekg/dns"
	"github.com/semihalev/sdns/middleware"
)

var c03hHop *CacheEntry

// whatever sits under the hop's 64-bit key (a collision, or an entry filed
// there by another audience) is what the table returns
//
//verif:stub (*middleware/cache.Cache).checkCache = c03hCheck
func c03hCheck(c *Cache, key uint64) *CacheEntry { return c03hHop }

func c03hBody(owner byte, qtype uint16, rr []byte) []byte {
	b := []byte{0, 0, 0x81, 0x80, 0, 1, 0, 1, 0, 0, 0, 0, 1, owner, 0, byte(qtype >> 8), byte(qtype), 0, 1}
	return append(b, rr...)
}

// VerifC03_WireChaseHopIsVerifiedAgainstTheWholePreimage: when the byte path
// completes an alias answer from further cache entries, whatever entry the
// table returns under a hop's key becomes part of the reply only if it was
// stored for that very target name, type and class, in the client's own CD
// partition, and for no ECS audience (the byte path carries none).
//
//verif:entry tier=quick,thorough
//verif:also C19
//verif:expect chase-hop-is-for-the-same-question chase-hop-is-from-the-clients-cd-partition chase-hop-is-not-audience-scoped some-hop-consumed some-hop-refused
//verif:bound client wire query a. A/IN with CD symbolic; cached alias a. CNAME t.; the entry found under the hop key: stored for name t. / T. / u., type A or AAAA, class IN or CH, CD symbolic, scope none / 192.0.2.0/24 / 2001:db8::/48, byte-servable or not, unexpired
//verif:outside the exact-hit rung (VerifC03_WireCollisionVerified); composing the reply bytes (VerifC05_ComposedChaseHeader)
func VerifC03_WireChaseHopIsVerifiedAgainstTheWholePreimage() {
	cdBit := byte(0)
	if vBool("client.cd") {
		cdBit = 0x10
	}
	raw := []byte{0, 9, 1, cdBit, 0, 1, 0, 0, 0, 0, 0, 0, 1, 'a', 0, 0, 1, 0, 1}
	var req middleware.Request
	vAssume(req.ParseWire(raw, time.Time{}, nil))
	start := vNow()
	// a. CNAME t.
	aliasBody := c03hBody('a', dns.TypeA, []byte{1, 'a', 0, 0, 5, 0, 1, 0, 0, 1, 0, 0, 3, 1, 't', 0})
	alias := &CacheEntry{wire: aliasBody, question: dns.Question{Name: "a.", Qtype: dns.TypeA, Qclass: dns.ClassINET}, cd: cdBit != 0, wireServe: wireEligible, stored: start, ttl: time.Hour}

	hopName := []string{"t.", "T.", "u."}[vChoice("hop.name", 3)]
	hopType := uint16(dns.TypeA)
	if vBool("hop.other.type") {
		hopType = dns.TypeAAAA
	}
	hopClass := uint16(dns.ClassINET)
	if vBool("hop.other.class") {
		hopClass = dns.ClassCHAOS
	}
	hop := &CacheEntry{
		wire:     c03hBody('t', dns.TypeA, []byte{1, 't', 0, 0, 1, 0, 1, 0, 0, 1, 0, 0, 4, 192, 0, 2, 1}),
		question: dns.Question{Name: hopName, Qtype: hopType, Qclass: hopClass},
		cd:       vBool("hop.cd"), stored: start, ttl: time.Hour,
	}
	if vBool("hop.byte.servable") {
		hop.wireServe = wireEligible
	}
	switch vChoice("hop.scope", 3) {
	case 1:
		hop.scope = netip.MustParsePrefix("192.0.2.0/24")
	case 2:
		hop.scope = netip.MustParsePrefix("2001:db8::/48")
	}
	c03hHop = hop

	c := new(Cache)
	segs := make([]wireChaseSegment, 4)
	n, ok := c.collectWireChase(&req, alias, false, segs)
	if !ok || n < 2 {
		vReach("some-hop-refused")
		return
	}
	vReach("some-hop-consumed")
	vAssert("chase-hop-is-for-the-same-question", segs[1].entry == hop && (hopName == "t." || hopName == "T.") && hopType == dns.TypeA && hopClass == dns.ClassINET)
	vAssert("chase-hop-is-from-the-clients-cd-partition", hop.cd == (cdBit != 0))
	vAssert("chase-hop-is-not-audience-scoped", !hop.scope.IsValid())
}
