//go:build verif

//verif:pkg internal/cache
package cache

import "github.com/miekg/dns"

// VerifC03_EscapeLemma: for every octet value, the library's presentation
// form of a one-octet label (real UnpackDomainName, real escape table) is the
// arithmetic rendering that the other C03 harnesses substitute for
// dns.escapeByte.
//
//verif:entry tier=quick,thorough
//verif:bound one label of one octet, all 256 values; no stubs
func VerifC03_EscapeLemma() {
	b := vU8("b")
	name, off, err := dns.UnpackDomainName([]byte{1, b, 0}, 0)
	vAssert("decodes", err == nil && off == 3)
	special := b == '.' || b == ' ' || b == '\'' || b == '@' || b == ';' || b == '(' || b == ')' || b == '"' || b == '\\'
	switch {
	case special:
		vAssert("special-is-backslash-char", len(name) == 3 && name[0] == '\\' && name[1] == b && name[2] == '.')
	case b < ' ' || b > '~':
		vAssert("nonprintable-is-backslash-ddd", len(name) == 5 && name[0] == '\\' && name[1] == '0'+b/100 && name[2] == '0'+b/10%10 && name[3] == '0'+b%10 && name[4] == '.')
	default:
		vAssert("plain-is-literal", len(name) == 2 && name[0] == b && name[1] == '.')
	}
}
