//go:build verif

//verif:pkg middleware/cache
package cache

import (
	"net"
	"net/netip"
	"time"

	"github.com/miekg/dns"
	"github.com/semihalev/sdns/internal/cache"
	"github.com/semihalev/sdns/internal/dnsutil"
)

var c03r struct {
	key      uint64
	old, new any
	calls    int
	swap     bool
}

// The packed form, the RR-derived TTL and the table are not the subject: the
// table's compare-and-swap is a sink that records what it is asked to store.
//
//verif:stub internal/wire.PackClone = c03rPack
//verif:stub internal/dnsutil.CalculateCacheTTL = c03rTTL
//verif:stub (*internal/cache.Cache).CompareAndSwap = c03rCAS
func c03rPack(msg *dns.Msg) ([]byte, error)                             { return []byte{0}, nil }
func c03rTTL(msg *dns.Msg, rt dnsutil.ResponseType) time.Duration       { return 5 * time.Minute }
func c03rCAS(c *cache.Cache, key uint64, old, value any) bool {
	c03r.calls++
	c03r.key, c03r.old, c03r.new = key, old, value
	return c03r.swap
}

// VerifC03_ReplacementInheritsThePartition: a background refresh replaces an
// entry under the key that entry occupies, so what it stores must belong to
// the same partition - the CD value and ECS audience of the entry it
// replaces, not whatever the refreshed response happens to carry - and to the
// delegation lease of the refresh; it is published only through the identity
// compare-and-swap against the claimed entry.
//
//verif:entry tier=quick,thorough
//verif:also C04 C19
//verif:expect replacement-keeps-the-cd-partition replacement-keeps-the-audience replacement-carries-the-refresh-lease replacement-only-through-identity-cas
//verif:bound one ReplaceIfCurrent: claimed entry with CD symbolic and audience none / 198.51.100.0/24 / 2001:db8::/48; refreshed positive response with CD symbolic (independent of the entry's); lease instant and key symbolic; the table's swap succeeds or not
//verif:outside negative and SERVFAIL refreshes (same inherit step); the table (VerifC16_CASIdentity, VerifC04_LateRefreshNeverOverwritesNewerData)
func VerifC03_ReplacementInheritsThePartition() {
	c03r.calls, c03r.new = 0, nil
	c03r.swap = vBool("table.swap.succeeds")
	var scope netip.Prefix
	switch vChoice("claimed.audience", 3) {
	case 1:
		scope = netip.MustParsePrefix("198.51.100.0/24")
	case 2:
		scope = netip.MustParsePrefix("2001:db8::/48")
	}
	q := dns.Question{Name: "geo.example.", Qtype: dns.TypeA, Qclass: dns.ClassINET}
	expected := &CacheEntry{question: q, cd: vBool("claimed.cd"), scope: scope, ttl: time.Minute, origTTL: 60, stored: vNow()}
	resp := new(dns.Msg)
	resp.Response = true
	resp.Question = []dns.Question{q}
	resp.CheckingDisabled = vBool("response.cd")
	resp.Answer = []dns.RR{&dns.A{Hdr: dns.RR_Header{Name: "geo.example.", Rrtype: dns.TypeA, Class: dns.ClassINET, Ttl: 300}, A: net.IP{192, 0, 2, 7}}}
	lease := vTime("lease")
	key, cutKey := vU64("key"), vU64("cutKey")
	s := &Store{positive: &PositiveCache{cache: new(cache.Cache), ttl: NewTTLManager(5*time.Second, 24*time.Hour)}, negative: &NegativeCache{cache: new(cache.Cache), ttl: NewTTLManager(5*time.Second, time.Hour)}}
	ok := s.ReplaceIfCurrent(key, expected, resp, lease, cutKey)

	vAssert("replacement-only-through-identity-cas", c03r.calls == 1 && c03r.key == key && c03r.old == any(expected) && ok == c03r.swap)
	e, isEntry := c03r.new.(*CacheEntry)
	vAssume(isEntry && e != nil)
	vAssert("replacement-keeps-the-cd-partition", e.cd == expected.cd)
	vAssert("replacement-keeps-the-audience", e.scope == expected.scope)
	vAssert("replacement-carries-the-refresh-lease", e.cutUntil.Equal(lease) && e.cutKey == cutKey)
}
