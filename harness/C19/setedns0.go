//go:build verif

//verif:pkg internal/dnsutil
package dnsutil

import (
	"net"
	"net/netip"

	"github.com/miekg/dns"
	"github.com/semihalev/sdns/internal/ecs"
)

// VerifC19_SetEdns0Strips: whatever the client put in its OPT - any option
// mix, any EDNS version, any advertised size - the request that goes on (to
// the resolver, or back out on the BADVERS path) carries no client-supplied
// option, except one ECS option clamped by the policy when forwarding is
// enabled and the client is allowed; the size is normalised into [512,1232].
//
//verif:entry tier=quick,thorough
//verif:also C06
//verif:bound request OPT present/absent; version, DO bit and advertised size symbolic; options: any subset, in two orders, of {COOKIE (16 hex chars), NSID, SUBNET (v4, symbolic netmask/address), KEEPALIVE, LOCAL}; policy nil / enabled with symbolic ceiling and an allow-list that does or does not contain the client
func VerifC19_SetEdns0Strips() {
	req := new(dns.Msg)
	req.Question = []dns.Question{{Name: "a.example.", Qtype: dns.TypeA, Qclass: dns.ClassINET}}
	hasOPT := vBool("hasOPT")
	var sub *dns.EDNS0_SUBNET
	version := uint8(0)
	if hasOPT {
		opt := &dns.OPT{Hdr: dns.RR_Header{Name: ".", Rrtype: dns.TypeOPT}}
		opt.SetUDPSize(vU16("udpsize"))
		version = vU8("version")
		opt.SetVersion(version)
		if vBool("do") {
			opt.SetDo()
		}
		var opts []dns.EDNS0
		if vBool("o.cookie") {
			opts = append(opts, &dns.EDNS0_COOKIE{Code: dns.EDNS0COOKIE, Cookie: "00112233445566778899"})
		}
		if vBool("o.nsid") {
			opts = append(opts, &dns.EDNS0_NSID{Code: dns.EDNS0NSID})
		}
		if vBool("o.subnet") {
			sub = &dns.EDNS0_SUBNET{Code: dns.EDNS0SUBNET, Family: 1, SourceNetmask: vU8("o.subnet.mask"), Address: net.IP(vBytes("o.subnet.addr", 4))}
			opts = append(opts, sub)
		}
		if vBool("o.keepalive") {
			opts = append(opts, &dns.EDNS0_TCP_KEEPALIVE{Code: dns.EDNS0TCPKEEPALIVE, Timeout: 100})
		}
		if vBool("o.local") {
			opts = append(opts, &dns.EDNS0_LOCAL{Code: 65001, Data: []byte{1, 2}})
		}
		if vBool("reversed") {
			for i, j := 0, len(opts)-1; i < j; i, j = i+1, j-1 {
				opts[i], opts[j] = opts[j], opts[i]
			}
		}
		opt.Option = opts
		req.Extra = []dns.RR{opt}
	}
	var policy *ecs.Policy
	client := netip.AddrFrom4([4]byte{10, 1, 2, 3})
	allowed := false
	if vBool("policy.enabled") {
		policy = &ecs.Policy{Enabled: true, ForwardV4Max: vU8("policy.fwd4"), ForwardV6Max: 56, MinScopeV4: 24, MinScopeV6: 56}
		vAssume(policy.ForwardV4Max >= 1 && policy.ForwardV4Max <= 32)
		if vBool("policy.allowlist") {
			if vBool("policy.clientListed") {
				policy.ClientNetworks = []netip.Prefix{netip.MustParsePrefix("10.0.0.0/8")}
				allowed = true
			} else {
				policy.ClientNetworks = []netip.Prefix{netip.MustParsePrefix("192.168.0.0/16")}
			}
		} else {
			allowed = true
		}
	}
	opt, size, _, _, _ := SetEdns0(req, policy, client)
	vAssert("opt-always-present-afterwards", opt != nil && req.IsEdns0() == opt)
	vAssert("size-normalised", size >= 512 && size <= 1232 && opt.UDPSize() == 1232)
	ecsCount, others := 0, 0
	var fwd *dns.EDNS0_SUBNET
	for _, o := range opt.Option {
		if s, ok := o.(*dns.EDNS0_SUBNET); ok {
			ecsCount++
			fwd = s
		} else {
			others++
		}
	}
	vAssert("no-client-option-survives", others == 0)
	if !allowed || sub == nil {
		vAssert("ecs-stripped-unless-policy-allows", ecsCount == 0)
	} else {
		vAssert("at-most-one-ecs", ecsCount <= 1)
		if fwd != nil {
			vAssert("forwarded-ecs-is-a-clamped-copy", fwd != sub && fwd.SourceNetmask <= policy.ForwardV4Max && fwd.SourceNetmask <= sub.SourceNetmask && fwd.SourceScope == 0)
		}
	}
	_ = version
}
