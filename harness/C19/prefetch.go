//go:build verif

//verif:pkg middleware/cache
package cache

import (
	"net"
	"net/netip"
	"time"

	"github.com/miekg/dns"
	"github.com/semihalev/sdns/internal/dnsutil"
)

var c19pStored *CacheEntry
var c19pStoredKey uint64
var c19pSets int
var c19pMsgTTL time.Duration

// The packed form, the table and the RR-derived TTL are not the subject.
//
//verif:stub internal/wire.PackClone = c19pPack
//verif:stub (*middleware/cache.PositiveCache).Set = c19pSet
//verif:stub internal/dnsutil.CalculateCacheTTL = c19pTTL
func c19pPack(msg *dns.Msg) ([]byte, error) { return []byte{0}, nil }

func c19pSet(pc *PositiveCache, key uint64, entry *CacheEntry) {
	c19pSets++
	c19pStored, c19pStoredKey = entry, key
}

func c19pTTL(msg *dns.Msg, rt dnsutil.ResponseType) time.Duration { return c19pMsgTTL }

func c19pScope() (netip.Prefix, bool) {
	a := vBytes("scope.addr", 4)
	switch vChoice("scope.kind", 4) {
	case 0:
		return netip.Prefix{}, false
	case 1:
		// a /0 scope is "everyone": the shared audience
		return netip.PrefixFrom(netip.AddrFrom4([4]byte{a[0], a[1], a[2], a[3]}), 0), false
	case 2:
		bits := vChoice("scope.bits", 33)
		if bits == 0 {
			return netip.PrefixFrom(netip.AddrFrom4([4]byte{a[0], a[1], a[2], a[3]}), 0), false
		}
		return netip.PrefixFrom(netip.AddrFrom4([4]byte{a[0], a[1], a[2], a[3]}), bits), true
	default:
		var b [16]byte
		b[0], b[1], b[2], b[3] = 0x20, 0x01, a[0], a[1]
		return netip.PrefixFrom(netip.AddrFrom16(b), 32+8*vChoice("scope.bits6", 4)), true
	}
}

// VerifC19_ScopedWriteCappedNeverRefreshed: what the store files for an
// audience-scoped answer.
//
//verif:entry tier=quick,thorough
//verif:expect scoped-entry-ttl-within-ecs-cap scoped-entry-not-prefetch-eligible scoped-entry-carries-its-masked-scope shared-entry-carries-no-scope exactly-one-entry-stored
//verif:bound one positive response (A answer) written through Store.setFromResponseWithKey; scope = none, /0, IPv4 /1../32 with symbolic address (host bits set included) or IPv6 /32../56; RR-derived TTL in {1 s, 30 s, 5 min, 2 h, 30 h}; positive min/max TTL = (5 s, 24 h) or (60 s, 1 h); scoped cap in {0 (off), 20 s, 60 s, 10 min, 3 h}; key CD symbolic
//verif:outside TTL values between the listed ones (the cap is three comparisons, read from the code); negative responses
func VerifC19_ScopedWriteCappedNeverRefreshed() {
	c19pStored, c19pSets = nil, 0
	scope, scoped := c19pScope()
	c19pMsgTTL = []time.Duration{time.Second, 30 * time.Second, 5 * time.Minute, 2 * time.Hour, 30 * time.Hour}[vChoice("msgTTL", 5)]
	capTTL := []time.Duration{0, 20 * time.Second, time.Minute, 10 * time.Minute, 3 * time.Hour}[vChoice("ecsMaxTTL", 5)]
	minTTL, maxTTL := 5*time.Second, 24*time.Hour
	if vBool("tightBounds") {
		minTTL, maxTTL = time.Minute, time.Hour
	}
	s := &Store{positive: &PositiveCache{ttl: NewTTLManager(minTTL, maxTTL)}, cfg: CacheConfig{MinTTL: minTTL, MaxTTL: maxTTL, ECSMaxTTL: capTTL}}

	resp := new(dns.Msg)
	resp.Response = true
	resp.Question = []dns.Question{{Name: "geo.example.", Qtype: dns.TypeA, Qclass: dns.ClassINET}}
	resp.Answer = []dns.RR{&dns.A{Hdr: dns.RR_Header{Name: "geo.example.", Rrtype: dns.TypeA, Class: dns.ClassINET, Ttl: 300}, A: net.IP{192, 0, 2, 7}}}
	keyCD := vBool("keyCD")
	resp.CheckingDisabled = keyCD
	key := vU64("key")
	s.setFromResponseWithKey(key, resp, scope, time.Time{}, 0, keyCD)

	vAssert("exactly-one-entry-stored", c19pSets == 1 && c19pStored != nil && c19pStoredKey == key)
	e := c19pStored
	if scoped {
		if capTTL > 0 {
			vAssert("scoped-entry-ttl-within-ecs-cap", e.ttl <= capTTL)
		}
		vAssert("scoped-entry-not-prefetch-eligible", !e.PrefetchEligible())
		vAssert("scoped-entry-carries-its-masked-scope", e.scope == scope.Masked() && e.scope.IsValid())
	} else {
		vAssert("shared-entry-carries-no-scope", !e.scope.IsValid() && e.PrefetchEligible())
	}
}
