//go:build verif

//verif:pkg middleware/cache
package cache

import (
	"context"
	"net"
	"net/netip"
	"time"

	"github.com/miekg/dns"
	"github.com/semihalev/sdns/middleware"
	"github.com/semihalev/sdns/middleware/resolver/dnssec"
)

var c19d struct {
	cutLookups, proofLookups int
	proofRecords, cutRecords int
}

// The shared denial indexes are sinks that count how often they are consulted
// or written; everything else on the write-back path is cut away.
//
//verif:stub (*middleware/cache.Store).LookupNXDomainCut = c19dCutLookup
//verif:stub (*middleware/cache.Store).lookupDenialProofWithExpiry = c19dProofLookup
//verif:stub (*middleware/cache.Store).RecordDenialProof = c19dRecordProof
//verif:stub (*middleware/cache.Store).RecordNXDomainCut = c19dRecordCut
//verif:stub (*middleware/cache.Store).SetFromResponseWithKey = c19dSet
//verif:stub (*middleware/cache.Store).SetFromResponseScoped = c19dSetScoped
//verif:stub (*middleware/cache.Store).resetMatchingFailures = c19dReset
//verif:stub (*middleware/cache.Cache).additionalAnswer = c19dNoChase
//verif:stub middleware/cache.newDenialProofWork = c19dWork
//verif:stub middleware.validatedNegativeProofFingerprint = c19dSeal
func c19dCutLookup(s *Store, req *dns.Msg) (*nxDomainCutEntry, bool) {
	c19d.cutLookups++
	return nil, false
}

func c19dProofLookup(s *Store, req *dns.Msg, work dnssec.NSEC3Work) (*dns.Msg, middleware.ValidatedNegativeProofKind, string, time.Time, bool) {
	c19d.proofLookups++
	return nil, middleware.ValidatedNegativeProofUnknown, "", time.Time{}, false
}

func c19dRecordProof(s *Store, proof *dns.Msg, zone string, kind middleware.ValidatedNegativeProofKind, cutUntil time.Time) bool {
	c19d.proofRecords++
	return true
}

func c19dRecordCut(s *Store, proof *dns.Msg, deniedName, zone string, cutUntil time.Time) bool {
	c19d.cutRecords++
	return true
}

func c19dSet(s *Store, key uint64, resp *dns.Msg, cutUntil time.Time, cutKey uint64) {}

func c19dSetScoped(s *Store, key uint64, resp *dns.Msg, scope netip.Prefix, cutUntil time.Time, cutKey uint64) {
}

func c19dReset(s *Store, q dns.Question, cd bool, scope netip.Prefix) {}

func c19dNoChase(c *Cache, ctx context.Context, msg *dns.Msg) *dns.Msg { return msg }

func c19dWork(ctx context.Context, limiter middleware.DNSSECCryptoLimiter) *denialProofWork {
	return nil
}

// the SHA-256 seal over the proof bytes (tamper evidence) is not the subject
func c19dSeal(proof *dns.Msg) ([32]byte, bool) { return [32]byte{1}, proof != nil }

type c19dSink struct{ wrote *dns.Msg }

func (s *c19dSink) LocalAddr() net.Addr         { return nil }
func (s *c19dSink) RemoteAddr() net.Addr        { return nil }
func (s *c19dSink) WriteMsg(m *dns.Msg) error   { s.wrote = m; return nil }
func (s *c19dSink) Write(b []byte) (int, error) { return len(b), nil }
func (s *c19dSink) Close() error                { return nil }
func (s *c19dSink) Msg() *dns.Msg               { return s.wrote }
func (s *c19dSink) Rcode() int                  { return 0 }
func (s *c19dSink) Written() bool               { return s.wrote != nil }
func (s *c19dSink) Proto() string               { return "udp" }
func (s *c19dSink) RemoteIP() net.IP            { return nil }
func (s *c19dSink) Internal() bool              { return false }

func c19dReq(cd, rawECS bool) *dns.Msg {
	req := new(dns.Msg)
	req.SetQuestion("nx.example.", dns.TypeA)
	req.CheckingDisabled = cd
	if rawECS {
		opt := &dns.OPT{Hdr: dns.RR_Header{Name: ".", Rrtype: dns.TypeOPT}}
		opt.Option = []dns.EDNS0{&dns.EDNS0_SUBNET{Code: dns.EDNS0SUBNET, Family: 1, SourceNetmask: 24, Address: net.IP{198, 51, 100, 0}}}
		req.Extra = []dns.RR{opt}
	}
	return req
}

// VerifC19_SharedDenialsNotConsumedByECSOrCD: a query that carried ECS or CD
// - or belongs to a request tree that did - never consults the shared
// synthesised-denial indexes (subtree cuts, aggressive proofs).
//
//verif:entry tier=quick,thorough
//verif:also C02
//verif:expect cut-index-consulted-only-by-plain-queries proof-index-consulted-only-by-plain-queries plain-query-consults-both
//verif:bound request CD, raw ECS option, derived client scope (none or 198.51.100.0/24), request-tree bypass marker all symbolic; RFC 8198 handling on
//verif:outside what the indexes answer (sinks); the wire path's own gate
func VerifC19_SharedDenialsNotConsumedByECSOrCD() {
	c19d.cutLookups, c19d.proofLookups = 0, 0
	cd, rawECS := vBool("req.cd"), vBool("req.raw.ecs")
	var scope netip.Prefix
	if vBool("client.scope") {
		scope = netip.MustParsePrefix("198.51.100.0/24")
	}
	ctx := context.Background()
	tree := vBool("tree.bypass")
	if tree {
		ctx = withSharedDenialBypass(ctx)
	}
	c := &Cache{store: new(Store)}
	req := c19dReq(cd, rawECS)
	c.lookupNXDomainCut(ctx, req, scope)
	c.lookupDenialProof(ctx, req, scope)
	if cd || scope.IsValid() || tree {
		vAssert("cut-index-consulted-only-by-plain-queries", c19d.cutLookups == 0)
	}
	if cd || scope.IsValid() || tree || rawECS {
		vAssert("proof-index-consulted-only-by-plain-queries", c19d.proofLookups == 0)
	}
	if !cd && !scope.IsValid() && !tree && !rawECS {
		vAssert("plain-query-consults-both", c19d.cutLookups == 1 && c19d.proofLookups == 1)
	}
}

// VerifC19_SharedDenialsNotCreatedByECSOrCD: a locally validated, RFC 8198
// eligible negative answer is published to the shared denial indexes only
// when neither the request nor its tree carried ECS or CD.
//
//verif:entry tier=quick,thorough
//verif:also C02
//verif:expect shared-denial-published-only-from-plain-trees plain-validated-denial-is-published unmarked-response-publishes-nothing
//verif:bound one NXDOMAIN or NODATA write-back through cache.ResponseWriter.WriteMsg; request CD, response CD, request ECS, client scope, tree bypass symbolic; the response carries local validation provenance (aggressive-eligible or not) or none
//verif:outside the indexes themselves; positive answers
func VerifC19_SharedDenialsNotCreatedByECSOrCD() {
	c19d.proofRecords, c19d.cutRecords = 0, 0
	meta := new(middleware.ResponseMeta)
	ctx := middleware.WithResponseMeta(context.Background(), meta)
	res := new(dns.Msg)
	res.SetQuestion("nx.example.", dns.TypeA)
	res.Response = true
	nx := vBool("res.nxdomain")
	if nx {
		res.Rcode = dns.RcodeNameError
	}
	res.Ns = []dns.RR{&dns.SOA{Hdr: dns.RR_Header{Name: "example.", Rrtype: dns.TypeSOA, Class: dns.ClassINET, Ttl: 300}, Ns: "ns.example.", Mbox: "h.example.", Minttl: 300}}
	res.CheckingDisabled = vBool("res.cd")
	marked, aggressive := vBool("res.validated"), vBool("res.aggressive")
	if marked {
		middleware.MarkValidatedNegativeProofResponse(ctx, res, middleware.ValidatedNegativeProof{Subject: "nx.example.", Zone: "example.", Kind: middleware.ValidatedNegativeProofNSEC, Aggressive: aggressive})
	}
	w := &ResponseWriter{ResponseWriter: new(c19dSink), cache: &Cache{store: new(Store)}, ctx: ctx, req: c19dReq(false, false), meta: meta}
	w.requestCD, w.requestHasECS, w.requestTreeBypassesSharedDenial = vBool("req.cd"), vBool("req.ecs"), vBool("tree.bypass")
	if vBool("client.scope") {
		w.clientScope = netip.MustParsePrefix("198.51.100.0/24")
	}
	err := w.WriteMsg(res)
	vAssume(err == nil)
	published := c19d.proofRecords > 0 || c19d.cutRecords > 0
	plain := !w.requestCD && !res.CheckingDisabled && !w.requestHasECS && !w.clientScope.IsValid() && !w.requestTreeBypassesSharedDenial
	if published {
		vAssert("shared-denial-published-only-from-plain-trees", plain && marked && aggressive)
	}
	if !marked {
		vAssert("unmarked-response-publishes-nothing", !published)
	}
	if plain && marked && aggressive {
		vAssert("plain-validated-denial-is-published", c19d.proofRecords == 1 && (c19d.cutRecords == 1) == nx)
	}
}
