//go:build verif

//verif:pkg middleware/cache
package cache

import (
	"context"
	"net"
	"net/netip"

	"github.com/miekg/dns"
	"github.com/semihalev/sdns/middleware"
)

type c19Transport struct{ ip net.IP }

func (t *c19Transport) LocalAddr() net.Addr         { return nil }
func (t *c19Transport) RemoteAddr() net.Addr        { return &net.UDPAddr{IP: t.ip, Port: 5353} }
func (t *c19Transport) WriteMsg(m *dns.Msg) error   { return nil }
func (t *c19Transport) Write(b []byte) (int, error) { return len(b), nil }
func (t *c19Transport) Close() error                { return nil }

var c19Want [4]byte
var c19Mapped bool
var c19Reached bool

// The scope derivation is a sink here: what matters is which client address
// the cache hands to the ECS policy - it must be the same (unmapped) address
// the edns layer used when it decided what to forward, or the two layers key
// one client's answers under different audiences.
//
//verif:stub (*middleware/cache.Cache).requestScope = c19ScopeSink
func c19ScopeSink(c *Cache, req *dns.Msg, client netip.Addr) netip.Prefix {
	c19Reached = true
	vAssert("policy-sees-a-valid-client-address", client.IsValid())
	if c19Mapped {
		vAssert("ipv4-mapped-client-is-treated-as-ipv4", client.Is4() && !client.Is4In6() && client.As4() == c19Want)
	}
	vCut("scope sink reached")
	return netip.Prefix{}
}

// VerifC19_CacheSeesUnmappedClient
//
//verif:entry tier=quick,thorough
//verif:also C17
//verif:expect policy-sees-a-valid-client-address ipv4-mapped-client-is-treated-as-ipv4
//verif:bound client transport address: 4-byte IPv4, 16-byte IPv4-mapped or native IPv6, all address bytes symbolic; decoded request with RD, class IN, type A or AAAA, with/without an ECS option
func VerifC19_CacheSeesUnmappedClient() {
	c19Reached = false
	t := new(c19Transport)
	v4 := vBytes("client.v4", 4)
	copy(c19Want[:], v4)
	switch vChoice("client.form", 3) {
	case 0:
		t.ip = net.IP(v4)
		c19Mapped = true
	case 1:
		t.ip = net.IP(append([]byte{0, 0, 0, 0, 0, 0, 0, 0, 0, 0, 0xff, 0xff}, v4...))
		c19Mapped = true
	default:
		ip6 := vBytes("client.v6", 16)
		vAssume(ip6[0] == 0x20) // a global unicast address, not a mapped one
		t.ip = net.IP(ip6)
		c19Mapped = false
	}
	req := new(dns.Msg)
	req.Question = []dns.Question{{Name: "geo.example.", Qtype: []uint16{dns.TypeA, dns.TypeAAAA}[vChoice("qtype", 2)], Qclass: dns.ClassINET}}
	req.RecursionDesired = true
	if vBool("hasECS") {
		opt := &dns.OPT{Hdr: dns.RR_Header{Name: ".", Rrtype: dns.TypeOPT}}
		opt.Option = []dns.EDNS0{&dns.EDNS0_SUBNET{Code: dns.EDNS0SUBNET, Family: 1, SourceNetmask: 24, Address: net.IP{10, 1, 2, 0}}}
		req.Extra = []dns.RR{opt}
	}
	ch := middleware.NewChain(nil)
	ch.Reset(t, req)
	c := new(Cache)
	c.ServeDNS(context.Background(), ch)
	vFail("serve-returned-without-deriving-the-scope")
}
