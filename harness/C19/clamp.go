//go:build verif

//verif:pkg internal/ecs
package ecs

import (
	"net"
	"net/netip"

	"github.com/miekg/dns"
)

// bitOf: bit i (0 = most significant) of a byte string.
func bitOf(b []byte, i int) bool { return b[i/8]&(0x80>>uint(i%8)) != 0 }

func c19Policy() *Policy {
	p := &Policy{Enabled: true, ForwardV4Max: vU8("fwd4"), ForwardV6Max: vU8("fwd6"), MinScopeV4: vU8("min4"), MinScopeV6: vU8("min6")}
	// what Build admits
	vAssume(p.ForwardV4Max >= 1 && p.ForwardV4Max <= 32 && p.ForwardV6Max >= 1 && p.ForwardV6Max <= 128)
	vAssume(p.MinScopeV4 >= 1 && p.MinScopeV4 <= 32 && p.MinScopeV6 >= 1 && p.MinScopeV6 <= 128)
	return p
}

// VerifC19_Clamp: what is forwarded upstream is never more specific than the
// ceiling or than what the client sent, has every host bit zero, keeps the
// family, and always carries SCOPE 0.
//
//verif:entry tier=quick,thorough
//verif:bound all ceilings 1..32 / 1..128, every option family (16 bit), netmask and scope (8 bit each), address nil / 4 / 16 symbolic bytes (family-address mismatches and 4-in-6 included)
func VerifC19_Clamp() {
	p := c19Policy()
	in := &dns.EDNS0_SUBNET{Code: dns.EDNS0SUBNET, Family: vU16("family"), SourceNetmask: vU8("netmask"), SourceScope: vU8("scope")}
	switch vChoice("addrlen", 3) {
	case 0:
		in.Address = nil
	case 1:
		in.Address = net.IP(vBytes("a4", 4))
	case 2:
		in.Address = net.IP(vBytes("a16", 16))
	}
	orig := append(net.IP(nil), in.Address...)
	out := p.Clamp(in)
	if out == nil {
		// refusing is always safe (nothing is forwarded)
		vReach("refused")
		return
	}
	vAssert("family-kept", out.Family == in.Family && (out.Family == 1 || out.Family == 2))
	ceil := p.ForwardV4Max
	width := 32
	if out.Family == 2 {
		ceil = p.ForwardV6Max
		width = 128
	}
	vAssert("netmask-le-ceiling-and-client", out.SourceNetmask <= ceil && out.SourceNetmask <= in.SourceNetmask)
	vAssert("scope-zero", out.SourceScope == 0)
	vAssert("addr-len-matches-family", len(out.Address) == width/8)
	// input address in family width (a 4-in-6 input under family 1 counts as its IPv4 part)
	src := orig
	if len(src) == 16 && width == 32 {
		src = src[12:]
	}
	vAssert("input-family-consistent", len(src) == width/8)
	hostZero, netSame := true, true
	for i := 0; i < width; i++ {
		if i >= int(out.SourceNetmask) {
			hostZero = hostZero && !bitOf(out.Address, i)
		} else {
			netSame = netSame && bitOf(out.Address, i) == bitOf(src, i)
		}
	}
	vAssert("host-bits-zero", hostZero)
	vAssert("network-bits-are-the-clients", netSame)
	vAssert("fresh-storage", &out.Address[0] != &in.Address[0])
}

// VerifC19_Build: invalid configuration disables forwarding entirely.
//
//verif:entry tier=quick,thorough
//verif:bound all 2^32 ceiling/floor byte combinations, enabled on/off, no client networks (text parsing is netip's)
func VerifC19_Build() {
	en := vBool("enabled")
	f4, f6, m4, m6 := vU8("f4"), vU8("f6"), vU8("m4"), vU8("m6")
	p, err := Build(en, f4, f6, m4, m6, nil)
	if !en {
		vAssert("disabled-is-nil", p == nil && err == nil)
		return
	}
	bad := f4 > 32 || f6 > 128 || m4 > 32 || m6 > 128
	if bad {
		vAssert("invalid-disables", p == nil && err != nil)
		return
	}
	vAssert("valid-builds", p != nil && err == nil && p.Enabled)
	vAssert("ceilings-in-range", p.ForwardV4Max >= 1 && p.ForwardV4Max <= 32 && p.ForwardV6Max >= 1 && p.ForwardV6Max <= 128)
	vAssert("floors-in-range", p.MinScopeV4 >= 1 && p.MinScopeV4 <= 32 && p.MinScopeV6 >= 1 && p.MinScopeV6 <= 128)
	vAssert("nil-policy-never-allows", !(*Policy)(nil).Allows(netip.AddrFrom4([4]byte{1, 2, 3, 4})) && (*Policy)(nil).Clamp(&dns.EDNS0_SUBNET{Address: net.IP{1, 2, 3, 4}, Family: 1}) == nil)
}

func c19Prefix(name string, v6 bool) netip.Prefix {
	if v6 {
		var b [16]byte
		copy(b[:], vBytes(name+".a6", 16))
		bits := vInt(name + ".bits")
		vAssume(bits >= 0 && bits <= 128)
		return netip.PrefixFrom(netip.AddrFrom16(b), bits)
	}
	var b [4]byte
	copy(b[:], vBytes(name+".a4", 4))
	bits := vInt(name + ".bits")
	vAssume(bits >= 0 && bits <= 32)
	return netip.PrefixFrom(netip.AddrFrom4(b), bits)
}

// VerifC19_ClampScope: the cache scope is never more specific than what was
// forwarded nor than the configured floor, and is the authority's scope
// address truncated to that length.
//
//verif:entry tier=quick,thorough
//verif:bound both families, any scope/source bits and address bytes (host bits set), floors 1..32 / 1..128, source valid or absent
func VerifC19_ClampScope() {
	p := c19Policy()
	v6 := vChoice("fam", 2) == 1
	scope := c19Prefix("scope", v6)
	var source netip.Prefix
	hasSource := vBool("hasSource")
	if hasSource {
		source = c19Prefix("source", v6)
	}
	out := p.ClampScope(scope, source)
	vAssert("valid-same-family", out.IsValid() && out.Addr().Is4() == scope.Addr().Is4())
	floor := int(p.MinScopeV4)
	width := 32
	if v6 {
		floor = int(p.MinScopeV6)
		width = 128
	}
	vAssert("not-narrower-than-authority-said", out.Bits() <= scope.Bits())
	vAssert("not-narrower-than-forwarded", !hasSource || out.Bits() <= source.Bits())
	vAssert("not-narrower-than-floor", out.Bits() <= floor)
	want := scope.Bits()
	if hasSource && source.Bits() < want {
		want = source.Bits()
	}
	if floor < want {
		want = floor
	}
	vAssert("exactly-the-minimum", out.Bits() == want)
	sa, oa := scope.Addr().AsSlice(), out.Addr().AsSlice()
	ok := true
	for i := 0; i < width; i++ {
		if i < out.Bits() {
			ok = ok && bitOf(oa, i) == bitOf(sa, i)
		} else {
			ok = ok && !bitOf(oa, i)
		}
	}
	vAssert("address-truncated", ok)
}
