//go:build verif

//verif:pkg middleware/cache
package cache

import (
	"context"
	"net"
	"net/netip"
	"time"

	"github.com/miekg/dns"
	"github.com/semihalev/sdns/middleware"
)

type c19hTransport struct{}

func (t *c19hTransport) LocalAddr() net.Addr         { return nil }
func (t *c19hTransport) RemoteAddr() net.Addr        { return &net.UDPAddr{IP: net.IP{192, 0, 2, 9}, Port: 5353} }
func (t *c19hTransport) WriteMsg(m *dns.Msg) error   { return nil }
func (t *c19hTransport) Write(b []byte) (int, error) { return len(b), nil }
func (t *c19hTransport) Close() error                { return nil }

var c19hQueued []*CacheEntry
var c19hDue bool
var c19hAccept bool

// Whether a hit is due for refresh (a float computation over the clock) and
// whether the queue has room are arbitrary; everything after the refresh
// decision is cut off.
//
//verif:stub (*middleware/cache.CacheEntry).ShouldPrefetch = c19hShould
//verif:stub (*middleware/cache.PrefetchQueue).Add = c19hAdd
//verif:stub (*middleware/cache.CacheEntry).wireEligibleFor = c19hEnd
func c19hShould(e *CacheEntry, threshold int) bool { return c19hDue }

func c19hAdd(q *PrefetchQueue, r PrefetchRequest) bool {
	c19hQueued = append(c19hQueued, r.Entry)
	vAssert("scoped-hit-never-queues-a-refresh", !r.Entry.scope.IsValid())
	return c19hAccept
}

func c19hEnd(e *CacheEntry, req *dns.Msg) bool {
	vCut("refresh decision taken")
	return false
}

// VerifC19_ScopedHitNeverRefreshed: the hit path's refresh decision.
//
//verif:entry tier=quick,thorough
//verif:expect scoped-hit-never-queues-a-refresh
//verif:bound one verified cache hit through Cache.handleCacheHit; entry scope = none or 10.a.b.0/24 (symbolic a, b); refresh-due and queue-accepts both arbitrary; prefetch queue present
//verif:outside the byte-path twin serveHitFromWire (its refresh test only declines to this path); what the prefetch worker does with a queued request
func VerifC19_ScopedHitNeverRefreshed() {
	c19hQueued = nil
	c19hDue = vBool("refresh.due")
	c19hAccept = vBool("queue.accepts")
	var scope netip.Prefix
	if vBool("entry.scoped") {
		a := vBytes("scope.addr", 2)
		scope = netip.PrefixFrom(netip.AddrFrom4([4]byte{10, a[0], a[1], 0}), 24)
	}
	q := dns.Question{Name: "geo.example.", Qtype: dns.TypeA, Qclass: dns.ClassINET}
	entry := &CacheEntry{question: q, scope: scope, ttl: time.Minute, origTTL: 60, stored: vNow()}
	req := new(dns.Msg)
	req.Question = []dns.Question{q}
	req.RecursionDesired = true
	ch := middleware.NewChain(nil)
	ch.Reset(new(c19hTransport), req)
	c := &Cache{prefetchQueue: new(PrefetchQueue), metrics: new(CacheMetrics)}
	c.config.Prefetch = 10
	c.handleCacheHit(context.Background(), ch, entry, vU64("key"), scope, nil)
	vFail("hit-path-returned-before-the-refresh-decision")
}
