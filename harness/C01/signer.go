//go:build verif

//verif:pkg middleware/resolver/dnssec
package dnssec

import "github.com/miekg/dns"

// (see harness/C03/keywire.go: proven equal to the library's table by VerifC03_EscapeLemma)
//
//verif:stub github.com/miekg/dns.escapeByte = c01sEscape
func c01sEscape(b byte) string {
	return string([]byte{'\\', '0' + b/100, '0' + b/10%10, '0' + b%10})
}

var c01sShapes = [][]int{{1}, {2}, {1, 1}, {2, 1}, {1, 2}, {}}

func c01sName(tag string, shape []int) ([][]byte, string) {
	var labels [][]byte
	var w []byte
	for _, l := range shape {
		lab := vBytes(tag, l)
		labels = append(labels, lab)
		w = append(w, byte(l))
		w = append(w, lab...)
	}
	w = append(w, 0)
	text, _, err := dns.UnpackDomainName(w, 0)
	vAssume(err == nil)
	return labels, text
}

func c01sFold(o byte) byte {
	if o >= 'A' && o <= 'Z' {
		return o + 32
	}
	return o
}

func c01sAncestorOrSelf(zone, name [][]byte) bool {
	if len(zone) > len(name) {
		return false
	}
	ok := true
	d := len(name) - len(zone)
	for i := range zone {
		same := len(zone[i]) == len(name[d+i])
		for k := 0; same && k < len(zone[i]); k++ {
			same = c01sFold(zone[i][k]) == c01sFold(name[d+i][k])
		}
		ok = ok && same
	}
	return ok
}

// VerifC01_SignerMustBeAnAncestor: the gate in front of every DS lookup - a
// signer is acceptable for a query name only if it is that name or one of its
// ancestors, label by label (a zone whose spelling merely ends the same way,
// or that swallows an escaped dot, is not).
//
//verif:entry tier=quick,thorough
//verif:expect signer-accepted-iff-label-wise-ancestor-or-self empty-signer-refused
//verif:bound query name and signer from label shapes of <= 2 octets and <= 2 labels (quick: first 4 shapes each; thorough: all 6 incl. the root), every octet value in either letter case, in the library's presentation spelling (UnpackDomainName executed)
//verif:outside longer labels and deeper names; unrooted spellings
func VerifC01_SignerMustBeAnAncestor() {
	ns := 4
	if vTier() > 0 {
		ns = len(c01sShapes)
	}
	nl, name := c01sName("n", c01sShapes[vChoice("nshape", ns)])
	zl, signer := c01sName("z", c01sShapes[vChoice("zshape", ns)])
	err := ValidateSigner(signer, name)
	vAssert("signer-accepted-iff-label-wise-ancestor-or-self", (err == nil) == c01sAncestorOrSelf(zl, nl))
	vAssert("empty-signer-refused", ValidateSigner("", name) != nil)
}
