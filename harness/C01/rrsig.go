//go:build verif

//verif:pkg middleware/resolver/dnssec
package dnssec

import (
	"net"
	"strings"

	"github.com/miekg/dns"
)

type c01rCall struct {
	name   string
	rtype  uint16
	n      int
	sigOK  bool
	answer bool
}

var c01rCalls []c01rCall

// Signature mathematics is C14's subject: one (RRset, RRSIG) verification is
// an oracle that answers arbitrarily and remembers what it was asked.
//
//verif:stub middleware/resolver/dnssec.verifyOneSigWithWork = c01rVerify
func c01rVerify(keys map[uint16][]*dns.DNSKEY, set []dns.RR, sig *dns.RRSIG, work SignatureWork, used *uint32) error {
	ok := vBool("signature.verifies")
	c := c01rCall{n: len(set), answer: ok}
	if len(set) > 0 {
		c.name, c.rtype = strings.ToLower(set[0].Header().Name), set[0].Header().Rrtype
		c.sigOK = strings.ToLower(sig.Header().Name) == c.name && sig.TypeCovered == c.rtype
	}
	c01rCalls = append(c01rCalls, c)
	if ok {
		return nil
	}
	return ErrMissingSigned
}

func c01rRR(i int) dns.RR {
	h := func(name string, t uint16) dns.RR_Header {
		return dns.RR_Header{Name: name, Rrtype: t, Class: dns.ClassINET, Ttl: 300}
	}
	sig := func(owner string, covered uint16) dns.RR {
		return &dns.RRSIG{Hdr: h(owner, dns.TypeRRSIG), TypeCovered: covered, Algorithm: 13, Labels: 2, OrigTtl: 300, KeyTag: 7, SignerName: "example."}
	}
	switch i {
	case 0:
		return nil
	case 1:
		return &dns.A{Hdr: h("a.example.", dns.TypeA), A: net.IP{192, 0, 2, 1}}
	case 2:
		return &dns.A{Hdr: h("A.Example.", dns.TypeA), A: net.IP{192, 0, 2, 2}}
	case 3:
		return &dns.TXT{Hdr: h("a.example.", dns.TypeTXT), Txt: []string{"x"}}
	case 4:
		return sig("a.example.", dns.TypeA)
	case 5:
		return sig("a.example.", dns.TypeTXT)
	case 6:
		return &dns.A{Hdr: h("victim.other.", dns.TypeA), A: net.IP{203, 0, 113, 9}}
	case 7:
		return sig("victim.other.", dns.TypeA)
	default:
		return &dns.A{Hdr: h("a.notexample.", dns.TypeA), A: net.IP{203, 0, 113, 10}}
	}
}

// VerifC01_EveryInZoneRRsetNeedsAVerifyingSignature: a reply is declared
// validated for a signer only if every RRset it carries inside the signer's
// zone was verified, as a whole set, by a signature over that very owner and
// type, and no record owned outside the zone sits in the answer section.
//
//verif:entry tier=quick,thorough
//verif:expect validated-means-every-in-zone-rrset-verified validated-means-no-foreign-record-in-the-answer some-reply-validated
//verif:bound signer example.; answer section of 0-3 records drawn from {A a.example., A A.Example. (same set, other case), TXT a.example., RRSIG(A) a.example., RRSIG(TXT) a.example., A victim.other., RRSIG(A) victim.other., A a.notexample.}; authority section none / SOA example. with its RRSIG / SOA without RRSIG / foreign-zone NS; each signature check answers arbitrarily
//verif:outside the signature check itself (C14); synthesised CNAMEs under a DNAME (VerifC01_SynthesizedCNAME); wildcard-expanded answers
func VerifC01_EveryInZoneRRsetNeedsAVerifyingSignature() {
	c01rCalls = nil
	msg := new(dns.Msg)
	msg.SetQuestion("a.example.", dns.TypeA)
	msg.Response = true
	for s := 0; s < 3; s++ {
		if rr := c01rRR(vChoice("answer.rr", 9)); rr != nil {
			msg.Answer = append(msg.Answer, rr)
		}
	}
	soa := &dns.SOA{Hdr: dns.RR_Header{Name: "example.", Rrtype: dns.TypeSOA, Class: dns.ClassINET, Ttl: 300}, Ns: "ns.example.", Mbox: "h.example."}
	switch vChoice("authority", 4) {
	case 1:
		msg.Ns = []dns.RR{soa, &dns.RRSIG{Hdr: dns.RR_Header{Name: "example.", Rrtype: dns.TypeRRSIG, Class: dns.ClassINET, Ttl: 300}, TypeCovered: dns.TypeSOA, Algorithm: 13, Labels: 1, OrigTtl: 300, KeyTag: 7, SignerName: "example."}}
	case 2:
		msg.Ns = []dns.RR{soa}
	case 3:
		msg.Ns = []dns.RR{&dns.NS{Hdr: dns.RR_Header{Name: "other.", Rrtype: dns.TypeNS, Class: dns.ClassINET, Ttl: 300}, Ns: "ns.other."}}
	}
	keys := map[uint16][]*dns.DNSKEY{7: {{Hdr: dns.RR_Header{Name: "example.", Rrtype: dns.TypeDNSKEY, Class: dns.ClassINET}, Flags: 257, Protocol: 3, Algorithm: 13, PublicKey: "AAAA"}}}
	ok, err := VerifyRRSIGWithWork("example.", keys, msg, nil)
	if !ok || err != nil {
		return
	}
	vReach("some-reply-validated")
	type key struct {
		name  string
		rtype uint16
	}
	want := map[key]int{}
	foreign := false
	for _, rr := range msg.Answer {
		t := rr.Header().Rrtype
		if t == dns.TypeRRSIG {
			continue
		}
		name := strings.ToLower(rr.Header().Name)
		if !(name == "example." || strings.HasSuffix(name, ".example.")) {
			foreign = true
			continue
		}
		want[key{name, t}]++
	}
	for _, rr := range msg.Ns {
		t := rr.Header().Rrtype
		name := strings.ToLower(rr.Header().Name)
		if t == dns.TypeRRSIG || t == dns.TypeNS || !(name == "example." || strings.HasSuffix(name, ".example.")) {
			continue
		}
		want[key{name, t}]++
	}
	vAssert("validated-means-no-foreign-record-in-the-answer", !foreign)
	all := true
	for k, n := range want {
		found := false
		for _, c := range c01rCalls {
			if c.answer && c.sigOK && c.name == k.name && c.rtype == k.rtype && c.n == n {
				found = true
			}
		}
		all = all && found
	}
	vAssert("validated-means-every-in-zone-rrset-verified", all)
}
