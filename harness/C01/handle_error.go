//go:build verif

//verif:pkg middleware/resolver
package resolver

import (
	"context"
	"fmt"
	"net"
	"time"

	"github.com/miekg/dns"
	"github.com/semihalev/sdns/config"
	"github.com/semihalev/sdns/internal/authority"
	"github.com/semihalev/sdns/internal/dnsutil"
	"github.com/semihalev/sdns/middleware"
)

// a request context as the server hands it over: already bounded (so handle
// derives no timer context of its own), alive
type c01hCtx struct{}

func (c01hCtx) Deadline() (time.Time, bool) { return time.Time{}, true }
func (c01hCtx) Done() <-chan struct{}       { return nil }
func (c01hCtx) Err() error                  { return nil }
func (c01hCtx) Value(key any) any           { return nil }

var c01hResp *dns.Msg
var c01hErr error

// The resolution itself (network-driven) is a stub that may hand back any
// combination of a message - data included - and an error.
//
//verif:stub (*middleware/resolver.Resolver).Resolve = c01hResolve
func c01hResolve(r *Resolver, ctx context.Context, req *dns.Msg, servers *authority.Servers, root bool, depth int, level int, nomin bool, parentDS []dns.RR, extra ...bool) (*dns.Msg, error) {
	return c01hResp, c01hErr
}

// VerifC01_FailedResolutionCarriesNoData: when the resolution of a client
// query ends in an error - a validation failure of any kind, a timeout, an
// exhausted budget - the client is told SERVFAIL and nothing else: no answer,
// authority or additional record of whatever the failed resolution had
// gathered, no AD, the client's own id and question, and an Extended DNS Error
// exactly when the client speaks EDNS.
//
//verif:entry tier=quick,thorough
//verif:expect failed-resolution-is-servfail failed-resolution-carries-no-records failed-resolution-never-sets-ad failed-resolution-echoes-the-client ede-exactly-for-edns-clients resolution-succeeded
//verif:bound one client query (id, CD, DO, with/without OPT symbolic; RD set); the resolution returns nil or a message with AD and rcode symbolic carrying answer, authority and additional records, together with one of: no error, a DNSSEC validation error with any EDE code, a wrapped one, a deadline, a cancellation, an exhausted work budget, a plain error; validation on or off
//verif:outside Resolver.Resolve itself (its kernels have their own entries); the cache and edns layers above (VerifC01_CachedReplyADDiscipline, VerifC06_*)
func VerifC01_FailedResolutionCarriesNoData() {
	h := &DNSHandler{resolver: &Resolver{dnssec: vBool("validation.on")}, cfg: &config.Config{Maxdepth: 30}}
	h.cfg.QueryTimeout.Duration = 10e9
	req := new(dns.Msg)
	req.SetQuestion("www.example.", dns.TypeA)
	req.Id = vU16("client.id")
	req.CheckingDisabled = vBool("client.cd")
	edns := vBool("client.edns")
	if edns {
		req.SetEdns0(1232, vBool("client.do"))
	}
	q := req.Question[0]

	poisoned := func() *dns.Msg {
		m := new(dns.Msg)
		m.SetReply(req)
		m.Rcode = int(vU8("upstream.rcode") & 15)
		m.AuthenticatedData = vBool("upstream.ad")
		m.Answer = []dns.RR{&dns.A{Hdr: dns.RR_Header{Name: "www.example.", Rrtype: dns.TypeA, Class: dns.ClassINET, Ttl: 300}, A: net.IP{203, 0, 113, 66}}}
		m.Ns = []dns.RR{&dns.NS{Hdr: dns.RR_Header{Name: "example.", Rrtype: dns.TypeNS, Class: dns.ClassINET, Ttl: 300}, Ns: "ns.evil.test."}}
		m.Extra = []dns.RR{&dns.A{Hdr: dns.RR_Header{Name: "ns.evil.test.", Rrtype: dns.TypeA, Class: dns.ClassINET, Ttl: 300}, A: net.IP{203, 0, 113, 67}}}
		return m
	}
	c01hResp = nil
	if vBool("resolution.returns.a.message") {
		c01hResp = poisoned()
	}
	switch vChoice("resolution.error", 7) {
	case 0:
		c01hErr = nil
	case 1:
		c01hErr = &dnsutil.EDEError{Code: vU16("ede.code"), Message: "validation failed"}
	case 2:
		c01hErr = fmt.Errorf("zone example.: %w", &dnsutil.EDEError{Code: vU16("ede.code"), Message: "validation failed"})
	case 3:
		c01hErr = context.DeadlineExceeded
	case 4:
		c01hErr = context.Canceled
	case 5:
		c01hErr = middleware.ErrRecursionWorkLimit
	default:
		c01hErr = errVerif
	}
	if c01hErr == nil {
		vAssume(c01hResp != nil)
	}

	out := h.handle(c01hCtx{}, req)

	if c01hErr == nil {
		// what a successful resolution may contain is the validator's business
		vReach("resolution-succeeded")
		return
	}
	vAssert("failed-resolution-is-servfail", out != nil && out.Rcode == dns.RcodeServerFailure && out.Response)
	vAssert("failed-resolution-carries-no-records", len(out.Answer) == 0 && len(out.Ns) == 0)
	extraOK := len(out.Extra) == 0
	if edns {
		_, isOpt := out.Extra[0].(*dns.OPT)
		extraOK = len(out.Extra) == 1 && isOpt
	}
	vAssert("failed-resolution-carries-no-records", extraOK)
	vAssert("failed-resolution-never-sets-ad", !out.AuthenticatedData)
	vAssert("failed-resolution-echoes-the-client", out.Id == req.Id && len(out.Question) == 1 && out.Question[0] == q)
	vAssert("ede-exactly-for-edns-clients", (dnsutil.GetEDE(out) != nil) == edns)
}
