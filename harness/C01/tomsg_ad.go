//go:build verif

//verif:pkg middleware/cache
package cache

import (
	"net"
	"time"

	"github.com/miekg/dns"
)

// VerifC01_CachedReplyADDiscipline: a reply rebuilt from a cache entry
// carries AD only if the stored (validated) answer had it and the client did
// not set CD; it is the client's own reply (QR, id, opcode, question echoed).
//
//verif:entry tier=quick,thorough
//verif:also C06
//verif:expect cached-reply-ad-only-if-stored-ad-and-not-cd cached-reply-echoes-the-request
//verif:bound stored positive answer with every header flag symbolic (AD, AA, RA, TC, rcode 0-15); request with symbolic id, RD, CD, AD and DO; entry alive
//verif:outside the opt-out rule 'neither DO nor AD' (applied one layer up, VerifC06_EdnsWriteMsg); lifetime arithmetic (C04)
func VerifC01_CachedReplyADDiscipline() {
	m := new(dns.Msg)
	m.SetQuestion("a.example.", dns.TypeA)
	m.Response = true
	m.AuthenticatedData, m.Authoritative, m.RecursionAvailable = vBool("stored.ad"), vBool("stored.aa"), vBool("stored.ra")
	m.Rcode = int(vU8("stored.rcode") & 0xF)
	m.Answer = []dns.RR{&dns.A{Hdr: dns.RR_Header{Name: "a.example.", Rrtype: dns.TypeA, Class: dns.ClassINET, Ttl: 300}, A: net.IP{192, 0, 2, 1}}}
	wire, err := m.Pack()
	vAssume(err == nil)
	now := vNow()
	e := &CacheEntry{wire: wire, stored: now, ttl: time.Hour, origTTL: 3600, question: m.Question[0]}
	req := new(dns.Msg)
	req.SetQuestion("a.example.", dns.TypeA)
	req.Id = vU16("req.id")
	req.RecursionDesired, req.CheckingDisabled, req.AuthenticatedData = vBool("req.rd"), vBool("req.cd"), vBool("req.ad")
	if vBool("req.edns") {
		req.SetEdns0(1232, vBool("req.do"))
	}
	resp := e.ToMsg(req)
	if resp == nil {
		// the clock may have run past the hour between the two readings
		vReach("expired-meanwhile")
		return
	}
	if resp.AuthenticatedData {
		vAssert("cached-reply-ad-only-if-stored-ad-and-not-cd", m.AuthenticatedData && !req.CheckingDisabled)
	}
	vAssert("cached-reply-echoes-the-request", resp.Response && resp.Id == req.Id && resp.Opcode == req.Opcode &&
		len(resp.Question) == 1 && resp.Question[0] == req.Question[0])
}
