//go:build verif

//verif:pkg middleware/resolver
package resolver

import (
	"context"

	"github.com/miekg/dns"
	"github.com/semihalev/sdns/middleware/resolver/dnssec"
)

// What the walk finds at one zone-cut candidate: the DS sub-query, the
// signature check over its answer, and the delegation proof are stubs whose
// outcomes are scripted; everything that decides what those outcomes *mean*
// is the real code.
type c01iCut struct {
	lookupFails bool
	verify      int // 0 ok, 1 not verified, 2 error
	ds          int // 0 none, 1 a supported DS, 2 only an unsupported one (digest type 3)
	denial      int // 0 none, 1 NSEC3 of the signer's zone, 2 NSEC3 of another zone only, 3 NSEC of the signer's zone
	proofOK     bool
}

var c01i struct {
	cuts     map[string]*c01iCut
	signerOf map[string]string // candidate -> the signer its answer must be checked against
	asked    []string
	wrongCtx bool
}

//verif:stub (*middleware/resolver.Resolver).lookupDS = c01iLookupDS
//verif:stub (*middleware/resolver.Resolver).verifyDNSSEC = c01iVerify
//verif:stub middleware/resolver/dnssec.VerifyDelegationForZoneWithWork = c01iProof3
//verif:stub middleware/resolver/dnssec.VerifyDelegationNSEC = c01iProof
func c01iLookupDS(r *Resolver, ctx context.Context, qname string, cd bool) (*dns.Msg, error) {
	c01i.asked = append(c01i.asked, qname)
	cut, ok := c01i.cuts[qname]
	if !ok {
		vFail("ds-asked-for-a-name-that-is-no-candidate")
		return nil, errVerif
	}
	if cut.lookupFails {
		return nil, errVerif
	}
	parent := c01i.signerOf[qname]
	m := new(dns.Msg)
	m.SetQuestion(qname, dns.TypeDS)
	m.Response = true
	switch cut.ds {
	case 1:
		m.Answer = []dns.RR{&dns.DS{Hdr: dns.RR_Header{Name: qname, Rrtype: dns.TypeDS, Class: dns.ClassINET, Ttl: 300}, KeyTag: 1, Algorithm: dns.ECDSAP256SHA256, DigestType: dns.SHA256, Digest: "00"}}
	case 2:
		m.Answer = []dns.RR{&dns.DS{Hdr: dns.RR_Header{Name: qname, Rrtype: dns.TypeDS, Class: dns.ClassINET, Ttl: 300}, KeyTag: 1, Algorithm: dns.ECDSAP256SHA256, DigestType: 3, Digest: "00"}}
	}
	switch cut.denial {
	case 1:
		m.Ns = []dns.RR{&dns.NSEC3{Hdr: dns.RR_Header{Name: "abcd." + parent, Rrtype: dns.TypeNSEC3, Class: dns.ClassINET, Ttl: 300}}}
	case 2:
		m.Ns = []dns.RR{&dns.NSEC3{Hdr: dns.RR_Header{Name: "abcd.elsewhere.test.", Rrtype: dns.TypeNSEC3, Class: dns.ClassINET, Ttl: 300}}}
	case 3:
		m.Ns = []dns.RR{&dns.NSEC{Hdr: dns.RR_Header{Name: qname, Rrtype: dns.TypeNSEC, Class: dns.ClassINET, Ttl: 300}, NextDomain: "zz." + parent}}
	}
	return m, nil
}

func c01iVerify(r *Resolver, ctx context.Context, signer, signed string, resp *dns.Msg, parentDS []dns.RR) (bool, error) {
	cut := c01i.cuts[signed]
	if cut == nil || signer != c01i.signerOf[signed] {
		c01i.wrongCtx = true
		return false, errVerif
	}
	switch cut.verify {
	case 0:
		return true, nil
	case 1:
		return false, nil
	}
	return false, errVerif
}

func c01iProof3(delegation, signer string, nsec []dns.RR, work dnssec.NSEC3Work) error {
	cut := c01i.cuts[delegation]
	if cut == nil || !cut.proofOK || signer != c01i.signerOf[delegation] {
		return errVerif
	}
	return nil
}

func c01iProof(delegation string, nsecSet []dns.RR) error {
	cut := c01i.cuts[delegation]
	if cut == nil || !cut.proofOK {
		return errVerif
	}
	return nil
}

func c01iScript(tag string) *c01iCut {
	return &c01iCut{lookupFails: vBool(tag + ".lookup.fails"), verify: vChoice(tag+".verify", 3), ds: vChoice(tag+".ds", 3), denial: vChoice(tag+".denial", 4), proofOK: vBool(tag + ".proof.ok")}
}

// a cut that is authentically insecure: the DS answer was fetched, its
// signatures verified against the signer above, and it either holds only DS
// records this validator cannot use or none at all together with a verified
// delegation proof from the signer's own zone
func (c *c01iCut) provenInsecure() bool {
	if c.lookupFails || c.verify != 0 {
		return false
	}
	if c.ds == 2 {
		return true
	}
	return c.ds == 0 && (c.denial == 1 || c.denial == 3) && c.proofOK
}

func (c *c01iCut) secure() bool { return !c.lookupFails && c.verify == 0 && c.ds == 1 }

// VerifC01_UnsignedOnlyBelowAProvenInsecureDelegation: unsigned data under a
// signed zone is let through only when an insecure delegation between that
// zone and the name is authenticated: walking the zone-cut candidates from
// just below the zone toward the name, every cut above was a verified secure
// delegation and this one's DS answer verified and either holds no usable DS
// or none at all with a verified delegation proof from the signer's own zone.
// A failed lookup, a failed or errored signature check, a proof from another
// zone, a missing proof - all keep the data bogus.
//
//verif:entry tier=quick,thorough
//verif:expect unsigned-accepted-only-below-a-proven-insecure-delegation ds-answers-checked-against-the-zone-above some-insecure-delegation-proven some-unsigned-data-stays-bogus
//verif:bound signed zone example. (symbolic letter case), name www.sub.example. - two zone-cut candidates sub.example. and www.sub.example.; at each: DS lookup fails or not, signature check ok / not verified / error, DS answer none / supported / unsupported-only, authority section none / NSEC3 of the signer's zone / NSEC3 of another zone / NSEC, delegation proof accepted or not; also a name equal to the zone and one outside it
//verif:outside the DS sub-query, signature verification and the delegation-proof verifiers themselves (VerifC01_EveryInZoneRRset..., VerifC02_*); isZoneSecure's own DS probe; the callers in Resolver.answer / authority
func VerifC01_UnsignedOnlyBelowAProvenInsecureDelegation() {
	c01i.cuts, c01i.signerOf, c01i.asked, c01i.wrongCtx = map[string]*c01iCut{}, map[string]string{}, nil, false
	r := new(Resolver)
	zone := "example."
	if vBool("zone.upper") {
		zone = "Example."
	}
	qname := []string{"www.sub.example.", "example.", "www.sub.other."}[vChoice("qname", 3)]
	c1, c2 := c01iScript("cut1"), c01iScript("cut2")
	c01i.cuts["sub.example."], c01i.cuts["www.sub.example."] = c1, c2
	c01i.signerOf["sub.example."] = "example."
	c01i.signerOf["www.sub.example."] = "sub.example."
	parentDS := []dns.RR{&dns.DS{Hdr: dns.RR_Header{Name: "example.", Rrtype: dns.TypeDS, Class: dns.ClassINET, Ttl: 300}, KeyTag: 1, Algorithm: dns.ECDSAP256SHA256, DigestType: dns.SHA256, Digest: "00"}}

	got := r.provenInsecureDelegation(context.Background(), zone, qname, parentDS)

	vAssert("ds-answers-checked-against-the-zone-above", !c01i.wrongCtx)
	proven := false
	if qname == "www.sub.example." {
		proven = c1.provenInsecure() || (c1.secure() && c2.provenInsecure())
	}
	if got {
		vReach("some-insecure-delegation-proven")
		vAssert("unsigned-accepted-only-below-a-proven-insecure-delegation", proven)
	} else {
		vReach("some-unsigned-data-stays-bogus")
	}
}
