//go:build verif

//verif:pkg middleware/resolver
package resolver

import (
	"context"
	"strings"

	"github.com/miekg/dns"
)

var c01z struct {
	found  []dns.RR
	err    bool
	probes []string
}

// The DS walk below an ancestor's DS (sub-queries through the validating
// pipeline) is a stub returning any DS set or an error.
//
//verif:stub (*middleware/resolver.Resolver).findDS = c01zFindDS
func c01zFindDS(r *Resolver, ctx context.Context, signer, qname string, parentDS []dns.RR, cd bool) ([]dns.RR, error) {
	c01z.probes = append(c01z.probes, qname)
	if cd {
		vFail("ds-probe-with-checking-disabled")
	}
	if c01z.err {
		return nil, errVerif
	}
	// the walk starts from the DS in hand: one that already belongs to the
	// probed name is the answer
	if len(parentDS) > 0 && strings.EqualFold(parentDS[0].Header().Name, qname) {
		return parentDS, nil
	}
	return c01z.found, nil
}

func c01zDS(owner string, usable bool) dns.RR {
	ds := &dns.DS{Hdr: dns.RR_Header{Name: owner, Rrtype: dns.TypeDS, Class: dns.ClassINET, Ttl: 300}, KeyTag: 1, Algorithm: dns.ECDSAP256SHA256, DigestType: dns.SHA256, Digest: "00"}
	if !usable {
		if vBool("unusable.by.algorithm") {
			ds.Algorithm = dns.ED448
		} else {
			ds.DigestType = dns.GOST94
		}
	}
	return ds
}

func c01zSet(tag, owner string) ([]dns.RR, bool) {
	var set []dns.RR
	usable := false
	n := vChoice(tag+".count", 3)
	for i := 0; i < n; i++ {
		u := vBool(tag + ".usable")
		usable = usable || u
		set = append(set, c01zDS(owner, u))
	}
	return set, usable
}

// VerifC01_MissingSignaturesTolerableOnlyWithoutAUsableDS: a response without
// signatures is taken for legitimately unsigned data only if the DS set in
// hand holds no DS this validator can use - in any position of the set - or,
// when that DS belongs to an ancestor of the answering zone, the validated DS
// walk down to the zone itself ends without a usable DS; a failing walk keeps
// the zone signed (fail closed).
//
//verif:entry tier=quick,thorough
//verif:expect unsigned-tolerated-only-without-a-usable-ds ds-walk-failure-fails-closed some-zone-judged-unsigned some-zone-judged-signed
//verif:bound DS set in hand of 0-2 records, each usable or not (unsupported digest or algorithm), owned by the answering zone (either letter case) or by its parent; answering zone known or unknown; the DS walk returns 0-2 records (usable or not) or fails
//verif:outside the walk itself (findDS: sub-queries through the validating pipeline); provenInsecureDelegation (VerifC01_UnsignedOnlyBelowAProvenInsecureDelegation)
func VerifC01_MissingSignaturesTolerableOnlyWithoutAUsableDS() {
	c01z.probes = nil
	r := new(Resolver)
	owner := []string{"sub.example.", "Sub.Example.", "example."}[vChoice("ds.owner", 3)]
	inHand, usableInHand := c01zSet("inhand", owner)
	var usableFound bool
	c01z.found, usableFound = c01zSet("found", "sub.example.")
	c01z.err = vBool("walk.fails")
	zone := "sub.example."
	if vBool("zone.unknown") {
		zone = ""
	}
	secure := r.isZoneSecure(context.Background(), "www.sub.example.", inHand, zone)
	walked := len(c01z.probes) > 0
	if secure {
		vReach("some-zone-judged-signed")
		return
	}
	vReach("some-zone-judged-unsigned")
	vAssert("unsigned-tolerated-only-without-a-usable-ds", !usableInHand || (walked && !c01z.err && !usableFound && owner == "example."))
	_ = strings.EqualFold
	vAssert("ds-walk-failure-fails-closed", !(walked && c01z.err))
}
