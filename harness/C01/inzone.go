//go:build verif

//verif:pkg internal/dnsutil
package dnsutil

import "github.com/miekg/dns"

// (see harness/C03/keywire.go: proven equal to the library's table by VerifC03_EscapeLemma)
//
//verif:stub github.com/miekg/dns.escapeByte = c01EscapeSpec
func c01EscapeSpec(b byte) string {
	return string([]byte{'\\', '0' + b/100, '0' + b/10%10, '0' + b%10})
}

var c01Shapes = [][]int{{}, {1}, {2}, {1, 1}, {1, 2}, {2, 1}, {1, 1, 1}, {3}}

// c01Name: labels with symbolic octets (no upper-case letters: callers
// lower-case first) and the presentation text the DNS library gives them.
func c01Name(tag string, shape []int) ([][]byte, string) {
	var labels [][]byte
	var w []byte
	for _, l := range shape {
		lab := vBytes(tag, l)
		for _, o := range lab {
			vAssume(o < 'A' || o > 'Z')
		}
		labels = append(labels, lab)
		w = append(w, byte(l))
		w = append(w, lab...)
	}
	w = append(w, 0)
	text, _, err := dns.UnpackDomainName(w, 0)
	vAssume(err == nil)
	return labels, text
}

func c01SameLabel(a, b []byte) bool {
	if len(a) != len(b) {
		return false
	}
	eq := true
	for i := range a {
		eq = eq && a[i] == b[i]
	}
	return eq
}

// c01IsSuffix: zone's labels are the trailing labels of name's.
func c01IsSuffix(zone, name [][]byte) bool {
	if len(zone) > len(name) {
		return false
	}
	ok := true
	d := len(name) - len(zone)
	for i := range zone {
		ok = ok && c01SameLabel(zone[i], name[d+i])
	}
	return ok
}

// VerifC01_NameInZone: "name is at or below zone" is decided on whole labels:
// a key for example.com. never covers foo\.example.com. nor notexample.com.
//
//verif:entry tier=quick,thorough
//verif:bound name and zone from label shapes of the first 4 shapes (quick) / 5 shapes (thorough; all 8 exceeded the budget), labels <= 2 octets; every octet value except A-Z (arguments are lower-cased by the callers), in the library's canonical presentation spelling (obtained by executing UnpackDomainName)
func VerifC01_NameInZone() {
	ns := 4
	if vTier() > 0 {
		ns = 5 // all 8 shapes exceeded the thorough budget
	}
	nl, name := c01Name("n", c01Shapes[vChoice("nshape", ns)])
	zl, zone := c01Name("z", c01Shapes[vChoice("zshape", ns)])
	want := c01IsSuffix(zl, nl)
	vAssert("in-zone-iff-label-suffix", NameInZone(name, zone) == want)
	vAssert("agrees-with-library-IsSubDomain", dns.IsSubDomain(zone, name) == want)
}
