//go:build verif

//verif:pkg middleware/resolver/dnssec
package dnssec

import "github.com/miekg/dns"

type c01N struct {
	labels [][]byte
	text   string
}

func c01Gen(tag string, nlabels int) c01N {
	var n c01N
	var text []byte
	for i := 0; i < nlabels; i++ {
		lab := vBytes(tag, 1)
		c := lab[0]
		vAssume(c < 0x80 && c > ' ' && c != '.' && c != '\\' && c != '"' && c != '(' && c != ')' && c != ';' && c != '@' && c != '\'' && c != 0x7f)
		n.labels = append(n.labels, lab)
		text = append(text, c, '.')
	}
	if nlabels == 0 {
		text = []byte{'.'}
	}
	n.text = string(text)
	return n
}

func c01Low(c byte) byte {
	if c >= 'A' && c <= 'Z' {
		return c + 32
	}
	return c
}

func c01EqLabels(a, b [][]byte) bool {
	if len(a) != len(b) {
		return false
	}
	ok := true
	for i := range a {
		ok = ok && c01Low(a[i][0]) == c01Low(b[i][0])
	}
	return ok
}

// VerifC01_SynthesizedCNAME: an unsigned CNAME may ride on a DNAME's
// signature only if the DNAME owner is a *proper* ancestor of the CNAME owner
// and the CNAME target is exactly the RFC 6672 substitution. A CNAME at the
// DNAME owner itself, beside it, or with any other target is not a synthesis.
//
//verif:entry tier=quick,thorough
//verif:bound CNAME owner of 1-3 labels, DNAME owner of 1-2 labels, DNAME target of 1-2 labels, CNAME target of 1-4 labels; one symbolic printable non-special ASCII character per label (mixed case)
func VerifC01_SynthesizedCNAME() {
	owner := c01Gen("owner", 1+vChoice("owner.labels", 3))
	downer := c01Gen("dname.owner", 1+vChoice("dname.labels", 2))
	dtarget := c01Gen("dname.target", 1+vChoice("dname.target.labels", 2))
	ctarget := c01Gen("cname.target", 1+vChoice("cname.target.labels", 4))
	cname := &dns.CNAME{Hdr: dns.RR_Header{Name: owner.text, Rrtype: dns.TypeCNAME, Class: dns.ClassINET}, Target: ctarget.text}
	dname := &dns.DNAME{Hdr: dns.RR_Header{Name: downer.text, Rrtype: dns.TypeDNAME, Class: dns.ClassINET}, Target: dtarget.text}
	got := isSynthesizedCNAME(cname, []*dns.DNAME{dname})

	// reference on label arrays
	k := len(owner.labels) - len(downer.labels)
	want := false
	if k > 0 {
		below := true
		for i := range downer.labels {
			below = below && c01Low(downer.labels[i][0]) == c01Low(owner.labels[k+i][0])
		}
		expected := append(append([][]byte{}, owner.labels[:k]...), dtarget.labels...)
		want = below && c01EqLabels(expected, ctarget.labels)
	}
	vAssert("synthesis-iff-proper-ancestor-and-exact-substitution", got == want)
	vAssert("no-dname-no-synthesis", !isSynthesizedCNAME(cname, nil))
}
