//go:build verif

//verif:pkg middleware/resolver
package resolver

import (
	"net"

	"github.com/miekg/dns"
)

func c07sRR(i int) dns.RR {
	h := func(name string, t uint16) dns.RR_Header {
		return dns.RR_Header{Name: name, Rrtype: t, Class: dns.ClassINET, Ttl: 300}
	}
	switch i {
	case 0:
		return &dns.NS{Hdr: h("example.", dns.TypeNS), Ns: "ns.evil.test."}
	case 1:
		return &dns.A{Hdr: h("ns.evil.test.", dns.TypeA), A: net.IP{203, 0, 113, 66}}
	case 2:
		return &dns.A{Hdr: h("www.victim.test.", dns.TypeA), A: net.IP{203, 0, 113, 67}}
	case 3:
		return &dns.SOA{Hdr: h("example.", dns.TypeSOA), Ns: "ns.example.", Mbox: "h.example."}
	case 4:
		return &dns.NSEC{Hdr: h("a.example.", dns.TypeNSEC), NextDomain: "c.example."}
	case 5:
		return &dns.RRSIG{Hdr: h("example.", dns.TypeRRSIG), TypeCovered: dns.TypeSOA, SignerName: "example."}
	case 6:
		return &dns.NSEC3{Hdr: h("abcd.example.", dns.TypeNSEC3)}
	default:
		return &dns.OPT{Hdr: dns.RR_Header{Name: ".", Rrtype: dns.TypeOPT, Class: 4096}}
	}
}

// VerifC07_UpstreamSectionsDoNotReachTheClient: the authority and additional
// sections an upstream attached to a positive answer are dropped (nothing in
// them was asked for, and records there may be owned by anyone); a negative
// answer keeps only the records its proof consists of.
//
//verif:entry tier=quick,thorough
//verif:expect positive-answer-carries-no-upstream-authority positive-answer-additional-is-only-the-clients-opt negative-answer-authority-is-proof-records-only
//verif:bound upstream authority and additional sections of 0-2 records each from {foreign NS, foreign glue A, unrelated A, SOA, NSEC, RRSIG, NSEC3, OPT}; request with or without EDNS; the keep-additional flag off (the client-facing case)
//verif:outside the call sites in Resolver.answer / authority (network-driven; not encoded); the keep-additional variant used for internal glue lookups
func VerifC07_UpstreamSectionsDoNotReachTheClient() {
	r := new(Resolver)
	req := new(dns.Msg)
	req.SetQuestion("www.example.", dns.TypeA)
	var reqOpt *dns.OPT
	if vBool("req.edns") {
		req.SetEdns0(1232, vBool("req.do"))
		reqOpt = req.IsEdns0()
	}
	resp := new(dns.Msg)
	resp.SetReply(req)
	resp.Answer = []dns.RR{&dns.A{Hdr: dns.RR_Header{Name: "www.example.", Rrtype: dns.TypeA, Class: dns.ClassINET, Ttl: 300}, A: net.IP{192, 0, 2, 1}}}
	var ns, extra []dns.RR
	nNs, nExtra := vChoice("authority.count", 3), vChoice("additional.count", 3)
	for i := 0; i < nNs; i++ {
		ns = append(ns, c07sRR(vChoice("authority.rr", 8)))
	}
	for i := 0; i < nExtra; i++ {
		extra = append(extra, c07sRR(vChoice("additional.rr", 8)))
	}
	resp.Ns, resp.Extra = append([]dns.RR(nil), ns...), append([]dns.RR(nil), extra...)

	out := r.clearAdditional(req, resp)
	vAssert("positive-answer-carries-no-upstream-authority", len(out.Ns) == 0 && len(out.Answer) == 1)
	okExtra := len(out.Extra) == 0
	if reqOpt != nil {
		okExtra = len(out.Extra) == 1 && out.Extra[0] == dns.RR(reqOpt)
	}
	vAssert("positive-answer-additional-is-only-the-clients-opt", okExtra)

	kept := r.filterAuthorityRecords(ns)
	proofOnly := true
	for _, rr := range kept {
		switch rr.(type) {
		case *dns.SOA, *dns.NSEC, *dns.NSEC3, *dns.RRSIG:
		default:
			proofOnly = false
		}
	}
	n := 0
	for _, rr := range ns {
		switch rr.(type) {
		case *dns.SOA, *dns.NSEC, *dns.NSEC3, *dns.RRSIG:
			n++
		}
	}
	vAssert("negative-answer-authority-is-proof-records-only", proofOnly && len(kept) == n)
}
