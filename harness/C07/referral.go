//go:build verif

//verif:pkg middleware/resolver
package resolver

import "github.com/miekg/dns"

type c07Name struct {
	labels [][]byte
	text   string
}

func c07Gen(tag string, nlabels int) c07Name {
	var n c07Name
	var text []byte
	for i := 0; i < nlabels; i++ {
		lab := vBytes(tag, 1)
		c := lab[0]
		vAssume(c < 0x80 && c > ' ' && c != '.' && c != '\\' && c != '"' && c != '(' && c != ')' && c != ';' && c != '@' && c != '\'' && c != 0x7f)
		n.labels = append(n.labels, lab)
		text = append(text, c, '.')
	}
	if nlabels == 0 {
		text = []byte{'.'}
	}
	n.text = string(text)
	return n
}

func c07Low(c byte) byte {
	if c >= 'A' && c <= 'Z' {
		return c + 32
	}
	return c
}

// entry's labels are the trailing labels of name's (case-insensitive); strict = proper suffix
func c07Suffix(entry, name [][]byte, strict bool) bool {
	if len(entry) > len(name) || (strict && len(entry) == len(name)) {
		return false
	}
	ok := true
	d := len(name) - len(entry)
	for i := range entry {
		ok = ok && c07Low(entry[i][0]) == c07Low(name[d+i][0])
	}
	return ok
}

// VerifC07_ReferralRule: a referral is followed only if it delegates a zone
// strictly below the zone whose servers were asked and at or above the query
// name - whatever the letter case of any of the three names - in the query's
// class, from one coherent NS set.
//
//verif:entry tier=quick,thorough
//verif:bound asked zone of 0-2 labels, referral owner of 0-3 labels, query name of 1-3 labels, one symbolic printable non-special ASCII character per label (mixed case); class symbolic; coherent/incoherent flag symbolic
func VerifC07_ReferralRule() {
	auth := c07Gen("auth", vChoice("auth.labels", 3))
	ref := c07Gen("ref", vChoice("ref.labels", 4))
	q := c07Gen("q", 1+vChoice("q.labels", 3))
	want := c07Suffix(auth.labels, ref.labels, true) && c07Suffix(ref.labels, q.labels, false)
	vAssert("progressing-iff-strictly-below-asked-zone-and-on-path", progressingReferral(ref.text, auth.text, q.text) == want)

	qclass, rclass := vU16("qclass"), vU16("rclass")
	info := delegationInfo{nsRecord: &dns.NS{Hdr: dns.RR_Header{Name: ref.text, Rrtype: dns.TypeNS, Class: rclass, Ttl: 60}, Ns: "ns."}, incoherent: vBool("incoherent")}
	got := validReferral(info, auth.text, dns.Question{Name: q.text, Qtype: dns.TypeA, Qclass: qclass})
	vAssert("valid-needs-coherent-same-class-progressing", got == (want && !info.incoherent && qclass == rclass))
	vAssert("no-ns-record-is-never-valid", !validReferral(delegationInfo{}, auth.text, dns.Question{Name: q.text, Qtype: dns.TypeA, Qclass: qclass}))
}
