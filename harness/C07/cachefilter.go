//go:build verif

//verif:pkg middleware/cache
package cache

import (
	"net"

	"github.com/miekg/dns"
)

func c07fRR(i int) (rr dns.RR, mine bool) {
	h := func(name string, t uint16) dns.RR_Header {
		return dns.RR_Header{Name: name, Rrtype: t, Class: dns.ClassINET, Ttl: 300}
	}
	switch i {
	case 0:
		return &dns.A{Hdr: h("www.example.com.", dns.TypeA), A: net.IP{192, 0, 2, 1}}, true
	case 1:
		return &dns.A{Hdr: h("WWW.Example.COM.", dns.TypeA), A: net.IP{192, 0, 2, 2}}, true
	case 2:
		return &dns.CNAME{Hdr: h("www.example.com.", dns.TypeCNAME), Target: "cdn.example.net."}, true
	case 3:
		return &dns.A{Hdr: h("cdn.example.net.", dns.TypeA), A: net.IP{198, 51, 100, 1}}, false
	case 4:
		return &dns.DNAME{Hdr: h("example.com.", dns.TypeDNAME), Target: "example.net."}, true
	case 5:
		return &dns.RRSIG{Hdr: h("example.com.", dns.TypeRRSIG), TypeCovered: dns.TypeDNAME, SignerName: "example.com."}, true
	case 6:
		return &dns.RRSIG{Hdr: h("cdn.example.net.", dns.TypeRRSIG), TypeCovered: dns.TypeA, SignerName: "example.net."}, false
	case 7:
		return &dns.A{Hdr: h("victim.example.org.", dns.TypeA), A: net.IP{203, 0, 113, 9}}, false
	case 8:
		return &dns.RRSIG{Hdr: h("www.example.com.", dns.TypeRRSIG), TypeCovered: dns.TypeA, SignerName: "example.com."}, true
	default:
		// owner is a string-suffix but not the question
		return &dns.A{Hdr: h("xwww.example.com.", dns.TypeA), A: net.IP{203, 0, 113, 10}}, false
	}
}

// VerifC07_OnlyQuestionOwnedRecordsCached: what the cache keeps of an
// upstream answer section.
//
//verif:entry tier=quick,thorough
//verif:expect kept-records-belong-to-the-question every-question-owned-record-kept order-and-identity-preserved
//verif:bound answer section of 0-4 records, each any of 10 shapes (question-owned in either case, CNAME, alias-target A, DNAME at an ancestor, RRSIG over DNAME, RRSIG over foreign A, unrelated A, RRSIG over own A, near-miss owner)
//verif:outside owner names with escapes; more than 4 answer records
func VerifC07_OnlyQuestionOwnedRecordsCached() {
	res := new(dns.Msg)
	res.Response = true
	res.Question = []dns.Question{{Name: "www.example.com.", Qtype: dns.TypeA, Qclass: dns.ClassINET}}
	n := vChoice("answers", 5)
	var in []dns.RR
	var mine []bool
	for i := 0; i < n; i++ {
		rr, m := c07fRR(vChoice("rr", 10))
		in = append(in, rr)
		mine = append(mine, m)
	}
	res.Answer = append([]dns.RR(nil), in...)
	res.Ns = []dns.RR{&dns.NS{Hdr: dns.RR_Header{Name: "example.com.", Rrtype: dns.TypeNS, Class: dns.ClassINET, Ttl: 300}, Ns: "ns.example.com."}}

	out := filterCacheableAnswer(res)

	j := 0
	for i, rr := range in {
		if mine[i] {
			vAssert("every-question-owned-record-kept", j < len(out.Answer))
			vAssert("order-and-identity-preserved", out.Answer[j] == rr)
			j++
		}
	}
	vAssert("kept-records-belong-to-the-question", len(out.Answer) == j)
}
