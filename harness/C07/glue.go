//go:build verif

//verif:pkg middleware/resolver
package resolver

import (
	"net"
	"net/netip"
	"strings"

	"github.com/miekg/dns"
	"github.com/semihalev/sdns/config"
	"github.com/semihalev/sdns/internal/authority"
	"github.com/semihalev/sdns/internal/cache"
)

var c07gServers []netip.AddrPort
var c07gKeyNames []string
var c07gKeyTypes []uint16
var c07gAdded [][]netip.Addr

// Server construction (address printing) and the glue tables are sinks: what
// matters is which (owner, address) pairs reach them.
//
//verif:stub internal/authority.NewServerFromAddrPort = c07gServer
//verif:stub internal/cache.Key = c07gKey
//verif:stub (*internal/cache.Cache).Add = c07gAdd
func c07gServer(ap netip.AddrPort) *authority.Server {
	c07gServers = append(c07gServers, ap)
	return new(authority.Server)
}

func c07gKey(q dns.Question, extra ...bool) uint64 {
	c07gKeyNames = append(c07gKeyNames, q.Name)
	c07gKeyTypes = append(c07gKeyTypes, q.Qtype)
	return uint64(len(c07gKeyNames))
}

func c07gAdd(c *cache.Cache, key uint64, value any) {
	c07gAdded = append(c07gAdded, value.([]netip.Addr))
}

var c07gNames = []string{"ns1.example.", "NS1.Example.", "ns1.sub.example.", "ns.other.", "ns1.badexample.", "example.", "ns1.example.org.", "ns1.sub.EXAMPLE."}

// c07gInZone: label-wise, case-insensitive "at or below", written against
// label arrays so it shares nothing with CompareSuffix.
func c07gInZone(name, zone string) bool {
	nl := strings.Split(strings.ToLower(strings.TrimSuffix(name, ".")), ".")
	zl := strings.Split(strings.ToLower(strings.TrimSuffix(zone, ".")), ".")
	if len(zl) > len(nl) {
		return false
	}
	d := len(nl) - len(zl)
	for i := range zl {
		if nl[d+i] != zl[i] {
			return false
		}
	}
	return true
}

func c07gUsable(a netip.Addr) bool {
	a = a.Unmap()
	if a.Is4() {
		b := a.As4()
		if b[0] == 127 {
			return false
		}
		return b != [4]byte{192, 0, 2, 50}
	}
	b := a.As16()
	lo := [16]byte{15: 1}
	local := [16]byte{0x20, 0x01, 0x0d, 0xb8, 15: 0x50}
	return b != lo && b != local
}

// VerifC07_GlueFilter: which additional-section addresses a referral may
// contribute as nameserver addresses.
//
//verif:entry tier=quick,thorough
//verif:expect glue-owner-is-a-listed-nameserver glue-owner-inside-the-delegating-zone glue-address-never-loopback-or-local glue-address-is-the-records-own glue-cached-under-its-own-name server-endpoint-is-accepted-glue
//verif:bound one referral for www.sub.example. asked at zone depth 1 (example.) or 2 (sub.example.); additional section = 1 A + 1 AAAA record, each owned by one of 8 names (in-zone, case variants, sibling zone, string-suffix-but-not-label-suffix, foreign TLD) with every 32-bit / 128-bit address; NS host set = the 8 names lower-cased, with or without each glue owner; IPv6 access on or off; local interface addresses = {192.0.2.50, 2001:db8::50}
//verif:outside more than one record per family (duplicate suppression); owner names with escapes
func VerifC07_GlueFilter() {
	c07gServers, c07gKeyNames, c07gKeyTypes, c07gAdded = nil, nil, nil, nil
	localIPaddrs = []net.IP{net.IP{192, 0, 2, 50}.To16(), {0x20, 0x01, 0x0d, 0xb8, 0, 0, 0, 0, 0, 0, 0, 0, 0, 0, 0, 0x50}}
	level := 1 + vChoice("level", 2)
	zone := []string{"", "example.", "sub.example."}[level]
	an := c07gNames[vChoice("a.owner", len(c07gNames))]
	a4 := vBytes("a.addr", 4)
	qn := c07gNames[vChoice("aaaa.owner", len(c07gNames))]
	a6 := vBytes("aaaa.addr", 16)
	// the NS host set: every candidate name, minus (arbitrarily) the owners
	// of the two glue records - membership of any other name cannot matter
	hosts := hostSet{}
	for _, n := range c07gNames {
		hosts[strings.ToLower(n)] = struct{}{}
	}
	if vBool("a.owner.notAnNS") {
		delete(hosts, strings.ToLower(an))
	}
	if vBool("aaaa.owner.notAnNS") {
		delete(hosts, strings.ToLower(qn))
	}
	resp := new(dns.Msg)
	resp.Question = []dns.Question{{Name: "www.sub.example.", Qtype: dns.TypeA, Qclass: dns.ClassINET}}
	resp.Extra = []dns.RR{
		&dns.A{Hdr: dns.RR_Header{Name: an, Rrtype: dns.TypeA, Class: dns.ClassINET, Ttl: 60}, A: net.IP(a4)},
		&dns.AAAA{Hdr: dns.RR_Header{Name: qn, Rrtype: dns.TypeAAAA, Class: dns.ClassINET, Ttl: 60}, AAAA: net.IP(a6)},
	}
	r := new(Resolver)
	r.cfg = new(config.Config)
	r.cfg.IPv6Access = vBool("ipv6access")
	r.glueV4, r.glueV6 = new(cache.Cache), new(cache.Cache)
	servers, found4, found6 := r.checkGlueRR(resp, hosts, level)

	want4, _ := netip.AddrFromSlice(a4)
	want6, _ := netip.AddrFromSlice(a6)
	want6 = want6.Unmap()
	check := func(name string, addrs []netip.Addr, owner string, want netip.Addr) {
		_, listed := hosts[name]
		vAssert("glue-owner-is-a-listed-nameserver", listed)
		vAssert("glue-owner-inside-the-delegating-zone", c07gInZone(name, zone))
		vAssert("glue-cached-under-its-own-name", name == strings.ToLower(owner))
		for _, a := range addrs {
			vAssert("glue-address-never-loopback-or-local", c07gUsable(a))
			vAssert("glue-address-is-the-records-own", a == want)
		}
	}
	for i, name := range c07gKeyNames {
		if c07gKeyTypes[i] == dns.TypeA {
			check(name, c07gAdded[i], an, want4)
		} else {
			check(name, c07gAdded[i], qn, want6)
		}
	}
	for name := range found4 {
		check(name, nil, an, want4)
	}
	for name := range found6 {
		check(name, nil, qn, want6)
	}
	for _, ap := range c07gServers {
		ok4 := len(found4) == 1 && ap.Addr() == want4
		ok6 := len(found6) == 1 && ap.Addr() == want6
		vAssert("server-endpoint-is-accepted-glue", ap.Port() == 53 && (ok4 || ok6) && c07gUsable(ap.Addr()))
	}
	_ = servers
}
