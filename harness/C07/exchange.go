//go:build verif

//verif:pkg internal/dnsclient
package dnsclient

import (
	"net"

	"github.com/miekg/dns"
)

type c07Packet struct{ net.Conn }

func (c07Packet) ReadFrom(p []byte) (int, net.Addr, error)  { return 0, nil, errVerif }
func (c07Packet) WriteTo(p []byte, a net.Addr) (int, error) { return len(p), nil }

type c07Stream struct{ net.Conn }

var c07Script struct {
	replies []*dns.Msg
	next    int
	reads   int
}

//verif:stub (*internal/dnsclient.Conn).WriteMsg = c07WriteMsg
func c07WriteMsg(co *Conn, m *dns.Msg) error { return vErr("write.err") }

//verif:stub (*internal/dnsclient.Conn).ReadMsg = c07ReadMsg
func c07ReadMsg(co *Conn) (*dns.Msg, error) {
	c07Script.reads++
	if c07Script.next >= len(c07Script.replies) {
		return nil, errVerif // read deadline
	}
	r := c07Script.replies[c07Script.next]
	c07Script.next++
	return r, nil
}

func c07Lower(c byte) byte {
	if c >= 'A' && c <= 'Z' {
		return c + 32
	}
	return c
}

// a reply with symbolic id, 0-2 questions, symbolic type/class and a
// two-label name with symbolic characters (ASCII, no dots)
func c07Reply(tag string) *dns.Msg {
	r := new(dns.Msg)
	r.Id = vU16(tag + ".id")
	r.Response = true
	// header bits a hostile or broken upstream may set: none of them excuses
	// a wrong question
	r.Truncated, r.Authoritative = vBool(tag+".tc"), vBool(tag+".aa")
	r.Rcode = int(vU8(tag+".rcode") & 15)
	nq := vChoice(tag+".questions", 3)
	for i := 0; i < nq; i++ {
		b := vBytes(tag+".name", 2)
		vAssume(b[0] < 0x80 && b[1] < 0x80 && b[0] != '.' && b[1] != '.' && b[0] != '\\' && b[1] != '\\')
		r.Question = append(r.Question, dns.Question{Name: string([]byte{b[0], '.', b[1], '.'}), Qtype: vU16(tag + ".qtype"), Qclass: vU16(tag + ".qclass")})
	}
	return r
}

// VerifC07_ExchangeGuard: a reply is accepted only if it carries the
// outstanding query's ID and exactly its question (name compared
// ASCII-case-insensitively); on a datagram socket mismatching IDs are skipped,
// on a stream the first mismatch is an error.
//
//verif:entry tier=quick,thorough
//verif:bound scripts of 1-2 (quick) / 1-3 (thorough) upstream replies, each with symbolic 16-bit id, TC / AA bits and rcode, 0-2 questions, symbolic qtype/qclass and two symbolic one-character labels (any ASCII but '.' and '\\'); datagram and stream transports; write may fail
func VerifC07_ExchangeGuard() {
	maxReplies := 2
	if vTier() > 0 {
		maxReplies = 3
	}
	n := 1 + vChoice("replies", maxReplies)
	c07Script.replies, c07Script.next, c07Script.reads = nil, 0, 0
	for i := 0; i < n; i++ {
		c07Script.replies = append(c07Script.replies, c07Reply("r"+string(rune('0'+i))))
	}
	qb := vBytes("q.name", 2)
	vAssume(qb[0] < 0x80 && qb[1] < 0x80 && qb[0] != '.' && qb[1] != '.' && qb[0] != '\\' && qb[1] != '\\')
	m := new(dns.Msg)
	m.Id = vU16("q.id")
	m.Question = []dns.Question{{Name: string([]byte{qb[0], '.', qb[1], '.'}), Qtype: vU16("q.qtype"), Qclass: vU16("q.qclass")}}
	stream := vBool("stream")
	co := &Conn{}
	if stream {
		co.Conn = c07Stream{}
	} else {
		co.Conn = c07Packet{}
	}
	r, _, err := co.Exchange(m)
	if err != nil {
		vReach("refused")
		return
	}
	vAssert("id-matches", r != nil && r.Id == m.Id)
	vAssert("exactly-one-question", len(r.Question) == 1)
	q, a := m.Question[0], r.Question[0]
	vAssert("type-and-class-match", a.Qtype == q.Qtype && a.Qclass == q.Qclass)
	vAssert("name-matches-case-insensitively", len(a.Name) == 4 && c07Lower(a.Name[0]) == c07Lower(q.Name[0]) && c07Lower(a.Name[2]) == c07Lower(q.Name[2]))
	if stream {
		vAssert("stream-takes-the-first-reply-only", c07Script.reads == 1)
	} else {
		// every skipped datagram had a different id
		ok := true
		for i := 0; i < c07Script.next-1; i++ {
			ok = ok && c07Script.replies[i].Id != m.Id
		}
		vAssert("only-mismatching-ids-skipped", ok)
	}
}
