//go:build verif

//verif:pkg middleware/edns
package edns

import (
	"net"

	"github.com/miekg/dns"
)

// c06Sink is the writer beneath the edns layer: it records what is handed down.
type c06Sink struct {
	proto string
	got   *dns.Msg
	calls int
}

func (s *c06Sink) LocalAddr() net.Addr         { return nil }
func (s *c06Sink) RemoteAddr() net.Addr        { return nil }
func (s *c06Sink) WriteMsg(m *dns.Msg) error   { s.got = m; s.calls++; return nil }
func (s *c06Sink) Write(b []byte) (int, error) { return len(b), nil }
func (s *c06Sink) Close() error                { return nil }
func (s *c06Sink) Msg() *dns.Msg               { return s.got }
func (s *c06Sink) Rcode() int                  { return 0 }
func (s *c06Sink) Written() bool               { return s.calls > 0 }
func (s *c06Sink) Proto() string               { return s.proto }
func (s *c06Sink) RemoteIP() net.IP            { return net.IP{192, 0, 2, 1} }
func (s *c06Sink) Internal() bool              { return false }

// The size measurement is the library's Msg.Len; its verdict is an arbitrary
// boolean here, so both the fitting and the overflowing branch are explored
// for every message.
//
//verif:stub middleware/edns.udpOverflow = c06Overflow
func c06Overflow(m *dns.Msg, limit int) bool { return vBool("overflow") }

// The server cookie digest is not the subject: a fixed string stands in.
//
//verif:stub internal/dnsutil.GenerateServerCookie = c06Cookie
func c06Cookie(secret, remoteip, cookie string) string { return cookie + "5e5e" }

func c06RR(kind int, name string) dns.RR {
	h := dns.RR_Header{Name: name, Class: dns.ClassINET, Ttl: 300}
	switch kind {
	case 1:
		h.Rrtype = dns.TypeA
		return &dns.A{Hdr: h, A: net.IP{192, 0, 2, 7}}
	case 2:
		h.Rrtype = dns.TypeRRSIG
		return &dns.RRSIG{Hdr: h, TypeCovered: dns.TypeA, SignerName: "example."}
	case 3:
		h.Rrtype = dns.TypeNSEC
		return &dns.NSEC{Hdr: h, NextDomain: "z.example."}
	case 4:
		h.Rrtype = dns.TypeNSEC3
		return &dns.NSEC3{Hdr: h}
	default:
		h.Rrtype = dns.TypeSOA
		return &dns.SOA{Hdr: h, Ns: "ns.example.", Mbox: "h.example."}
	}
}

func c06IsDNSSEC(rr dns.RR) bool {
	switch rr.(type) {
	case *dns.RRSIG, *dns.NSEC, *dns.NSEC3:
		return true
	}
	return false
}

func c06UpstreamOPT() *dns.OPT {
	o := &dns.OPT{Hdr: dns.RR_Header{Name: ".", Rrtype: dns.TypeOPT}}
	o.SetUDPSize(vU16("upstream.udp"))
	if vBool("upstream.do") {
		o.SetDo()
	}
	if vBool("upstream.ecs") {
		o.Option = append(o.Option, &dns.EDNS0_SUBNET{Code: dns.EDNS0SUBNET, Family: 1, SourceNetmask: 24, SourceScope: 24, Address: net.IP{198, 51, 100, 0}})
	}
	if vBool("upstream.keepalive") {
		o.Option = append(o.Option, &dns.EDNS0_TCP_KEEPALIVE{Code: dns.EDNS0TCPKEEPALIVE, Timeout: 1234})
	}
	if vBool("upstream.local") {
		o.Option = append(o.Option, &dns.EDNS0_LOCAL{Code: 65001, Data: []byte{1}})
	}
	return o
}

// VerifC06_EdnsWriteMsg: whatever the layers below produce, what leaves the
// edns writer respects what the client negotiated.
//
//verif:entry tier=quick,thorough
//verif:also C01 C19
//verif:bound writer facts do/noedns/noad/nsid/keepalive/client-cookie and proto in {udp,tcp} all symbolic; request OPT absent or carrying a forwarded ECS; upstream message: qtype A or RRSIG, upstream AD symbolic, answer 0-1 RR (both tiers; 2 exceeded the path budget); size verdict symbolic
func VerifC06_EdnsWriteMsg() {
	sink := &c06Sink{proto: "udp"}
	if vBool("tcp") {
		sink.proto = "tcp"
	}
	e := &EDNS{cookiesecret: "s3cret"}
	if vBool("nsid.configured") {
		e.nsidstr = "ns1"
	}
	w := &ResponseWriter{ResponseWriter: sink, EDNS: e, do: vBool("do"), noedns: vBool("noedns"), noad: vBool("noad"),
		nsid: vBool("nsid"), keepalive: vBool("keepalive"), respUDPSize: vU16("respUDPSize"), size: 1232}
	clientCookie := vBool("client.cookie")
	if clientCookie {
		w.cookie = "0011223344556677"
	}
	vAssume(!w.keepalive || sink.proto == "tcp") // ServeDNS only sets it for stream clients
	hasReqOPT := vBool("request.opt")
	if hasReqOPT {
		// the (mutated) request OPT as SetEdns0 leaves it: no options but a possibly forwarded ECS
		w.opt = &dns.OPT{Hdr: dns.RR_Header{Name: ".", Rrtype: dns.TypeOPT}}
		if vBool("request.ecs.forwarded") {
			w.opt.Option = append(w.opt.Option, &dns.EDNS0_SUBNET{Code: dns.EDNS0SUBNET, Family: 1, SourceNetmask: 24, Address: net.IP{203, 0, 113, 0}})
		}
	}

	m := new(dns.Msg)
	qtype := dns.TypeA
	if vBool("q.rrsig") {
		qtype = dns.TypeRRSIG
	}
	m.Question = []dns.Question{{Name: "a.example.", Qtype: qtype, Qclass: dns.ClassINET}}
	m.Response = true
	m.AuthenticatedData = vBool("upstream.ad")
	// two upstream answer records exceed the path budget (> 200000 paths):
	// one in both tiers
	maxAn := 1
	for i := 0; i < maxAn; i++ {
		if k := vChoice("answer.kind", 4); k > 0 {
			m.Answer = append(m.Answer, c06RR(k, "a.example."))
		}
	}
	if k := vChoice("ns.kind", 4); k > 0 {
		m.Ns = append(m.Ns, c06RR([]int{0, 5, 4, 2}[k], "example."))
	}
	var upOPT *dns.OPT
	switch vChoice("extra.kind", 3) {
	case 1:
		m.Extra = append(m.Extra, c06RR(1, "ns.example."))
	case 2:
		upOPT = c06UpstreamOPT()
		m.Extra = append(m.Extra, upOPT)
	}

	err := w.WriteMsg(m)
	out := sink.got
	vAssert("handed-down-once", err == nil && sink.calls == 1 && out != nil)

	opt := out.IsEdns0()
	vAssert("no-opt-unless-client-sent-one", !w.noedns || opt == nil)
	vAssert("opt-present-when-negotiated", w.noedns || opt != nil)
	if opt != nil {
		vAssert("do-echoes-client", opt.Do() == w.do)
		vAssert("advertised-size-is-ours", opt.UDPSize() == w.respUDPSize)
		ecs, ka, kaOurs, cookies, locals, nsids := 0, 0, 0, 0, 0, 0
		for _, o := range opt.Option {
			switch x := o.(type) {
			case *dns.EDNS0_SUBNET:
				ecs++
			case *dns.EDNS0_TCP_KEEPALIVE:
				ka++
				if x.Timeout == tcpKeepaliveUnits {
					kaOurs++
				}
			case *dns.EDNS0_COOKIE:
				cookies++
			case *dns.EDNS0_LOCAL:
				locals++
			case *dns.EDNS0_NSID:
				nsids++
			}
		}
		vAssert("client-subnet-never-returned", ecs == 0)
		vAssert("keepalive-only-ours-only-when-asked-on-stream", (w.keepalive && ka == 1 && kaOurs == 1) || (!w.keepalive && ka == 0))
		vAssert("cookie-only-against-client-cookie", (clientCookie && cookies >= 1) || (!clientCookie && cookies == 0))
		vAssert("nsid-only-when-asked-and-configured", nsids == 0 || (w.nsid && e.nsidstr != ""))
	}
	if !w.do && qtype != dns.TypeRRSIG {
		clean := true
		for _, rr := range out.Answer {
			clean = clean && !c06IsDNSSEC(rr)
		}
		for _, rr := range out.Ns {
			clean = clean && !c06IsDNSSEC(rr)
		}
		vAssert("no-dnssec-records-without-do", clean)
	}
	vAssert("ad-clear-when-client-opted-out", !w.noad || !out.AuthenticatedData)
	vAssert("ad-never-invented", !out.AuthenticatedData || m.AuthenticatedData)
	if out.Truncated {
		onlyOPT := len(out.Extra) == 0 || (len(out.Extra) == 1 && out.Extra[0].Header().Rrtype == dns.TypeOPT)
		vAssert("truncated-is-question-and-opt-only", sink.proto == "udp" && len(out.Answer) == 0 && len(out.Ns) == 0 && onlyOPT && !out.AuthenticatedData && len(out.Question) == 1)
	}
	vAssert("question-kept", len(out.Question) == 1 && out.Question[0].Name == "a.example." && out.Response)
}
