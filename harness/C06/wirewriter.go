//go:build verif

//verif:pkg middleware/edns
package edns

import (
	"net"
	"strings"

	"github.com/miekg/dns"
	"github.com/semihalev/sdns/middleware"
)

// c06wSink is the transport-side writer beneath the edns layer on the byte
// path: it records the datagram it is handed.
type c06wSink struct {
	proto string
	wire  []byte
	info  middleware.WireInfo
	calls int
}

func (s *c06wSink) LocalAddr() net.Addr         { return nil }
func (s *c06wSink) RemoteAddr() net.Addr        { return nil }
func (s *c06wSink) WriteMsg(m *dns.Msg) error   { return nil }
func (s *c06wSink) Write(b []byte) (int, error) { return len(b), nil }
func (s *c06wSink) Close() error                { return nil }
func (s *c06wSink) Msg() *dns.Msg               { return nil }
func (s *c06wSink) Rcode() int                  { return 0 }
func (s *c06wSink) Written() bool               { return s.calls > 0 }
func (s *c06wSink) Proto() string               { return s.proto }
func (s *c06wSink) RemoteIP() net.IP            { return net.IP{192, 0, 2, 1} }
func (s *c06wSink) Internal() bool              { return false }
func (s *c06wSink) WireReady() (middleware.WireCapability, bool) {
	return middleware.WireCapability{}, true
}
func (s *c06wSink) WriteWire(body []byte, info middleware.WireInfo) error {
	s.calls++
	s.wire, s.info = body, info
	return nil
}

// The cookie digest (SHA-256) is not the subject; its 40 output octets are arbitrary.
//
//verif:stub (*middleware/edns.ResponseWriter).serverCookie = c06wCookie
func c06wCookie(w *ResponseWriter, dst []byte) bool {
	if len(dst) < serverCookieLen {
		return false
	}
	copy(dst, vBytes("server.cookie", serverCookieLen))
	return true
}

// VerifC06_WireReplyWithinUDPCeiling: on the byte path the edns layer hands
// the transport a datagram no longer than the size negotiated with the client
// - the per-client OPT with cookie, NSID and an Extended DNS Error included -
// or declines to the message path (which truncates); a client without EDNS
// gets the body as it is, and AD is cleared for a client that must not see it.
//
//verif:entry tier=quick,thorough
//verif:also C05
//verif:expect udp-datagram-within-the-negotiated-size no-opt-for-a-client-without-edns ad-cleared-for-opted-out-client some-wire-reply-sent
//verif:bound negotiated size 512 or 1232; body length from size+4 down to size-95 (every length); client with/without EDNS, with/without cookie; NSID absent, 12 or 170 octets and requested or not; Extended DNS Error absent or the 30-octet cached-failure text; UDP or TCP; DO and no-AD flags symbolic
//verif:outside the OPT's content (VerifC05_* parity harnesses); bodies with DNSSEC records for a DO=0 client (declined before this point)
func VerifC06_WireReplyWithinUDPCeiling() {
	size := []int{512, 1232}[vChoice("negotiated.size", 2)]
	sink := &c06wSink{proto: []string{"udp", "tcp"}[vChoice("proto", 2)]}
	e := &EDNS{cookiesecret: "s3cr3t", nsidstr: []string{"", "resolver-a01", strings.Repeat("n", 170)}[vChoice("nsid.config", 3)]}
	w := &ResponseWriter{ResponseWriter: sink, EDNS: e, size: size}
	w.noedns = vBool("client.noedns")
	w.do, w.noad = vBool("client.do"), vBool("client.noad")
	w.respUDPSize = uint16(size)
	if vBool("client.cookie") {
		w.hasCookieRaw = true
		copy(w.cookieRaw[:], vBytes("client.cookie.octets", 8))
	}
	w.nsid = vBool("client.asked.nsid")
	body := make([]byte, size+4-vChoice("body.slack", 100))
	body[2] = 0x80 // QR
	if vBool("stored.ad") {
		body[3] |= 0x20
	}
	info := middleware.WireInfo{Rcode: dns.RcodeServerFailure, AuthenticatedData: body[3]&0x20 != 0}
	if vBool("reply.ede") {
		info.HasEDE, info.EDECode, info.EDEText = true, dns.ExtendedErrorCodeCachedError, "Cached recursion failure xxxxx"
	}
	n := len(body)
	err := w.WriteWire(body, info)
	if err != nil || sink.calls == 0 {
		vAssert("udp-datagram-within-the-negotiated-size", sink.calls == 0)
		return
	}
	vReach("some-wire-reply-sent")
	if sink.proto == "udp" {
		vAssert("udp-datagram-within-the-negotiated-size", len(sink.wire) <= size)
	}
	if w.noedns {
		vAssert("no-opt-for-a-client-without-edns", len(sink.wire) == n && sink.wire[11] == 0)
	}
	if w.noad {
		vAssert("ad-cleared-for-opted-out-client", sink.wire[3]&0x20 == 0 && !sink.info.AuthenticatedData)
	}
}
