//go:build verif

//verif:pkg server
package server

import (
	"github.com/miekg/dns"
	"github.com/semihalev/sdns/internal/wire"
)

// VerifC06_AcceptHeader: the listeners' header verdict, for all 2^96
// headers, equals the documented rule and the DNS library's own accept
// function; the in-place rejection is a bare 12-byte header that echoes ID,
// opcode and RD, sets QR and the right rcode, and carries nothing else.
//
//verif:entry tier=quick,thorough
//verif:bound all 2^96 12-byte headers (every flag, opcode, rcode and count value); body bytes beyond the header are irrelevant to the verdict
func VerifC06_AcceptHeader() {
	raw := vBytes("hdr", 12)
	h, ok := wire.ParseHeader(raw)
	vAssert("header-parses", ok)
	v := acceptHeader(h)

	qr := raw[2]&0x80 != 0
	opcode := int(raw[2]>>3) & 0xF
	qd := uint16(raw[4])<<8 | uint16(raw[5])
	an := uint16(raw[6])<<8 | uint16(raw[7])
	ns := uint16(raw[8])<<8 | uint16(raw[9])
	ar := uint16(raw[10])<<8 | uint16(raw[11])
	var want acceptVerdict
	switch {
	case qr:
		want = acceptIgnore
	case opcode != 0 && opcode != 4:
		want = acceptNotImplemented
	case qd != 1 || an > 1 || ns > 1 || ar > 2:
		want = acceptFormatError
	default:
		want = acceptOK
	}
	vAssert("verdict-is-the-rule", v == want)

	lib := dns.DefaultMsgAcceptFunc(dns.Header{Id: h.ID, Bits: h.Flags, Qdcount: h.QDCount, Ancount: h.ANCount, Nscount: h.NSCount, Arcount: h.ARCount})
	var libWant acceptVerdict
	switch lib {
	case dns.MsgAccept:
		libWant = acceptOK
	case dns.MsgIgnore:
		libWant = acceptIgnore
	case dns.MsgRejectNotImplemented:
		libWant = acceptNotImplemented
	default:
		libWant = acceptFormatError
	}
	vAssert("verdict-equals-library", v == libWant)

	if v == acceptFormatError || v == acceptNotImplemented {
		j := new(udpJob)
		copy(j.rx[:], raw)
		j.rxLen = 12
		j.burst = new(udpTXBurst) // stage into tx instead of a socket
		j.rejectInPlace(v)
		tx := j.tx[:j.txLen]
		vAssert("reject-is-bare-header", j.txLen == 12 && j.written)
		vAssert("reject-echoes-id", tx[0] == raw[0] && tx[1] == raw[1])
		vAssert("reject-qr-opcode-rd", tx[2]&0x80 != 0 && int(tx[2]>>3)&0xF == opcode && tx[2]&0x01 == raw[2]&0x01 && tx[2]&0x06 == 0)
		rc := byte(dns.RcodeFormatError)
		if v == acceptNotImplemented {
			rc = byte(dns.RcodeNotImplemented)
		}
		vAssert("reject-rcode-only", tx[3] == rc)
		zero := true
		for i := 4; i < 12; i++ {
			zero = zero && tx[i] == 0
		}
		vAssert("reject-sections-empty", zero)
	}
}
