//go:build verif

//verif:pkg middleware
package middleware

import (
	"net"

	"github.com/miekg/dns"
)

type c06T struct {
	got   *dns.Msg
	calls int
}

func (t *c06T) LocalAddr() net.Addr         { return nil }
func (t *c06T) RemoteAddr() net.Addr        { return &net.UDPAddr{IP: net.IP{192, 0, 2, 1}, Port: 5353} }
func (t *c06T) WriteMsg(m *dns.Msg) error   { t.got = m; t.calls++; return nil }
func (t *c06T) Write(b []byte) (int, error) { t.calls++; return len(b), nil }
func (t *c06T) Close() error                { return nil }

// VerifC06_RcodeReplyEcho: the error replies the chain itself produces
// (BADVERS, SERVFAIL for RD=0, REFUSED ...) are replies to THIS query: QR set,
// id and opcode echoed, the question echoed, no OPT unless
// the client sent one, AD clear unless the client may see it.
//
//verif:entry tier=quick,thorough
//verif:also C11
//verif:bound request with symbolic id, opcode (4 bits), RD/CD/AD bits, qtype/qclass, with or without an OPT (symbolic size / version / DO); rcode 0..23 symbolic; do flag symbolic
func VerifC06_RcodeReplyEcho() {
	req := new(dns.Msg)
	req.Id = vU16("id")
	req.Opcode = int(vU8("opcode") & 0xF)
	req.RecursionDesired, req.CheckingDisabled, req.AuthenticatedData = vBool("rd"), vBool("cd"), vBool("ad")
	req.Question = []dns.Question{{Name: "a.example.", Qtype: vU16("qtype"), Qclass: vU16("qclass")}}
	hasOPT := vBool("hasOPT")
	reqDO := false
	if hasOPT {
		opt := &dns.OPT{Hdr: dns.RR_Header{Name: ".", Rrtype: dns.TypeOPT}}
		opt.SetUDPSize(vU16("udp"))
		opt.SetVersion(vU8("version"))
		if vBool("req.do") {
			opt.SetDo()
			reqDO = true
		}
		req.Extra = []dns.RR{opt}
	}
	rcode := int(vU8("rcode"))
	vAssume(rcode <= 23)
	do := vBool("do")
	t := new(c06T)
	ch := NewChain(nil)
	ch.Reset(t, req)
	ch.CancelWithRcode(rcode, do)
	out := t.got
	vAssert("one-reply", t.calls == 1 && out != nil)
	vAssert("qr-id-opcode-echoed", out.Response && out.Id == req.Id && out.Opcode == req.Opcode)
	if rcode != dns.RcodeFormatError && rcode != dns.RcodeNotImplemented {
		// a FORMERR/NOTIMP rejection may be a bare header
		vAssert("question-echoed", len(out.Question) == 1 && out.Question[0] == req.Question[0])
	}
	// only what the property states: an OPT never appears unasked, no DNSSEC
	// records without DO, AD clear when the client set CD or neither DO nor AD
	opt := out.IsEdns0()
	vAssert("opt-only-if-client-sent-one", opt == nil || hasOPT)
	sec := 0
	for _, rr := range append(append([]dns.RR{}, out.Answer...), out.Ns...) {
		if t := rr.Header().Rrtype; t == dns.TypeRRSIG || t == dns.TypeNSEC || t == dns.TypeNSEC3 {
			sec++
		}
	}
	vAssert("no-dnssec-records-without-do", reqDO || sec == 0)
	if req.CheckingDisabled || (!reqDO && !req.AuthenticatedData) {
		vAssert("ad-clear-unless-asked-for", !out.AuthenticatedData)
	}
}
