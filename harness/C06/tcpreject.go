//go:build verif

//verif:pkg server
package server

import (
	"net"
	"time"

	"github.com/miekg/dns"
	"github.com/semihalev/sdns/internal/dnsclient"
)

type c06tConn struct{ out []byte }

func (c *c06tConn) Read(b []byte) (int, error)         { return 0, errVerif }
func (c *c06tConn) Write(b []byte) (int, error)        { c.out = append(c.out, b...); return len(b), nil }
func (c *c06tConn) Close() error                       { return nil }
func (c *c06tConn) LocalAddr() net.Addr                { return nil }
func (c *c06tConn) RemoteAddr() net.Addr               { return nil }
func (c *c06tConn) SetDeadline(t time.Time) error      { return nil }
func (c *c06tConn) SetReadDeadline(t time.Time) error  { return nil }
func (c *c06tConn) SetWriteDeadline(t time.Time) error { return nil }

// VerifC06_StreamRejectIsABareHeader: the stream transports' in-place
// rejection (FORMERR / NOTIMP before any decoding) is, for every header the
// client may have sent and whatever the job's transmit buffer held from an
// earlier reply, one frame of exactly twelve octets that echoes the query's
// id and opcode, sets QR and the rcode of the verdict, claims no AD the client
// did not send, and has all four counts clear (C06 states nothing about the
// other header bits of a rejection; they are not asserted).
//
//verif:entry tier=quick,thorough
//verif:expect stream-reject-is-one-bare-header-frame stream-reject-echoes-id-and-opcode stream-reject-rcode-and-empty-sections
//verif:bound all 2^96 request headers; verdict FORMERR or NOTIMP; the job's transmit buffer pre-filled with 16 symbolic octets (left-overs of an earlier reply); an empty connection buffer
//verif:outside framing when the connection buffer already holds replies (VerifC10_StageFraming)
func VerifC06_StreamRejectIsABareHeader() {
	raw := vBytes("hdr", 12)
	j := new(tcpJob)
	j.rx = make([]byte, 64)
	copy(j.rx, raw)
	j.tx = make([]byte, 64)
	copy(j.tx, vBytes("stale.tx", 16))
	conn := new(c06tConn)
	j.stream = new(tcpStream)
	j.stream.conn = conn
	verdict := acceptFormatError
	if vBool("verdict.notimp") {
		verdict = acceptNotImplemented
	}
	j.rejectInPlace(verdict, 12)
	_ = j.stream.flush()

	out := conn.out
	vAssert("stream-reject-is-one-bare-header-frame", j.written && len(out) == dnsclient.FramePrefixLen+12 && out[0] == 0 && out[1] == 12)
	if len(out) != 14 {
		return
	}
	tx := out[2:]
	opcode := (raw[2] >> 3) & 0xF
	vAssert("stream-reject-echoes-id-and-opcode", tx[0] == raw[0] && tx[1] == raw[1] && tx[2]&0x80 != 0 && (tx[2]>>3)&0xF == opcode)
	rc := byte(dns.RcodeFormatError)
	if verdict == acceptNotImplemented {
		rc = byte(dns.RcodeNotImplemented)
	}
	// the rcode of the verdict; AD only if the client itself set it (a bare
	// header has no OPT, so DO cannot be what allows it)
	clean := tx[3]&0x0F == rc && (tx[3]&0x20 == 0 || raw[3]&0x20 != 0)
	for i := 4; i < 12; i++ {
		clean = clean && tx[i] == 0
	}
	vAssert("stream-reject-rcode-and-empty-sections", clean)
}
