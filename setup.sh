#!/bin/sh
# Build the checker from files on disk only (offline).
set -e
cd "$(dirname "$0")/engine"
export GOFLAGS=-mod=mod GOPROXY=off
unset GOSUMDB
mkdir -p ../bin
go build -o ../bin/vcheck ./cmd/vcheck
echo "built $(cd .. && pwd)/bin/vcheck"
